// Generates a table of compile-time (static macro) time zones: `jiff::tz::get!` for every name of
// the bundled database and `jiff::tz::include!` for the committed synthetic TZif files (C18).
use std::io::Write;
fn walk(dir: &std::path::Path, out: &mut Vec<std::path::PathBuf>) {
    let Ok(rd) = std::fs::read_dir(dir) else { return };
    let mut es: Vec<_> = rd.filter_map(|e| e.ok()).collect();
    es.sort_by_key(|e| e.file_name());
    for e in es {
        let p = e.path();
        if p.is_dir() {
            walk(&p, out);
        } else {
            out.push(p);
        }
    }
}
fn main() {
    let out = std::path::PathBuf::from(std::env::var("OUT_DIR").unwrap()).join("static_zones.rs");
    let mut f = std::fs::File::create(out).unwrap();
    writeln!(f, "pub static STATIC_GET: &[(&str, jiff::tz::TimeZone)] = &[").unwrap();
    let mut names: Vec<&str> = jiff_tzdb::available().collect();
    names.sort();
    for n in names {
        writeln!(f, "    ({n:?}, jiff::tz::get!({n:?})),").unwrap();
    }
    writeln!(f, "];").unwrap();
    writeln!(f, "pub static STATIC_INCLUDE: &[(&str, jiff::tz::TimeZone)] = &[").unwrap();
    let mut files = vec![];
    walk(std::path::Path::new("/verif/corpus/tzif"), &mut files);
    for p in files {
        let rel = p.strip_prefix("/verif/corpus/tzif").unwrap().to_string_lossy().to_string();
        if rel.starts_with("special/") {
            continue;
        }
        writeln!(f, "    ({rel:?}, jiff::tz::include!({:?}, \"Verif/Anon\")),", p.to_string_lossy()).unwrap();
    }
    writeln!(f, "];").unwrap();
    println!("cargo:rerun-if-changed=/verif/corpus/tzif");
    println!("cargo:rerun-if-changed=/repo/crates/jiff-tzdb");
    println!("cargo:rerun-if-changed=build.rs");
}
