//! Builders for TZif files and Android-style concatenated tzdata files, written
//! from RFC 8536 and the bionic `tzdata` layout (used by C18 and C19).

/// A minimal, well-formed TZif (version 2) file for a zone that has always
/// had `offset` seconds and abbreviation `abbr` (3..=6 alphanumerics).
pub fn fixed_tzif(abbr: &str, offset: i32) -> Vec<u8> {
    assert!(abbr.len() >= 3 && abbr.bytes().all(|b| b.is_ascii_alphanumeric()));
    let mut out = vec![];
    let block = |v: u8, tsz: usize, out: &mut Vec<u8>| {
        out.extend_from_slice(b"TZif");
        out.push(v);
        out.extend_from_slice(&[0u8; 15]);
        // isutcnt, isstdcnt, leapcnt, timecnt, typecnt, charcnt
        for c in [0u32, 0, 0, 0, 1, abbr.len() as u32 + 1] {
            out.extend_from_slice(&c.to_be_bytes());
        }
        let _ = tsz; // no transitions
        out.extend_from_slice(&offset.to_be_bytes());
        out.push(0); // isdst
        out.push(0); // designation index
        out.extend_from_slice(abbr.as_bytes());
        out.push(0);
    };
    block(b'2', 4, &mut out);
    block(b'2', 8, &mut out);
    // footer: POSIX TZ with the sign inverted
    let a = offset.unsigned_abs();
    let sign = if offset > 0 { "-" } else { "" };
    let (h, m, s) = (a / 3600, a / 60 % 60, a % 60);
    let posix = if s != 0 { format!("<{abbr}>{sign}{h}:{m:02}:{s:02}") } else if m != 0 { format!("<{abbr}>{sign}{h}:{m:02}") } else { format!("<{abbr}>{sign}{h}") };
    out.push(b'\n');
    out.extend_from_slice(posix.as_bytes());
    out.push(b'\n');
    out
}

/// Build an Android-style concatenated `tzdata` file from (name, TZif bytes)
/// pairs. Names must be at most 39 bytes.
pub fn concatenated(version: &str, zones: &[(String, Vec<u8>)]) -> Vec<u8> {
    assert_eq!(version.len(), 5);
    let mut zones: Vec<&(String, Vec<u8>)> = zones.iter().collect();
    zones.sort_by(|a, b| a.0.cmp(&b.0));
    let index_offset = 24u32;
    let data_offset = index_offset + 52 * zones.len() as u32;
    let mut out = vec![];
    out.extend_from_slice(b"tzdata");
    out.extend_from_slice(version.as_bytes());
    out.push(0);
    out.extend_from_slice(&index_offset.to_be_bytes());
    out.extend_from_slice(&data_offset.to_be_bytes());
    let total: u32 = zones.iter().map(|z| z.1.len() as u32).sum();
    out.extend_from_slice(&(data_offset + total).to_be_bytes()); // zonetab offset
    let mut start = 0u32;
    for (name, data) in zones.iter().map(|z| (&z.0, &z.1)) {
        assert!(name.len() < 40, "zone name too long for the index: {name}");
        let mut n = [0u8; 40];
        n[..name.len()].copy_from_slice(name.as_bytes());
        out.extend_from_slice(&n);
        out.extend_from_slice(&start.to_be_bytes());
        out.extend_from_slice(&(data.len() as u32).to_be_bytes());
        out.extend_from_slice(&0u32.to_be_bytes());
        start += data.len() as u32;
    }
    for (_, data) in zones.iter().map(|z| (&z.0, &z.1)) {
        out.extend_from_slice(data);
    }
    out
}

/// A TZif version-2 file from explicit local time types, transitions (instant, type index; sorted,
/// within i32 range) and a POSIX TZ footer. Type 0 is in force before the first transition.
pub fn build_tzif(types: &[(String, i32, bool)], trans: &[(i64, u8)], footer: &str) -> Vec<u8> {
    let mut desig: Vec<u8> = vec![];
    let mut idx: Vec<u8> = vec![];
    for (abbr, _, _) in types {
        idx.push(desig.len() as u8);
        desig.extend_from_slice(abbr.as_bytes());
        desig.push(0);
    }
    let mut out = vec![];
    for v2 in [false, true] {
        out.extend_from_slice(b"TZif");
        out.push(b'2');
        out.extend_from_slice(&[0u8; 15]);
        for c in [0u32, 0, 0, trans.len() as u32, types.len() as u32, desig.len() as u32] {
            out.extend_from_slice(&c.to_be_bytes());
        }
        for (t, _) in trans {
            if v2 {
                out.extend_from_slice(&t.to_be_bytes());
            } else {
                out.extend_from_slice(&(*t as i32).to_be_bytes());
            }
        }
        for (_, ty) in trans {
            out.push(*ty);
        }
        for (i, (_, off, dst)) in types.iter().enumerate() {
            out.extend_from_slice(&off.to_be_bytes());
            out.push(*dst as u8);
            out.push(idx[i]);
        }
        out.extend_from_slice(&desig);
    }
    out.push(b'\n');
    out.extend_from_slice(footer.as_bytes());
    out.push(b'\n');
    out
}
