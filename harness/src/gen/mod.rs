//! Shared constructive generators (proptest strategies).

use proptest::prelude::*;

/// Limit-biased integer in [lo, hi].
pub fn biased(lo: i64, hi: i64) -> BoxedStrategy<i64> {
    assert!(lo <= hi);
    let c = move |v: i128| -> i64 { v.clamp(lo as i128, hi as i128) as i64 };
    let specials: Vec<i64> = {
        let mut v = vec![lo, hi, c(lo as i128 + 1), c(hi as i128 - 1), c(0), c(1), c(-1)];
        for k in [7u32, 8, 15, 16, 31, 32, 53, 62, 63] {
            let p = 1i128 << k;
            for d in [-1i128, 0, 1] {
                v.push(c(p + d));
                v.push(c(-p + d));
            }
        }
        for base in [60i128, 1000, 3600, 86400, 1_000_000, 1_000_000_000, 86_400_000_000_000] {
            for d in [-1i128, 0, 1] {
                v.push(c(base + d));
                v.push(c(-base + d));
            }
        }
        v.sort();
        v.dedup();
        v
    };
    prop_oneof![
        3 => proptest::sample::select(specials),
        2 => (lo..=hi),
        2 => (c(-1000)..=c(1000)),
        1 => (c(-100_000_000)..=c(100_000_000)),
    ]
    .boxed()
}

/// (year, month, day) of a valid civil date, biased to range ends, month
/// ends, leap days, years -1/0/1, century years.
pub fn ymd() -> BoxedStrategy<(i16, i8, i8)> {
    let year = prop_oneof![
        2 => prop_oneof![Just(-9999i64), Just(9999), Just(-9998), Just(9998), Just(-1), Just(0), Just(1), Just(1969), Just(1970), Just(1900), Just(2000), Just(2100), Just(1600), Just(4), Just(-4), Just(400), Just(-400)],
        3 => -9999i64..=9999,
        4 => 1800i64..=2200,
    ];
    (year, 1i64..=12, 0u8..=9, 1i64..=31)
        .prop_map(|(y, m, sel, d)| {
            let dim = crate::refmodel::refcal::days_in_month(y, m);
            let d = match sel {
                0 | 1 => dim,
                2 => 1,
                3 => (dim - 1).max(1),
                4 => 28.min(dim),
                _ => ((d - 1) % dim) + 1,
            };
            (y as i16, m as i8, d as i8)
        })
        .boxed()
}

/// Nanosecond of day, biased to boundaries.
pub fn tod_ns() -> BoxedStrategy<i64> {
    const D: i64 = 86_400_000_000_000;
    prop_oneof![
        2 => prop_oneof![Just(0i64), Just(1), Just(D - 1), Just(D - 2), Just(D / 2), Just(D - 1_000_000_000), Just(D - 1_000_000_000 - 1), Just(3_600_000_000_000), Just(3_600_000_000_000 - 1)],
        2 => (0i64..86400).prop_map(|s| s * 1_000_000_000),
        1 => (0i64..86400, prop_oneof![Just(1i64), Just(999_999_999), Just(500_000_000), Just(499_999_999), Just(500_000_001)]).prop_map(|(s, n)| s * 1_000_000_000 + n),
        3 => 0i64..D,
    ]
    .boxed()
}

pub fn mk_date(y: i16, m: i8, d: i8) -> jiff::civil::Date {
    jiff::civil::Date::new(y, m, d).expect("generator produced invalid date")
}

pub fn mk_time(ns: i64) -> jiff::civil::Time {
    let h = ns / 3_600_000_000_000;
    let mi = ns / 60_000_000_000 % 60;
    let s = ns / 1_000_000_000 % 60;
    let n = ns % 1_000_000_000;
    jiff::civil::Time::new(h as i8, mi as i8, s as i8, n as i32).expect("time")
}

/// Timestamp as i128 nanoseconds, biased.
pub fn ts_ns() -> BoxedStrategy<i128> {
    use crate::refmodel::wide::*;
    let sec = biased(-377705023201, 253402207200);
    let sub = prop_oneof![Just(0i64), Just(1), Just(999_999_999), Just(500_000_000), 0i64..1_000_000_000];
    prop_oneof![
        4 => (sec, sub).prop_map(|(s, n)| (s as i128 * NS_PER_SEC + n as i128).clamp(TS_MIN_NS, TS_MAX_NS)),
        2 => (-4371587i64..=2932896, -2i64..=2).prop_map(|(d, e)| (d as i128 * NS_PER_DAY + e as i128).clamp(TS_MIN_NS, TS_MAX_NS)),
        1 => (-100i64..=100, -3i64..=3).prop_map(|(s, e)| s as i128 * NS_PER_SEC + e as i128),
        3 => (-377705023201i64..=253402207200, 0i64..1_000_000_000).prop_map(|(s, n)| (s as i128 * NS_PER_SEC + n as i128).clamp(TS_MIN_NS, TS_MAX_NS)),
    ]
    .boxed()
}

/// Offset seconds, biased.
pub fn offset_secs() -> BoxedStrategy<i32> {
    prop_oneof![
        2 => prop_oneof![Just(0i32), Just(93599), Just(-93599), Just(1), Just(-1), Just(59), Just(-59), Just(60), Just(3600), Just(-3600), Just(19800), Just(20700), Just(-34200), Just(93598), Just(-93598)],
        2 => (-25i32..=25).prop_map(|h| h * 3600),
        1 => (-1559i32..=1559).prop_map(|m| m * 60),
        3 => -93599i32..=93599,
    ]
    .boxed()
}

pub fn mk_ts(ns: i128) -> jiff::Timestamp {
    jiff::Timestamp::from_nanosecond(ns).expect("generator produced invalid timestamp")
}

// --- spans -----------------------------------------------------------------

pub const SPAN_LIMITS: [i64; 10] = [
    19_998,
    239_976,
    1_043_497,
    7_304_484,
    175_307_616,
    10_518_456_960,
    631_107_417_600,
    631_107_417_600_000,
    631_107_417_600_000_000,
    i64::MAX,
];

pub const UNIT_NS: [i128; 10] = [
    0,
    0,
    7 * 86_400_000_000_000,
    86_400_000_000_000,
    3_600_000_000_000,
    60_000_000_000,
    1_000_000_000,
    1_000_000,
    1_000,
    1,
];

/// A span as ten magnitudes (years..nanoseconds) and one sign.
#[derive(serde::Serialize, serde::Deserialize, Clone, Debug, PartialEq, Eq, Hash)]
pub struct SpanSpec {
    pub neg: bool,
    pub u: [i64; 10],
}

impl SpanSpec {
    pub fn zero() -> SpanSpec {
        SpanSpec { neg: false, u: [0; 10] }
    }
    pub fn sign(&self) -> i128 {
        if self.u.iter().all(|&x| x == 0) {
            0
        } else if self.neg {
            -1
        } else {
            1
        }
    }
    pub fn get(&self, i: usize) -> i128 {
        self.sign() * self.u[i] as i128
    }
    pub fn to_span(&self) -> jiff::Span {
        let s = if self.neg { -1i64 } else { 1 };
        let v = |i: usize| s * self.u[i];
        jiff::Span::new()
            .try_years(v(0)).expect("years")
            .try_months(v(1)).expect("months")
            .try_weeks(v(2)).expect("weeks")
            .try_days(v(3)).expect("days")
            .try_hours(v(4)).expect("hours")
            .try_minutes(v(5)).expect("minutes")
            .try_seconds(v(6)).expect("seconds")
            .try_milliseconds(v(7)).expect("ms")
            .try_microseconds(v(8)).expect("us")
            .try_nanoseconds(v(9)).expect("ns")
    }
    pub fn from_span(s: &jiff::Span) -> SpanSpec {
        let f = [
            s.get_years() as i64,
            s.get_months() as i64,
            s.get_weeks() as i64,
            s.get_days() as i64,
            s.get_hours() as i64,
            s.get_minutes(),
            s.get_seconds(),
            s.get_milliseconds(),
            s.get_microseconds(),
            s.get_nanoseconds(),
        ];
        let neg = f.iter().any(|&x| x < 0);
        SpanSpec { neg, u: f.map(|x| x.abs()) }
    }
    /// signed total of hours..nanoseconds in ns
    pub fn time_ns(&self) -> i128 {
        let mut t = 0i128;
        for i in 4..10 {
            t += self.u[i] as i128 * UNIT_NS[i];
        }
        self.sign() * t
    }
    /// signed weeks*7 + days
    pub fn days(&self) -> i128 {
        self.sign() * (self.u[2] as i128 * 7 + self.u[3] as i128)
    }
    /// signed years*12 + months
    pub fn months(&self) -> i128 {
        self.sign() * (self.u[0] as i128 * 12 + self.u[1] as i128)
    }
    pub fn has_calendar(&self) -> bool {
        self.u[..4].iter().any(|&x| x != 0)
    }
    pub fn negated(&self) -> SpanSpec {
        SpanSpec { neg: !self.neg, u: self.u }
    }
}

fn unit_mag(i: usize) -> BoxedStrategy<i64> {
    let lim = SPAN_LIMITS[i];
    prop_oneof![
        6 => Just(0i64),
        1 => Just(lim),
        1 => Just(lim - 1),
        1 => Just(1i64),
        3 => 0i64..=70.min(lim),
        2 => 0i64..=1500.min(lim),
        2 => 0i64..=lim,
        1 => (0u32..62).prop_map(move |k| ((1i64 << k) + 1).min(lim)),
    ]
    .boxed()
}

/// Mask classes: which units may be non-zero.
pub fn span_spec_masked(mask: [bool; 10]) -> BoxedStrategy<SpanSpec> {
    let units: Vec<BoxedStrategy<i64>> = (0..10).map(|i| if mask[i] { unit_mag(i) } else { Just(0i64).boxed() }).collect();
    (any::<bool>(), units)
        .prop_map(|(neg, v)| {
            let mut u = [0i64; 10];
            u.copy_from_slice(&v);
            SpanSpec { neg, u }
        })
        .boxed()
}

pub fn span_spec() -> BoxedStrategy<SpanSpec> {
    prop_oneof![
        3 => span_spec_masked([true; 10]),
        2 => span_spec_masked([true, true, true, true, false, false, false, false, false, false]),
        2 => span_spec_masked([false, false, false, false, true, true, true, true, true, true]),
        1 => span_spec_masked([false, false, true, true, true, true, true, true, true, true]),
        2 => (0usize..10, any::<bool>()).prop_flat_map(|(i, neg)| unit_mag(i).prop_map(move |m| { let mut u = [0i64; 10]; u[i] = m; SpanSpec { neg, u } })),
    ]
    .boxed()
}

/// (secs, nanos) of a SignedDuration, biased.
pub fn signed_duration() -> BoxedStrategy<(i64, i32)> {
    let secs = prop_oneof![
        3 => biased(i64::MIN, i64::MAX),
        3 => biased(-700_000_000_000, 700_000_000_000),
        2 => biased(-200_000, 200_000),
    ];
    let nanos = prop_oneof![
        2 => Just(0i32),
        2 => biased(-999_999_999, 999_999_999).prop_map(|v| v as i32),
    ];
    (secs, nanos).boxed()
}

/// Internal coherence of a Timestamp as observable through the public API:
/// the nanosecond view is in range, second and sub-second parts agree in sign
/// and the value is ==/cmp/hash-equal to `from_nanosecond` of its own
/// nanosecond view (a value whose fields have mixed signs fails this).
pub fn ts_sane(ts: jiff::Timestamp) -> Result<(), String> {
    use std::hash::{Hash, Hasher};
    let ns = ts.as_nanosecond();
    if !(crate::refmodel::wide::TS_MIN_NS..=crate::refmodel::wide::TS_MAX_NS).contains(&ns) {
        return Err(format!("timestamp {ns}ns is outside Timestamp::MIN..=MAX"));
    }
    let (s, n) = (ts.as_second(), ts.subsec_nanosecond());
    if s as i128 != ns / 1_000_000_000 || n as i128 != ns % 1_000_000_000 {
        return Err(format!("timestamp views disagree: as_nanosecond={ns} as_second={s} subsec_nanosecond={n}"));
    }
    let canon = jiff::Timestamp::from_nanosecond(ns).map_err(|e| e.to_string())?;
    let h = |t: &jiff::Timestamp| {
        let mut st = std::collections::hash_map::DefaultHasher::new();
        t.hash(&mut st);
        st.finish()
    };
    if ts != canon || ts.cmp(&canon) != std::cmp::Ordering::Equal || h(&ts) != h(&canon) {
        return Err(format!("timestamp with as_nanosecond={ns} is not ==/cmp/hash-equal to Timestamp::from_nanosecond({ns})"));
    }
    Ok(())
}

/// A `std::io::Write` sink that accepts at most `chunk` bytes per call (what
/// pipes and sockets are allowed to do): text printed through
/// `jiff::fmt::StdIoWrite` must still arrive complete.
pub struct Trickle {
    pub buf: Vec<u8>,
    pub chunk: usize,
}

impl Trickle {
    pub fn new(chunk: usize) -> Trickle {
        Trickle { buf: vec![], chunk: chunk.max(1) }
    }
    pub fn text(&self) -> String {
        String::from_utf8_lossy(&self.buf).to_string()
    }
}

impl std::io::Write for Trickle {
    fn write(&mut self, b: &[u8]) -> std::io::Result<usize> {
        let n = b.len().min(self.chunk);
        self.buf.extend_from_slice(&b[..n]);
        Ok(n)
    }
    fn flush(&mut self) -> std::io::Result<()> {
        Ok(())
    }
}
