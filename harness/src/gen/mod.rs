//! Shared constructive generators (proptest strategies).

use proptest::prelude::*;

/// Limit-biased integer in [lo, hi].
pub fn biased(lo: i64, hi: i64) -> BoxedStrategy<i64> {
    assert!(lo <= hi);
    let c = move |v: i128| -> i64 { v.clamp(lo as i128, hi as i128) as i64 };
    let specials: Vec<i64> = {
        let mut v = vec![lo, hi, c(lo as i128 + 1), c(hi as i128 - 1), c(0), c(1), c(-1)];
        for k in [7u32, 8, 15, 16, 31, 32, 53, 62, 63] {
            let p = 1i128 << k;
            for d in [-1i128, 0, 1] {
                v.push(c(p + d));
                v.push(c(-p + d));
            }
        }
        for base in [60i128, 1000, 3600, 86400, 1_000_000, 1_000_000_000, 86_400_000_000_000] {
            for d in [-1i128, 0, 1] {
                v.push(c(base + d));
                v.push(c(-base + d));
            }
        }
        v.sort();
        v.dedup();
        v
    };
    prop_oneof![
        3 => proptest::sample::select(specials),
        2 => (lo..=hi),
        2 => (c(-1000)..=c(1000)),
        1 => (c(-100_000_000)..=c(100_000_000)),
    ]
    .boxed()
}

/// (year, month, day) of a valid civil date, biased to range ends, month
/// ends, leap days, years -1/0/1, century years.
pub fn ymd() -> BoxedStrategy<(i16, i8, i8)> {
    let year = prop_oneof![
        2 => prop_oneof![Just(-9999i64), Just(9999), Just(-9998), Just(9998), Just(-1), Just(0), Just(1), Just(1969), Just(1970), Just(1900), Just(2000), Just(2100), Just(1600), Just(4), Just(-4), Just(400), Just(-400)],
        3 => -9999i64..=9999,
        4 => 1800i64..=2200,
    ];
    (year, 1i64..=12, 0u8..=9, 1i64..=31)
        .prop_map(|(y, m, sel, d)| {
            let dim = crate::refmodel::refcal::days_in_month(y, m);
            let d = match sel {
                0 | 1 => dim,
                2 => 1,
                3 => (dim - 1).max(1),
                4 => 28.min(dim),
                _ => ((d - 1) % dim) + 1,
            };
            (y as i16, m as i8, d as i8)
        })
        .boxed()
}

/// Nanosecond of day, biased to boundaries.
pub fn tod_ns() -> BoxedStrategy<i64> {
    const D: i64 = 86_400_000_000_000;
    prop_oneof![
        2 => prop_oneof![Just(0i64), Just(1), Just(D - 1), Just(D - 2), Just(D / 2), Just(D - 1_000_000_000), Just(D - 1_000_000_000 - 1), Just(3_600_000_000_000), Just(3_600_000_000_000 - 1)],
        2 => (0i64..86400).prop_map(|s| s * 1_000_000_000),
        1 => (0i64..86400, prop_oneof![Just(1i64), Just(999_999_999), Just(500_000_000), Just(499_999_999), Just(500_000_001)]).prop_map(|(s, n)| s * 1_000_000_000 + n),
        3 => 0i64..D,
    ]
    .boxed()
}

pub fn mk_date(y: i16, m: i8, d: i8) -> jiff::civil::Date {
    jiff::civil::Date::new(y, m, d).expect("generator produced invalid date")
}

pub fn mk_time(ns: i64) -> jiff::civil::Time {
    let h = ns / 3_600_000_000_000;
    let mi = ns / 60_000_000_000 % 60;
    let s = ns / 1_000_000_000 % 60;
    let n = ns % 1_000_000_000;
    jiff::civil::Time::new(h as i8, mi as i8, s as i8, n as i32).expect("time")
}

/// Timestamp as i128 nanoseconds, biased.
pub fn ts_ns() -> BoxedStrategy<i128> {
    use crate::refmodel::wide::*;
    let sec = biased(-377705023201, 253402207200);
    let sub = prop_oneof![Just(0i64), Just(1), Just(999_999_999), Just(500_000_000), 0i64..1_000_000_000];
    prop_oneof![
        4 => (sec, sub).prop_map(|(s, n)| (s as i128 * NS_PER_SEC + n as i128).clamp(TS_MIN_NS, TS_MAX_NS)),
        2 => (-4371587i64..=2932896, -2i64..=2).prop_map(|(d, e)| (d as i128 * NS_PER_DAY + e as i128).clamp(TS_MIN_NS, TS_MAX_NS)),
        1 => (-100i64..=100, -3i64..=3).prop_map(|(s, e)| s as i128 * NS_PER_SEC + e as i128),
        3 => (-377705023201i64..=253402207200, 0i64..1_000_000_000).prop_map(|(s, n)| (s as i128 * NS_PER_SEC + n as i128).clamp(TS_MIN_NS, TS_MAX_NS)),
    ]
    .boxed()
}

/// Offset seconds, biased.
pub fn offset_secs() -> BoxedStrategy<i32> {
    prop_oneof![
        2 => prop_oneof![Just(0i32), Just(93599), Just(-93599), Just(1), Just(-1), Just(59), Just(-59), Just(60), Just(3600), Just(-3600), Just(19800), Just(20700), Just(-34200), Just(93598), Just(-93598)],
        2 => (-25i32..=25).prop_map(|h| h * 3600),
        1 => (-1559i32..=1559).prop_map(|m| m * 60),
        3 => -93599i32..=93599,
    ]
    .boxed()
}

pub fn mk_ts(ns: i128) -> jiff::Timestamp {
    jiff::Timestamp::from_nanosecond(ns).expect("generator produced invalid timestamp")
}
