//! C14 Transition iterators yield exactly the instants where zone offset info changes.

use std::collections::BTreeSet;
use std::sync::Arc;

use jiff::tz::Dst;
use jiff::Timestamp;
use proptest::prelude::*;
use serde::{Deserialize, Serialize};
use serde_json::{json, Value};

use crate::engine::*;
use crate::refmodel::reftz::{TS_MAX, TS_MIN};
use crate::refmodel::wide::*;
use crate::zones::{self, Zone};
use crate::{ensure, fail};

#[derive(Serialize, Deserialize, Debug, Clone)]
pub struct IterCase {
    pub zone: String,
    pub start_ns: String,
    pub forward: bool,
    /// maximum number of items to pull (0 = to exhaustion)
    pub limit: u32,
}

fn check_iter_inner(z: &Zone, start: i128, forward: bool, limit: u32) -> CaseResult {
    let ts = Timestamp::from_nanosecond(start).unwrap();
    let dir = if forward { "following" } else { "preceding" };
    // reference transitions strictly after / before the start
    let (lo, hi) = if forward {
        (start.div_euclid(NS_PER_SEC) as i64 + 1, TS_MAX)
    } else {
        let c = -((-start).div_euclid(NS_PER_SEC)) as i64; // ceil
        (TS_MIN, c - 1)
    };
    // Pull items with a step cap.
    let total_ref = if limit == 0 { z.rz.transitions_between(lo, hi).len() } else { 0 };
    let cap = if limit == 0 { total_ref + 8 } else { limit as usize };
    let mut items: Vec<(i64, i32, bool, String, i32)> = vec![];
    let mut exhausted = false;
    let mut resumed = false;
    {
        let mut pull = |it: &mut dyn Iterator<Item = jiff::tz::TimeZoneTransition<'_>>| {
            loop {
                if items.len() >= cap {
                    break;
                }
                match it.next() {
                    None => {
                        exhausted = true;
                        // a finished iterator stays finished (FusedIterator)
                        resumed = it.next().is_some() || it.next().is_some();
                        break;
                    }
                    Some(t) => items.push((
                        t.timestamp().as_second(),
                        t.offset().seconds(),
                        t.dst() == Dst::Yes,
                        t.abbreviation().to_string(),
                        t.timestamp().subsec_nanosecond(),
                    )),
                }
            }
        };
        if forward {
            pull(&mut z.tz.following(ts));
        } else {
            pull(&mut z.tz.preceding(ts));
        }
    }
    ensure!(!resumed, format!("{dir}-resumes-after-end"), "{} {dir}({ts}): the iterator returned None and then yielded another transition", z.label);
    if limit == 0 && !exhausted {
        fail!(format!("{dir}-does-not-terminate"), "{} {dir}({ts}): more than {cap} items (reference has {total_ref}); last items {:?}", z.label, &items[items.len().saturating_sub(3)..]);
    }
    // order, strictness, whole seconds
    let mut prev: Option<i64> = None;
    for it in &items {
        ensure!(it.4 == 0, format!("{dir}-fractional"), "{} {dir}({ts}): item with fractional second {:?}", z.label, it);
        let t_ns = it.0 as i128 * NS_PER_SEC;
        if forward {
            ensure!(t_ns > start, format!("{dir}-not-after-start"), "{} following({ts}) yielded {} which is not after the start", z.label, it.0);
            if let Some(p) = prev {
                ensure!(it.0 > p, format!("{dir}-not-increasing"), "{} following({ts}): {} then {}", z.label, p, it.0);
            }
        } else {
            ensure!(t_ns < start, format!("{dir}-not-before-start"), "{} preceding({ts}) yielded {} which is not before the start", z.label, it.0);
            if let Some(p) = prev {
                ensure!(it.0 < p, format!("{dir}-not-decreasing"), "{} preceding({ts}): {} then {}", z.label, p, it.0);
            }
        }
        prev = Some(it.0);
    }
    // each item reports the info in force from that instant on
    for it in &items {
        let want = z.rz.lookup(it.0);
        ensure!(
            (it.1, it.2, it.3.as_str()) == (want.off, want.dst, want.abbr.as_str()),
            format!("{dir}-item-info"),
            "{} {dir}({ts}): item at {} reports ({}, {}, {:?}) but the data says {:?}",
            z.label,
            it.0,
            it.1,
            it.2,
            it.3,
            want
        );
        let at = Timestamp::from_second(it.0).unwrap();
        let own = z.tz.to_offset_info(at);
        ensure!(
            own.offset().seconds() == it.1 && (own.dst() == Dst::Yes) == it.2 && own.abbreviation() == it.3,
            format!("{dir}-item-vs-lookup"),
            "{} {dir}({ts}): item at {} reports ({}, {}, {:?}) but direct lookup there says ({}, {:?}, {:?})",
            z.label,
            it.0,
            it.1,
            it.2,
            it.3,
            own.offset(),
            own.dst(),
            own.abbreviation()
        );
    }
    // completeness and no spurious items, over the covered range
    let (clo, chi) = if exhausted {
        (lo, hi)
    } else if let Some(last) = items.last() {
        if forward {
            (lo, last.0)
        } else {
            (last.0, hi)
        }
    } else {
        (1, 0)
    };
    if clo <= chi {
        let yielded: BTreeSet<i64> = items.iter().map(|i| i.0).collect();
        let recorded: BTreeSet<i64> = z.rz.transitions_between(clo, chi).into_iter().map(|t| t.0).collect();
        for (t, before, after) in z.rz.real_changes_between(clo, chi) {
            ensure!(
                yielded.contains(&t),
                format!("{dir}-omits-transition"),
                "{} {dir}({ts}): omits the transition at {t} ({:?} -> {:?}); yielded {} items in [{clo}, {chi}]",
                z.label,
                before,
                after,
                items.len()
            );
        }
        for t in &yielded {
            if !recorded.contains(t) {
                // not even a recorded transition: must at least be a real change
                let b = z.rz.lookup(t - 1);
                let a = z.rz.lookup(*t);
                ensure!(b != a, format!("{dir}-spurious"), "{} {dir}({ts}): yielded {t} where nothing is recorded and nothing changes ({:?})", z.label, a);
            }
        }
    }
    Ok(())
}

pub fn check_iter(z: &Zone, start: i128, forward: bool, limit: u32) -> CaseResult {
    check_iter_inner(z, start, forward, limit).map_err(|mut f| {
        // zones whose footer spills over the year (see C03 finding): one listed finding
        if let Some(p) = &z.rz.footer {
            if !p.is_tame(86400) {
                let text = z.rz.footer_text.clone().unwrap_or_else(|| z.label.clone());
                f.msg = format!("[clause {}] {}", f.sig, f.msg);
                f.sig = format!("year-spill:{}", text.replace(' ', "_"));
            }
        }
        f
    })
}

fn replay(v: Value) -> CaseResult {
    let c: IterCase = serde_json::from_value(v).map_err(|e| Failure::new("decode", e.to_string()))?;
    let z = zones::by_label(&c.zone).ok_or_else(|| Failure::new("decode", format!("unknown zone {}", c.zone)))?;
    check_iter(&z, c.start_ns.parse().map_err(|_| Failure::new("decode", "start"))?, c.forward, c.limit)
}

fn sweep_zones(rec: &Recorder, check: &'static str, zs: &[Arc<Zone>], full_runs: bool) {
    par_chunks(rec.opts.threads, zs.len() as u64, |r| {
        let mut evals = 0u64;
        let (mut nofooter, mut handover, mut full) = (0u64, 0u64, 0u64);
        for i in r {
            let z = &zs[i as usize];
            let mut sm = SplitMix::from(rec.opts.seed, &z.label, 14);
            let mut starts: Vec<(i128, u32)> = vec![];
            // every probe transition: on it, +-1ns, +-1s; window of 6 items
            let n = z.probes.len();
            let stride = if rec.tier() == Tier::Thorough { 1 } else { (n / 40).max(1) };
            for (k, &t) in z.probes.iter().enumerate() {
                let last_explicit = z.rz.trans.last().map(|x| x.0);
                let first_explicit = z.rz.trans.first().map(|x| x.0);
                let important = Some(t) == last_explicit || Some(t) == first_explicit || k + 3 >= n || k < 3 || last_explicit.map_or(false, |l| (t - l).abs() < 3 * 366 * 86400);
                if !important && k % stride != 0 {
                    continue;
                }
                for d in [0i128, -1, 1, -NS_PER_SEC, NS_PER_SEC, -NS_PER_SEC / 2] {
                    starts.push((t as i128 * NS_PER_SEC + d, 6));
                }
                if important {
                    handover += 6;
                }
            }
            starts.push((TS_MIN_NS, 12));
            starts.push((TS_MAX_NS, 12));
            starts.push((0, 12));
            starts.push((-1, 12));
            for _ in 0..6 {
                starts.push((sm.range(TS_MIN, TS_MAX) as i128 * NS_PER_SEC + sm.range(0, 999_999_999) as i128, 8));
            }
            if full_runs {
                // to exhaustion from both ends and from the last explicit transition
                starts.push((TS_MIN_NS, 0));
                starts.push((TS_MAX_NS, 0));
                if let Some(l) = z.rz.trans.last() {
                    starts.push((l.0 as i128 * NS_PER_SEC - 1, 0));
                }
            }
            for (s, limit) in starts {
                if s < TS_MIN_NS || s > TS_MAX_NS {
                    continue;
                }
                for forward in [true, false] {
                    evals += 1;
                    if limit == 0 {
                        full += 1;
                    }
                    if !z.has_footer && z.is_tzif() {
                        nofooter += 1;
                    }
                    let case = IterCase { zone: z.label.clone(), start_ns: s.to_string(), forward, limit };
                    sweep_case(rec, check, &case, || check_iter(z, s, forward, limit));
                }
            }
        }
        rec.add_evaluations(evals);
        rec.add_distinct_nontrivial(evals);
        rec.add_class(&format!("{check}:iterations"), evals);
        rec.add_class(&format!("{check}:footerless-zone"), nofooter);
        rec.add_class(&format!("{check}:around-handover-or-ends"), handover);
        rec.add_class(&format!("{check}:to-exhaustion"), full);
    });
}

fn run_installed(rec: &Recorder, check: &'static str) {
    sweep_zones(rec, check, &zones::installed().zones, rec.tier() == Tier::Thorough);
    rec.add_sample(json!({"check": check, "case": {"zone": "file:America/Sao_Paulo", "start": "last recorded transition - 1ns", "forward": true, "limit": 6}}));
}
fn run_bundled(rec: &Recorder, check: &'static str) {
    sweep_zones(rec, check, &zones::bundled().zones, rec.tier() == Tier::Thorough);
}
fn run_synthetic(rec: &Recorder, check: &'static str) {
    let mut zs: Vec<Arc<Zone>> = zones::synthetic().zones.clone();
    zs.extend(zones::posix_zones().iter().cloned());
    // rules with a transition exactly on the last (first) representable whole second
    // (9999-12-30T22:00:00Z, -9999-01-02T01:59:59Z): the range checks at both ends
    for s in ["AAA0BBB,J100,J364/23", "EST5EDT,M3.2.0,J364/18", "AAA-3BBB,J100,J365/2", "AAA0BBB,J364/22,J100", "AAA0BBB,J2/1:59:59,J300", "AAA0BBB,J300,J2/2:59:59", "AAA0BBB,J2/2,J300"] {
        if let Some(z) = zones::by_label(&format!("posix:{s}")) {
            zs.push(z);
        }
    }
    for &o in &[0, 3600, -93599] {
        zs.push(zones::by_label(&format!("fixed:{o}")).unwrap());
    }
    zs.push(zones::by_label("utc").unwrap());
    // a sample of real zones iterated to exhaustion in quick as well
    zs.extend(zones::featured());
    sweep_zones(rec, check, &zs, true);
}

// --- generated ------------------------------------------------------------------------

#[derive(Serialize, Deserialize, Debug, Clone)]
struct GenIter {
    probe: crate::props::c03::ZoneProbe,
    forward: bool,
    limit: u32,
}

fn universe_all() -> &'static Vec<Arc<Zone>> {
    static U: std::sync::OnceLock<Vec<Arc<Zone>>> = std::sync::OnceLock::new();
    U.get_or_init(|| zones::universe(true))
}

fn strat_gen() -> BoxedStrategy<GenIter> {
    (crate::props::c03::strat_zone_probe(), any::<bool>(), 1u32..24).prop_map(|(probe, forward, limit)| GenIter { probe, forward, limit }).boxed()
}

fn test_gen(c: &GenIter, cx: &mut Cx) -> CaseResult {
    let (z, ns) = crate::props::c03::resolve_probe(universe_all(), &c.probe);
    let fl = ns.div_euclid(NS_PER_SEC) as i64;
    let near = !z.rz.transitions_between(fl - 1, fl + 2).is_empty();
    let last = z.rz.trans.last().map(|t| t.0);
    let crosses = last.map_or(false, |l| (fl - l).abs() < 20 * 366 * 86400);
    cx.nt_if(near || crosses || !z.has_footer);
    cx.class_if(near, "start-within-1s-of-transition");
    cx.class_if(crosses, "near-explicit-rule-handover");
    cx.class_if(!z.has_footer && z.is_tzif(), "footerless");
    check_iter(&z, ns, c.forward, c.limit).map_err(|mut f| {
        f.msg = format!("[zone={} start_ns={ns} forward={} limit={}] {}", z.label, c.forward, c.limit, f.msg);
        f
    })
}

// --- rules whose transitions are clamped to the ends of their year: self-consistency --------------

/// For rules that spill over a year boundary jiff documents that the transition is clamped into
/// its calendar year; the reference reader does not model that, so only the clauses that need no
/// reference are judged here: order, strictness, agreement of every yielded item with direct
/// lookup at exactly that instant, and agreement of the two directions with each other.
const CLAMPED_RULES: &[&str] = &[
    "XXX3YYY,J60/0,J365/23",
    "WST11WDT,J91/2,J365/20:30",
    "HST10HDT,M4.1.0,M12.5.0/22",
    "AAA-10BBB,J1/0,J100",
    "AAA0BBB,J100,J365/24",
    "EST5EDT,M1.1.0/-30,M11.1.0",
    "<+12>-12<+13>,J300,J1/1",
    "CCC-13DDD,J1/3,J200",
    "EEE12FFF,J90,J365/14",
];

#[derive(Serialize, Deserialize, Debug, Clone)]
struct ClampCase {
    rule: u8,
    year: i16,
    /// offset from the start of `year` in nanoseconds
    delta_ns: i64,
    k: u8,
}

fn clamped_zones() -> &'static Vec<(String, jiff::tz::TimeZone)> {
    static U: std::sync::OnceLock<Vec<(String, jiff::tz::TimeZone)>> = std::sync::OnceLock::new();
    U.get_or_init(|| CLAMPED_RULES.iter().filter_map(|s| jiff::tz::TimeZone::posix(s).ok().map(|tz| (s.to_string(), tz))).collect())
}

fn test_clamped(c: &ClampCase, cx: &mut Cx) -> CaseResult {
    let zs = clamped_zones();
    let (name, tz) = &zs[c.rule as usize % zs.len()];
    let start = (crate::refmodel::refcal::jan1(c.year as i64) as i128 * NS_PER_DAY + c.delta_ns as i128).clamp(TS_MIN as i128 * NS_PER_SEC, TS_MAX as i128 * NS_PER_SEC);
    let ts = Timestamp::from_nanosecond(start).unwrap();
    let k = 1 + (c.k % 6) as usize;
    type Item = (i128, i32, bool, String);
    let item = |t: jiff::tz::TimeZoneTransition<'_>| -> Item { (t.timestamp().as_nanosecond(), t.offset().seconds(), t.dst() == Dst::Yes, t.abbreviation().to_string()) };
    let fwd: Vec<Item> = tz.following(ts).take(k).map(item).collect();
    let bwd: Vec<Item> = tz.preceding(ts).take(k).map(item).collect();
    cx.nt_if(c.delta_ns.abs() < 3 * 86_400_000_000_000);
    for (dir, items) in [("following", &fwd), ("preceding", &bwd)] {
        let mut prev: Option<i128> = None;
        for it in items.iter() {
            let fractional = it.0.rem_euclid(NS_PER_SEC) != 0;
            cx.class_if(fractional, "clamped-transition-yielded");
            if dir == "following" {
                ensure!(it.0 > start && prev.map_or(true, |p| it.0 > p), format!("{dir}-not-increasing"), "posix:{name} following({ts}): {prev:?} then {} (start {start})", it.0);
            } else {
                ensure!(it.0 < start && prev.map_or(true, |p| it.0 < p), format!("{dir}-not-decreasing"), "posix:{name} preceding({ts}): {prev:?} then {} (start {start})", it.0);
            }
            prev = Some(it.0);
            let at = Timestamp::from_nanosecond(it.0).unwrap();
            let own = tz.to_offset_info(at);
            ensure!(
                own.offset().seconds() == it.1 && (own.dst() == Dst::Yes) == it.2 && own.abbreviation() == it.3,
                format!("{dir}-item-vs-lookup"),
                "posix:{name} {dir}({ts}): item at {at} reports ({}, {}, {:?}) but direct lookup there says ({}, {:?}, {:?})",
                it.1, it.2, it.3, own.offset(), own.dst(), own.abbreviation()
            );
        }
    }
    // the two directions visit the same instants
    if let Some(last) = fwd.last() {
        if last.0 < TS_MAX as i128 * NS_PER_SEC {
            let from = Timestamp::from_nanosecond(last.0 + 1).unwrap();
            let mut back: Vec<Item> = tz.preceding(from).take(fwd.len()).map(item).collect();
            back.reverse();
            ensure!(back == fwd, "directions-disagree", "posix:{name}: following({ts}) = {fwd:?} but preceding({from}) walks back over {back:?}");
        }
    }
    if let Some(last) = bwd.last() {
        if last.0 > TS_MIN as i128 * NS_PER_SEC {
            let from = Timestamp::from_nanosecond(last.0 - 1).unwrap();
            let mut forth: Vec<Item> = tz.following(from).take(bwd.len()).map(item).collect();
            forth.reverse();
            ensure!(forth == bwd, "directions-disagree", "posix:{name}: preceding({ts}) = {bwd:?} but following({from}) walks forward over {forth:?}");
        }
    }
    Ok(())
}

fn strat_clamped() -> BoxedStrategy<ClampCase> {
    let year = prop_oneof![3 => 1900i16..=2100, 2 => -9998i16..=9998, 1 => prop_oneof![Just(-9999i16), Just(9999), Just(1970), Just(1969), Just(0), Just(1)]];
    let delta = prop_oneof![
        3 => prop_oneof![Just(0i64), Just(-1), Just(1), Just(-1_000_000_000), Just(-999_999_999), Just(-2), Just(1_000_000_000)],
        3 => -3 * 86_400_000_000_000i64..=3 * 86_400_000_000_000,
        2 => -366 * 86_400_000_000_000i64..=366 * 86_400_000_000_000,
    ];
    (any::<u8>(), year, delta, any::<u8>()).prop_map(|(rule, year, delta_ns, k)| ClampCase { rule, year, delta_ns, k }).boxed()
}

pub fn property() -> Property {
    Property {
        id: "C14",
        level: "exploration",
        rule: "For every zone (installed, bundled, synthetic slim/fat, POSIX strings, fixed, UTC), following() and preceding() are run from starts on / +-1ns / +-1s / -0.5s around a stride of the transitions (always the first/last recorded ones and those around the explicit->rule hand-over), from the range limits, the epoch and random instants, pulling a bounded number of items; featured and synthetic zones (all zones in thorough) are additionally iterated to exhaustion under a step cap (reference count + 8; exceeding it is a non-termination violation). Oracle: reference transition list (explicit + rule-generated, with 'info really changes' flag): strict monotonicity, strictly after/before the start, item info = data at that instant = direct lookup, completeness over the covered range, no spurious items. Every (zone, start, direction) is a distinct case.",
        assumptions: &[
            "reftz.rs transition list",
            "recorded transitions that change nothing may be yielded (the statement allows it); they are not flagged",
        ],
        checks: vec![
            Box::new(Sweep { name: "c14.installed", run: run_installed, replay }),
            Box::new(Sweep { name: "c14.bundled", run: run_bundled, replay }),
            Box::new(Sweep { name: "c14.synthetic", run: run_synthetic, replay }),
            Box::new(Prop { name: "c14.generated", quick: 800_000, thorough: 10_000_000, strategy: strat_gen, test: test_gen }),
            Box::new(Prop { name: "c14.clamped_rules", quick: 400_000, thorough: 10_000_000, strategy: strat_clamped, test: test_clamped }),
        ],
        floors: |rec| {
            rec.floor("c14.clamped_rules:clamped-transition-yielded", "c14.clamped_rules:cases", 0.05);
            rec.floor("c14.generated:start-within-1s-of-transition", "c14.generated:cases", 0.30);
        },
    }
}
