//! C16 strftime/strptime and RFC 2822 agree with the calendar and invert each other.

use std::ffi::CString;
use std::sync::Arc;

use jiff::civil::DateTime;
use jiff::fmt::{rfc2822, strtime};
use jiff::{Timestamp, Zoned};
use proptest::prelude::*;
use serde::{Deserialize, Serialize};

use crate::engine::*;
use crate::gen;
use crate::refmodel::refcal as rc;
use crate::refmodel::refzoned as rz;
use crate::refmodel::wide::*;
use crate::zones::{self, Zone};
use crate::{ensure, fail};

fn zone_list() -> &'static Vec<Arc<Zone>> {
    static U: std::sync::OnceLock<Vec<Arc<Zone>>> = std::sync::OnceLock::new();
    U.get_or_init(|| {
        let mut v = vec![];
        for l in ["file:America/New_York", "file:Europe/London", "file:Asia/Kolkata", "file:Asia/Kathmandu", "file:Africa/Monrovia", "file:Australia/Lord_Howe", "file:Pacific/Apia", "file:America/St_Johns", "file:Europe/Amsterdam", "file:Etc/GMT+5", "file:Etc/GMT-14", "file:Etc/GMT+12", "file:America/Port-au-Prince", "file:America/Argentina/ComodRivadavia", "file:America/North_Dakota/New_Salem", "file:EST5EDT", "file:GMT+0", "file:GMT-0", "file:Etc/GMT0", "file:W-SU", "file:NZ-CHAT", "file:Pacific/Guam", "posix:<aAA>3<bBb>,M3.2.0,M11.1.0", "utc", "fixed:0", "fixed:3600", "fixed:-34200", "fixed:20700", "fixed:93599", "fixed:-93599", "fixed:45296", "fixed:-2821", "posix:EST5EDT,M3.2.0,M11.1.0"] {
            if let Some(z) = zones::by_label(l) {
                v.push(z);
            }
        }
        v
    })
}

#[derive(Serialize, Deserialize, Debug, Clone)]
struct Val {
    zone_sel: u16,
    ymd: (i16, i8, i8),
    tod: i64,
}

fn strat_val() -> BoxedStrategy<Val> {
    // dates biased to year boundaries (week-number cases)
    let near_year_edge = (-9998i16..=9998, 0u8..16).prop_map(|(y, k)| if k < 8 { (y, 1i8, 1 + k as i8) } else { (y, 12i8, 16 + k as i8) });
    let ymd = prop_oneof![3 => near_year_edge, 3 => gen::ymd(), 2 => (1969i16..=2068, 1i8..=12, 1i8..=28), 1 => (0i16..=999, 1i8..=12, 1i8..=28)];
    (any::<u16>(), ymd, gen::tod_ns()).prop_map(|(zone_sel, ymd, tod)| Val { zone_sel, ymd, tod }).boxed()
}

struct Facts {
    z: Arc<Zone>,
    zdt: Zoned,
    y: i64,
    m: i64,
    d: i64,
    h: i64,
    mi: i64,
    s: i64,
    ns: i64,
    wd_mon0: i64,
    yday: i64,
    off: i32,
    inst_ns: i128,
}

/// Build the zoned value (compatible resolution through the reference) and
/// its calendar facts from the reference calendar.
fn facts(v: &Val) -> Option<Facts> {
    let zs = zone_list();
    let z = zs[zones::pick(v.zone_sel, zs.len())].clone();
    let civil = rc::to_days(v.ymd.0 as i64, v.ymd.1 as i64, v.ymd.2 as i64) as i128 * NS_PER_DAY + v.tod as i128;
    let inst = rz::compatible(&z.rz, civil).ok()?;
    if !rz::in_ts_range(inst) {
        return None;
    }
    let zdt = crate::props::c06::mk_zoned(&z, inst);
    let (loc, off) = rz::local_of(&z.rz, inst);
    let (y, m, d, tod) = rz::civil_parts(loc);
    let dn = rc::to_days(y, m, d);
    Some(Facts {
        z,
        zdt,
        y,
        m,
        d,
        h: (tod / (3600 * NS_PER_SEC)) as i64,
        mi: (tod / (60 * NS_PER_SEC) % 60) as i64,
        s: (tod / NS_PER_SEC % 60) as i64,
        ns: (tod % NS_PER_SEC) as i64,
        wd_mon0: rc::weekday_mon0(dn),
        yday: rc::day_of_year(y, m, d),
        off,
        inst_ns: inst,
    })
}

const WEEKDAYS: [&str; 7] = ["Monday", "Tuesday", "Wednesday", "Thursday", "Friday", "Saturday", "Sunday"];
const MONTHS: [&str; 12] = ["January", "February", "March", "April", "May", "June", "July", "August", "September", "October", "November", "December"];

/// (value, default pad char (None = no padding), default width)
fn numeric_fact(spec: char, f: &Facts) -> Option<(i64, Option<char>, usize)> {
    let wd_sun0 = (f.wd_mon0 + 1) % 7;
    let (iy, iw, _) = rc::iso_week(rc::to_days(f.y, f.m, f.d));
    let h12 = if f.h % 12 == 0 { 12 } else { f.h % 12 };
    Some(match spec {
        'Y' => (f.y, Some('0'), 4),
        'C' => (f.y / 100, None, 0),
        'y' => (f.y % 100, Some('0'), 2),
        'm' => (f.m, Some('0'), 2),
        'd' => (f.d, Some('0'), 2),
        'e' => (f.d, Some(' '), 2),
        'H' => (f.h, Some('0'), 2),
        'k' => (f.h, Some(' '), 2),
        'I' => (h12, Some('0'), 2),
        'l' => (h12, Some(' '), 2),
        'M' => (f.mi, Some('0'), 2),
        'S' => (f.s, Some('0'), 2),
        'j' => (f.yday, Some('0'), 3),
        // week of year: week 1 starts with the first Sunday / Monday
        'U' => ((f.yday - 1 + 7 - wd_sun0) / 7, Some('0'), 2),
        'W' => ((f.yday - 1 + 7 - f.wd_mon0) / 7, Some('0'), 2),
        'V' => (iw, Some('0'), 2),
        'G' => (iy, Some('0'), 4),
        'g' => (iy % 100, Some('0'), 2),
        'u' => (f.wd_mon0 + 1, None, 0),
        'w' => (wd_sun0, None, 0),
        's' => (f.inst_ns.div_euclid(NS_PER_SEC) as i64, None, 0),
        _ => return None,
    })
}

fn render(v: i64, flag: Option<char>, width: Option<u8>, default_pad: Option<char>, default_width: usize) -> String {
    let digits = v.to_string();
    let (pad, w) = match flag {
        Some('-') => (None, 0usize),
        Some('_') => (Some(' '), width.map(|w| w as usize).unwrap_or(default_width)),
        Some('0') => (Some('0'), width.map(|w| w as usize).unwrap_or(default_width)),
        _ => match width {
            Some(w) => (Some(default_pad.unwrap_or(' ')), w as usize),
            None => (default_pad, default_width),
        },
    };
    match pad {
        Some(p) if digits.len() < w => format!("{}{}", p.to_string().repeat(w - digits.len()), digits),
        _ => digits,
    }
}

fn glibc_strftime(fmt: &str, f: &Facts) -> Option<String> {
    let mut tm: libc::tm = unsafe { std::mem::zeroed() };
    tm.tm_year = (f.y - 1900) as i32;
    tm.tm_mon = (f.m - 1) as i32;
    tm.tm_mday = f.d as i32;
    tm.tm_hour = f.h as i32;
    tm.tm_min = f.mi as i32;
    tm.tm_sec = f.s as i32;
    tm.tm_wday = ((f.wd_mon0 + 1) % 7) as i32;
    tm.tm_yday = (f.yday - 1) as i32;
    tm.tm_isdst = 0;
    tm.tm_gmtoff = f.off as libc::c_long;
    let cfmt = CString::new(fmt).ok()?;
    let mut buf = vec![0u8; 128];
    let n = unsafe { libc::strftime(buf.as_mut_ptr() as *mut libc::c_char, buf.len(), cfmt.as_ptr(), &tm) };
    if n == 0 {
        return None;
    }
    Some(String::from_utf8_lossy(&buf[..n]).to_string())
}

#[derive(Serialize, Deserialize, Debug, Clone)]
struct SpecCase {
    val: Val,
    spec: char,
    flag: Option<char>,
    width: Option<u8>,
}

fn test_specifier(c: &SpecCase, cx: &mut Cx) -> CaseResult {
    let Some(f) = facts(&c.val) else {
        cx.tolerate("value-not-constructible");
        return Ok(());
    };
    let mut fmt = String::from("%");
    if let Some(fl) = c.flag {
        fmt.push(fl);
    }
    if let Some(w) = c.width {
        fmt.push_str(&w.to_string());
    }
    fmt.push(c.spec);
    let got = strtime::format(&fmt, &f.zdt);
    let ctx = format!("[{}] strftime({fmt:?}, {})", f.z.label, f.zdt);
    let near_edge = f.yday <= 7 || f.yday >= 359;
    cx.nt_if(near_edge || c.flag.is_some() || c.width.is_some() || f.y < 1000 || f.off % 60 != 0);
    cx.class_if(near_edge, "within-7-days-of-year-boundary");
    cx.class_if(c.flag.is_some() || c.width.is_some(), "flag-or-width");
    if let Some((v, dpad, dwidth)) = numeric_fact(c.spec, &f) {
        // documented: %y %g only represent 1969..=2068
        let (iy, _, _) = rc::iso_week(rc::to_days(f.y, f.m, f.d));
        if (c.spec == 'y' && !(1969..=2068).contains(&f.y)) || (c.spec == 'g' && !(1969..=2068).contains(&iy)) {
            ensure!(got.is_err(), "two-digit-year-out-of-range-accepted", "{ctx} = {got:?} but the year is outside 1969..=2068");
            cx.class("documented-error");
            return Ok(());
        }
        let got = got.map_err(|e| Failure::new("strftime-err", format!("{ctx} = Err({e})")))?;
        // the calendar fact, numerically
        let parsed: Option<i64> = {
            let t = got.trim();
            let (neg, t) = match t.strip_prefix('-') {
                Some(r) => (true, r.trim()),
                None => (false, t),
            };
            t.parse::<i64>().ok().map(|x| if neg { -x } else { x })
        };
        if c.spec == 'C' && f.y < 0 {
            // jiff truncates, C libraries floor: implementation-defined, not judged
            cx.tolerate("century-of-negative-year");
            return Ok(());
        }
        ensure!(parsed == Some(v), "specifier-value", "{ctx} = {got:?} but the calendar fact is {v}");
        // requested padding (non-negative values)
        if v >= 0 {
            let want = render(v, c.flag, c.width, dpad, dwidth);
            // listed finding: padding widths above 19 are silently capped
            let tag = if c.width.map_or(false, |w| w > 19) { ":width>19" } else { "" };
            ensure!(got == want, format!("specifier-padding{tag}"), "{ctx} = {got:?} want {want:?} (flag {:?}, width {:?})", c.flag, c.width);
        }
        // glibc differential (numeric), for the conversion facts C defines
        if c.flag.is_none() && c.width.is_none() && "jUWVGguwCyIHMSmde".contains(c.spec) && !(c.spec == 'C' && f.y < 0) {
            if let Some(g) = glibc_strftime(&format!("%{}", c.spec), &f) {
                let gv = g.trim().parse::<i64>().ok();
                let jv = if c.spec == 'y' || c.spec == 'g' { Some(v.rem_euclid(100)) } else { Some(v) };
                ensure!(gv == jv, "glibc-differential", "{ctx}: jiff says {v}, glibc strftime says {g:?}");
                cx.class("glibc-compared");
            }
        }
        return Ok(());
    }
    let got = got.map_err(|e| Failure::new("strftime-err", format!("{ctx} = Err({e})")))?;
    let case = |s: &str| -> String {
        match c.flag {
            Some('^') => s.to_uppercase(),
            Some('#') => s.chars().map(|ch| if ch.is_uppercase() { ch.to_ascii_lowercase() } else { ch.to_ascii_uppercase() }).collect(),
            _ => s.to_string(),
        }
    };
    let want: Option<String> = match c.spec {
        'A' => Some(case(WEEKDAYS[f.wd_mon0 as usize])),
        'a' => Some(case(&WEEKDAYS[f.wd_mon0 as usize][..3])),
        'B' => Some(case(MONTHS[(f.m - 1) as usize])),
        'b' | 'h' => Some(case(&MONTHS[(f.m - 1) as usize][..3])),
        'p' => Some(case(if f.h < 12 { "AM" } else { "PM" })),
        'P' => Some(if c.flag == Some('^') { if f.h < 12 { "AM" } else { "PM" }.to_string() } else { if f.h < 12 { "am" } else { "pm" }.to_string() }),
        'z' => {
            let a = f.off.abs();
            let sgn = if f.off < 0 { '-' } else { '+' };
            Some(if a % 60 != 0 { format!("{sgn}{:02}{:02}{:02}", a / 3600, a / 60 % 60, a % 60) } else { format!("{sgn}{:02}{:02}", a / 3600, a / 60 % 60) })
        }
        'F' => Some(format!("{}-{:02}-{:02}", if f.y < 0 { format!("-{:04}", -f.y) } else { format!("{:04}", f.y) }, f.m, f.d)),
        'T' => Some(format!("{:02}:{:02}:{:02}", f.h, f.mi, f.s)),
        'R' => Some(format!("{:02}:{:02}", f.h, f.mi)),
        'Z' => {
            if f.z.label.starts_with("fixed:") || f.z.label == "utc" {
                None
            } else {
                // as the zone data spells it ("ChST"); `^` upper-cases, `#` gives lower case (glibc too)
                let abbr = f.z.rz.lookup(f.inst_ns.div_euclid(NS_PER_SEC) as i64).abbr;
                Some(match c.flag {
                    Some('^') => abbr.to_uppercase(),
                    Some('#') => abbr.to_lowercase(),
                    _ => abbr,
                })
            }
        }
        _ => None,
    };
    if let Some(w) = want {
        if c.flag == Some('#') && "AaBbhP".contains(c.spec) {
            // '#' ("swap the case") is only documented as useful for %p and
            // %Z, whose results are entirely uppercase; for mixed-case names
            // the docs do not settle the result (glibc uppercases them):
            // unchanged, uppercased or swapped are all accepted.
            let plain = match c.spec {
                'A' => WEEKDAYS[f.wd_mon0 as usize].to_string(),
                'a' => WEEKDAYS[f.wd_mon0 as usize][..3].to_string(),
                'B' => MONTHS[(f.m - 1) as usize].to_string(),
                'P' => if f.h < 12 { "am" } else { "pm" }.to_string(),
                _ => MONTHS[(f.m - 1) as usize][..3].to_string(),
            };
            ensure!(got == plain || got == plain.to_uppercase() || got == w, "specifier-text", "{ctx} = {got:?}");
            cx.tolerate("case-swap-on-mixed-case-name");
            return Ok(());
        }
        ensure!(got == w, "specifier-text", "{ctx} = {got:?} want {w:?}");
        if c.flag.is_none() && "AaBbhp".contains(c.spec) {
            if let Some(g) = glibc_strftime(&format!("%{}", c.spec), &f) {
                ensure!(g == got, "glibc-differential-text", "{ctx}: jiff {got:?}, glibc {g:?}");
            }
        }
    }
    Ok(())
}

fn strat_spec() -> BoxedStrategy<SpecCase> {
    let spec = proptest::sample::select("YCymdeHkIlMSjUWVGguwsAaBbhpPzFTRZ".chars().collect::<Vec<_>>());
    let flag = prop_oneof![4 => Just(None), 1 => Just(Some('_')), 1 => Just(Some('-')), 1 => Just(Some('0')), 1 => Just(Some('^')), 1 => Just(Some('#'))];
    let width = prop_oneof![5 => Just(None), 1 => Just(Some(1u8)), 1 => Just(Some(2)), 1 => Just(Some(3)), 1 => Just(Some(5)), 1 => Just(Some(12)), 1 => Just(Some(255))];
    (strat_val(), spec, flag, width)
        .prop_map(|(val, spec, flag, width)| {
            // '-' together with an explicit width is not specified by the docs
            let width = if flag == Some('-') { None } else { width };
            // how flags/widths distribute over the composite specifiers
            // (%F %T %R) is not documented either
            let (flag, width) = if "FTR".contains(spec) { (None, None) } else { (flag, width) };
            SpecCase { val, spec, flag, width }
        })
        .boxed()
}

// --- round trips through generated formats ------------------------------------------------------------

const ZONED_FORMATS: &[&str] = &[
    "%Y-%m-%d %H:%M:%S%.f %z",
    "%Y-%m-%dT%H:%M:%S.%f%:z",
    "%F %T%.9f %:z",
    "%A, %d %B %Y %I:%M:%S%.f %p %z",
    "%a %b %e %T%.f %Y %:z",
    "%Y %j %H %M %S %f %z",
    "%G-W%V-%u %T%.f %z",
    "%s%.f %z",
    "%Y-%m-%d %T%.f %Q",
    "%d/%m/%Y %k:%M:%S%.f (%:Q)",
    "%Y%m%d%H%M%S%z",
    "%C%y-%m-%d %l:%M:%S %P %z",
    "%F%n%T%t%z",
    // two-digit ISO week-based year (documented pivot: 69..=99 -> 19xx, 00..=68 -> 20xx)
    "%g-W%V-%u %T%.f %z",
    // week-number based dates (week 0..53 of the year, Sunday resp. Monday based)
    "%Y %U %w %T%.f %z",
    "%Y %W %u %T%.f %z",
    "%Y-%U-%a %H:%M:%S %:z",
    "%Y/%W/%a %T %z",
    // day of year plus a (redundant) weekday
    "%Y-%j %a %T%.f %z",
    "%A, day %j in %Y, %T %:z",
    // seconds since the epoch after other fields (the zone name, a weekday)
    "%Q %s",
    "[%:Q] %a @%s",
];
const CIVIL_FORMATS: &[&str] = &["%Y-%m-%d %H:%M:%S%.f", "%F %T.%f", "%A %B %d %Y %I.%M.%S%.f %p", "%Y %j %R:%S%.f", "%G %V %u %T%.f", "%m/%d/%Y %T%.f", "%d %b %Y %H%M%S%.f", "%Y%m%d%H%M%S", "%Y %U %w %T%.f", "%Y %W %u %T%.f", "%Y-W%U-%a %T"];

#[derive(Serialize, Deserialize, Debug, Clone)]
struct RtCase {
    val: Val,
    fmt_sel: u16,
    perturb: Option<u8>,
}

fn test_roundtrip(c: &RtCase, cx: &mut Cx) -> CaseResult {
    let Some(f) = facts(&c.val) else {
        cx.tolerate("value-not-constructible");
        return Ok(());
    };
    // zoned
    let zf = ZONED_FORMATS[zones::pick(c.fmt_sel, ZONED_FORMATS.len())];
    let uses_two_digit = zf.contains("%y");
    let needs_name = zf.contains("Q");
    let named = f.z.label.starts_with("file:");
    cx.nt_if(f.off % 60 != 0 || f.y < 1000 || c.perturb.is_some() || f.ns != 0);
    cx.class_if(f.off % 60 != 0, "offset-with-seconds");
    let iso_year = rc::iso_week(rc::to_days(f.y, f.m, f.d)).0;
    let two_digit_iso_out_of_range = zf.contains("%g") && !(1969..=2068).contains(&iso_year);
    if !(uses_two_digit && !(1969..=2068).contains(&f.y)) && !two_digit_iso_out_of_range && !(zf.starts_with("%C") && f.y < 0) {
        let text = strtime::format(zf, &f.zdt).map_err(|e| Failure::new("format-err", format!("strftime({zf:?}, {}) = Err({e})", f.zdt)))?;
        let ctx = format!("[{}] {zf:?} -> {text:?}", f.z.label);
        let has_frac = zf.contains("f");
        let want = if has_frac { f.inst_ns } else { f.inst_ns.div_euclid(NS_PER_SEC) * NS_PER_SEC };
        // (%s after a numeric offset - which is what %Q prints for a zone without a name - replaces
        // that offset by UTC on the unchanged tree as well; the instant is kept. Not settled by the
        // documentation: such combinations are only judged for named zones.)
        let s_after_q = zf.contains("%s") && needs_name;
        if (zf.contains("%s") && !s_after_q) || (!needs_name || named) && (!s_after_q || named) {
            match Zoned::strptime(zf, &text) {
                Ok(p) => {
                    ensure!(p.timestamp().as_nanosecond() == want, "zoned-roundtrip", "{ctx}: parsed back to {p} ({}), want instant {want}", p.timestamp().as_nanosecond());
                    ensure!(p.offset().seconds() == f.off, "zoned-roundtrip-offset", "{ctx}: parsed offset {} want {}", p.offset(), f.off);
                }
                Err(e) => {
                    // listed finding: the %A parse table spells "Tueday"
                    let tag = if zf.contains("%A") && f.wd_mon0 == 1 { ":%A-Tuesday" } else { "" };
                    fail!(format!("zoned-reparse-err{tag}"), "{ctx}: does not parse back: {e}")
                }
            }
            // a Timestamp needs an offset (or %s); a zone name alone is documented as insufficient
            if zf.contains("z") || zf.contains("%s") {
                let ts = Timestamp::strptime(zf, &text).map_err(|e| Failure::new("timestamp-reparse-err", format!("{ctx}: Timestamp::strptime: {e}")))?;
                ensure!(ts.as_nanosecond() == want, "timestamp-roundtrip", "{ctx}: Timestamp::strptime gives {ts}");
            }
        }
        // the same text by the other public routes, and the parsed fields one by one
        {
            use jiff::fmt::strtime::BrokenDownTime;
            let bdt = BrokenDownTime::from(&f.zdt);
            let via_display = f.zdt.strftime(zf).to_string();
            let via_bdt = bdt.to_string(zf);
            let mut via_write = String::new();
            let wrote = bdt.format(zf, &mut via_write);
            let mut trickle = jiff::fmt::StdIoWrite(gen::Trickle::new(1 + (f.ns % 5) as usize));
            let wrote2 = bdt.format(zf, &mut trickle);
            ensure!(wrote2.is_ok() && trickle.0.buf == text.as_bytes(), "format-routes-differ", "{ctx}: BrokenDownTime::format into a sink taking a few bytes per call wrote {:?}", trickle.0.text());
            ensure!(via_display == text && via_bdt.as_deref().ok() == Some(text.as_str()) && wrote.is_ok() && via_write == text, "format-routes-differ", "{ctx}: Zoned::strftime {via_display:?}, BrokenDownTime::to_string {via_bdt:?}, BrokenDownTime::format {via_write:?}");
            let named_here = if named { f.zdt.time_zone().iana_name() } else { None };
            ensure!(
                bdt.year().map(i64::from) == Some(f.y) && bdt.month().map(i64::from) == Some(f.m) && bdt.day().map(i64::from) == Some(f.d) && bdt.hour().map(i64::from) == Some(f.h) && bdt.minute().map(i64::from) == Some(f.mi) && bdt.second().map(i64::from) == Some(f.s)
                    && bdt.subsec_nanosecond().map(i64::from) == Some(f.ns) && bdt.weekday().map_or(true, |w| w.to_monday_zero_offset() as i64 == f.wd_mon0) && bdt.offset().map(|o| o.seconds()) == Some(f.off) && (named_here.is_none() || bdt.iana_time_zone() == named_here),
                "broken-down-from-zoned-fields",
                "{ctx}: BrokenDownTime::from(&zoned) = {bdt:?}"
            );
            if (zf.contains("%s") && !s_after_q) || (!needs_name || named) && (!s_after_q || named) {
                match strtime::parse(zf, &text) {
                    Ok(p) => {
                        let has = |specs: &[&str]| specs.iter().any(|s| zf.contains(s));
                        let (iy, iw, _) = rc::iso_week(rc::to_days(f.y, f.m, f.d));
                        let wd_sun0 = (f.wd_mon0 + 1) % 7;
                        let mut bad: Vec<String> = vec![];
                        let mut chk = |cond: bool, name: &str, got: String| {
                            if !cond {
                                bad.push(format!("{name}={got}"));
                            }
                        };
                        if has(&["%Y", "%F"]) { chk(p.year().map(i64::from) == Some(f.y), "year", format!("{:?}", p.year())); }
                        if has(&["%m", "%b", "%B", "%F"]) { chk(p.month().map(i64::from) == Some(f.m), "month", format!("{:?}", p.month())); }
                        if has(&["%d", "%e", "%F"]) { chk(p.day().map(i64::from) == Some(f.d), "day", format!("{:?}", p.day())); }
                        if has(&["%H", "%k", "%T"]) { chk(p.hour().map(i64::from) == Some(f.h), "hour", format!("{:?}", p.hour())); }
                        if has(&["%M", "%T"]) { chk(p.minute().map(i64::from) == Some(f.mi), "minute", format!("{:?}", p.minute())); }
                        if has(&["%S", "%T"]) { chk(p.second().map(i64::from) == Some(f.s), "second", format!("{:?}", p.second())); }
                        if has(&["%j"]) { chk(p.day_of_year().map(i64::from) == Some(f.yday), "day_of_year", format!("{:?}", p.day_of_year())); }
                        if has(&["%G"]) { chk(p.iso_week_year().map(i64::from) == Some(iy), "iso_week_year", format!("{:?}", p.iso_week_year())); }
                        if has(&["%V"]) { chk(p.iso_week().map(i64::from) == Some(iw), "iso_week", format!("{:?}", p.iso_week())); }
                        if has(&["%U"]) { chk(p.sunday_based_week().map(i64::from) == Some((f.yday - 1 + 7 - wd_sun0) / 7), "sunday_based_week", format!("{:?}", p.sunday_based_week())); }
                        if has(&["%W"]) { chk(p.monday_based_week().map(i64::from) == Some((f.yday - 1 + 7 - f.wd_mon0) / 7), "monday_based_week", format!("{:?}", p.monday_based_week())); }
                        if has(&["%a", "%A", "%u", "%w"]) { chk(p.weekday().map(|w| w.to_monday_zero_offset() as i64) == Some(f.wd_mon0), "weekday", format!("{:?}", p.weekday())); }
                        if has(&["%z", "%:z"]) { chk(p.offset().map(|o| o.seconds()) == Some(f.off), "offset", format!("{:?}", p.offset())); }
                        if has(&["%p", "%P"]) { chk(p.meridiem().map(|m| format!("{m:?}")) == Some(if f.h >= 12 { "PM".to_string() } else { "AM".to_string() }), "meridiem", format!("{:?}", p.meridiem())); }
                        if has(&["%Q", "%:Q"]) && named { chk(p.iana_time_zone() == f.zdt.time_zone().iana_name(), "iana_time_zone", format!("{:?}", p.iana_time_zone())); }
                        ensure!(bad.is_empty(), "parsed-fields-wrong", "{ctx}: parsed fields differ from the value printed: {}", bad.join(", "));
                        // conversions of the parsed fields
                        let z1 = p.to_zoned().ok().map(|z| (z.timestamp().as_nanosecond(), z.offset().seconds()));
                        let z2 = p.to_zoned_with(jiff::tz::db()).ok().map(|z| (z.timestamp().as_nanosecond(), z.offset().seconds()));
                        ensure!(z1 == Some((want, f.off)) && z2 == z1, "parsed-to-zoned-wrong", "{ctx}: parse().to_zoned() = {z1:?}, to_zoned_with(db) = {z2:?}, want ({want}, {})", f.off);
                        if !zf.contains("%s") {
                            let dtw = f.zdt.datetime();
                            let dtw = if has_frac { dtw } else { dtw.date().at(dtw.hour(), dtw.minute(), dtw.second(), 0) };
                            ensure!(p.to_datetime().ok() == Some(dtw) && p.to_date().ok() == Some(dtw.date()) && p.to_time().ok() == Some(dtw.time()), "parsed-to-civil-wrong", "{ctx}: parse().to_datetime() = {:?}", p.to_datetime());
                        }
                        // parse_prefix stops exactly at the end of the formatted text
                        let longer = format!("{text}\u{1}tail");
                        match BrokenDownTime::parse_prefix(zf, &longer) {
                            Ok((p2, used)) => ensure!(used == text.len() && p2.to_zoned().ok().map(|z| z.timestamp().as_nanosecond()) == Some(want), "parse_prefix-wrong", "{ctx}: parse_prefix consumed {used} of {} bytes", text.len()),
                            Err(e) => fail!("parse_prefix-err", "{ctx}: parse_prefix: {e}"),
                        }
                    }
                    Err(e) => {
                        let tag = if zf.contains("%A") && f.wd_mon0 == 1 { ":%A-Tuesday" } else { "" };
                        fail!(format!("zoned-reparse-err{tag}"), "{ctx}: strtime::parse: {e}")
                    }
                }
            }
        }
        // contradictory text must be rejected
        if let Some(k) = c.perturb {
            // only where the weekday is redundant (the date is given by day
            // of month); with %U/%W the weekday is part of the date itself
            if (zf.contains("%A") || zf.contains("%a")) && (zf.contains("%d") || zf.contains("%e") || zf.contains("%j")) {
                let names: Vec<&str> = if zf.contains("%A") { WEEKDAYS.to_vec() } else { WEEKDAYS.iter().map(|w| &w[..3]).collect() };
                let cur = names[f.wd_mon0 as usize];
                let other = names[((f.wd_mon0 + 1 + (k % 6) as i64) % 7) as usize];
                let bad = text.replacen(cur, other, 1);
                if bad != text {
                    ensure!(Zoned::strptime(zf, &bad).is_err(), "contradictory-weekday-accepted", "{zf:?}: {bad:?} has the wrong weekday for its date but parses");
                    cx.class("contradiction-rejected");
                }
            }
        }
    }
    // civil datetime
    let cf = CIVIL_FORMATS[zones::pick(c.fmt_sel.wrapping_mul(31), CIVIL_FORMATS.len())];
    let dt: DateTime = f.zdt.datetime();
    let text = strtime::format(cf, dt).map_err(|e| Failure::new("format-civil-err", format!("strftime({cf:?}, {dt}) = Err({e})")))?;
    let has_frac = cf.contains("f");
    {
        // a BrokenDownTime filled in through its setters is the same value
        use jiff::fmt::strtime::BrokenDownTime;
        let via_display = dt.strftime(cf).to_string();
        let via_bdt = BrokenDownTime::from(dt).to_string(cf);
        ensure!(via_display == text && via_bdt.as_deref().ok() == Some(text.as_str()), "format-routes-differ", "{cf:?}: DateTime::strftime {via_display:?}, BrokenDownTime::from(dt).to_string {via_bdt:?}, strtime::format {text:?}");
        let set_time = |b: &mut BrokenDownTime| -> bool { b.set_hour(Some(f.h as i8)).is_ok() && b.set_minute(Some(f.mi as i8)).is_ok() && b.set_second(Some(f.s as i8)).is_ok() && b.set_subsec_nanosecond(Some(f.ns as i32)).is_ok() };
        let wd = jiff::civil::Weekday::from_monday_zero_offset(f.wd_mon0 as i8).unwrap();
        let (iy, iw, _) = rc::iso_week(rc::to_days(f.y, f.m, f.d));
        let wd_sun0 = (f.wd_mon0 + 1) % 7;
        let mut b1 = BrokenDownTime::default();
        let ok1 = b1.set_year(Some(f.y as i16)).is_ok() && b1.set_month(Some(f.m as i8)).is_ok() && b1.set_day(Some(f.d as i8)).is_ok() && set_time(&mut b1);
        b1.set_weekday(Some(wd));
        b1.set_offset(Some(f.zdt.offset()));
        ensure!(ok1, "setter-rejects-valid", "{dt}: a setter refused a valid field");
        ensure!(b1.to_datetime().ok() == Some(dt) && b1.to_date().ok() == Some(dt.date()) && b1.to_time().ok() == Some(dt.time()), "setter-built-civil-wrong", "{dt}: set fields give {:?}", b1.to_datetime());
        // local time + offset determine the instant, unless it leaves the timestamp range
        let want_inst = crate::props::c04::dt_to_civil(dt) - f.off as i128 * NS_PER_SEC;
        if rz::in_ts_range(want_inst) {
            ensure!(b1.to_timestamp().ok().map(|t| t.as_nanosecond()) == Some(want_inst), "setter-built-timestamp-wrong", "{dt} {}: to_timestamp = {:?} want {want_inst}", f.zdt.offset(), b1.to_timestamp());
            let zz = b1.to_zoned().ok().map(|z| (z.timestamp().as_nanosecond(), z.offset().seconds()));
            ensure!(zz == Some((want_inst, f.off)), "setter-built-zoned-wrong", "{dt} {}: to_zoned = {zz:?}", f.zdt.offset());
        }
        let simple = "%Y-%m-%d %H:%M:%S%.f %z";
        let s1 = b1.to_string(simple);
        let s2 = strtime::format(simple, &f.zdt);
        ensure!(s1.is_ok() && s1.as_deref().ok() == s2.as_deref().ok(), "setter-built-format-differs", "{dt}: setter-built prints {s1:?}, the zoned value prints {s2:?}");
        // the other ways of naming the date
        let mut alts: Vec<(&str, BrokenDownTime, bool)> = vec![];
        let mut b = BrokenDownTime::default();
        let ok = b.set_year(Some(f.y as i16)).is_ok() && b.set_day_of_year(Some(f.yday as i16)).is_ok();
        alts.push(("year + day of year", b, ok));
        let mut b = BrokenDownTime::default();
        let ok = b.set_iso_week_year(Some(iy as i16)).is_ok() && b.set_iso_week(Some(iw as i8)).is_ok();
        b.set_weekday(Some(wd));
        alts.push(("ISO week year + ISO week + weekday", b, ok || !(-9999..=9999).contains(&iy)));
        let mut b = BrokenDownTime::default();
        let ok = b.set_year(Some(f.y as i16)).is_ok() && b.set_sunday_based_week(Some(((f.yday - 1 + 7 - wd_sun0) / 7) as i8)).is_ok();
        b.set_weekday(Some(wd));
        alts.push(("year + Sunday based week + weekday", b, ok));
        let mut b = BrokenDownTime::default();
        let ok = b.set_year(Some(f.y as i16)).is_ok() && b.set_monday_based_week(Some(((f.yday - 1 + 7 - f.wd_mon0) / 7) as i8)).is_ok();
        b.set_weekday(Some(wd));
        alts.push(("year + Monday based week + weekday", b, ok));
        for (name, b, ok) in alts {
            ensure!(ok, "setter-rejects-valid", "{dt}: a setter refused a valid field ({name})");
            if (-9999..=9999).contains(&iy) || !name.starts_with("ISO") {
                ensure!(b.to_date().ok() == Some(dt.date()), format!("setter-built-date-wrong:{name}"), "{}: {name} gives {:?}", dt.date(), b.to_date());
            }
        }
        // a weekday that contradicts the date is refused, whichever way the date is named
        if let Some(k) = c.perturb {
            let wrong = wd.wrapping_add(1 + (k % 6) as i64);
            let mut b = BrokenDownTime::from(dt);
            b.set_weekday(Some(wrong));
            ensure!(b.to_date().is_err() && b.to_datetime().is_err(), "contradictory-weekday-accepted", "{dt}: set_weekday({:?}) contradicts the date but to_date() = {:?}", b.weekday(), b.to_date());
            let mut b = BrokenDownTime::default();
            let _ = (b.set_year(Some(f.y as i16)), b.set_day_of_year(Some(f.yday as i16)));
            b.set_weekday(Some(wrong));
            ensure!(b.to_date().is_err(), "contradictory-weekday-accepted", "{dt}: year + day of year {} with weekday {wrong:?} gives {:?}", f.yday, b.to_date());
        }
    }
    match DateTime::strptime(cf, &text) {
        Ok(p) => {
            let want = if has_frac { dt } else { dt.date().at(dt.hour(), dt.minute(), dt.second(), 0) };
            ensure!(p == want, "civil-roundtrip", "{cf:?} -> {text:?} -> {p} want {want}");
        }
        Err(e) => {
            let tag = if cf.contains("%A") && f.wd_mon0 == 1 { ":%A-Tuesday" } else { "" };
            fail!(format!("civil-reparse-err{tag}"), "{cf:?} -> {text:?}: {e}")
        }
    }
    Ok(())
}

fn strat_rt() -> BoxedStrategy<RtCase> {
    (strat_val(), any::<u16>(), prop::option::weighted(0.3, any::<u8>())).prop_map(|(val, fmt_sel, perturb)| RtCase { val, fmt_sel, perturb }).boxed()
}

// --- RFC 2822 ------------------------------------------------------------------------------------------

fn test_rfc2822(c: &RtCase, cx: &mut Cx) -> CaseResult {
    let Some(f) = facts(&c.val) else {
        cx.tolerate("value-not-constructible");
        return Ok(());
    };
    let printed = rfc2822::to_string(&f.zdt);
    if !(0..=9999).contains(&f.y) {
        ensure!(printed.is_err(), "rfc2822-prints-unrepresentable-year", "rfc2822::to_string({}) = {printed:?}", f.zdt);
        cx.class("documented-error");
        return Ok(());
    }
    let text = printed.map_err(|e| Failure::new("rfc2822-print-err", format!("rfc2822::to_string({}) = Err({e})", f.zdt)))?;
    let ctx = format!("[{}] {} -> {text:?}", f.z.label, f.zdt);
    cx.nt_if(f.off % 60 != 0 || f.y < 1000 || c.perturb.is_some());
    cx.class_if(f.off % 60 != 0, "offset-with-seconds");
    // independent structural read: "Www, D Mon YYYY HH:MM:SS +HHMM"
    let parts: Vec<&str> = text.split(' ').collect();
    ensure!(parts.len() == 6, "rfc2822-shape", "{ctx}: unexpected shape");
    ensure!(parts[0] == format!("{},", &WEEKDAYS[f.wd_mon0 as usize][..3]), "rfc2822-weekday", "{ctx}: weekday field {:?}", parts[0]);
    ensure!(parts[1].parse::<i64>().ok() == Some(f.d) && parts[2] == &MONTHS[(f.m - 1) as usize][..3] && parts[3].parse::<i64>().ok() == Some(f.y), "rfc2822-date", "{ctx}: date fields");
    ensure!(parts[4] == format!("{:02}:{:02}:{:02}", f.h, f.mi, f.s), "rfc2822-time", "{ctx}: time field {:?}", parts[4]);
    let po: i32 = {
        let s = parts[5];
        let sign = if s.starts_with('-') { -1 } else { 1 };
        let hh: i32 = s[1..3].parse().map_err(|_| Failure::new("rfc2822-offset-shape", ctx.clone()))?;
        let mm: i32 = s[3..5].parse().map_err(|_| Failure::new("rfc2822-offset-shape", ctx.clone()))?;
        sign * (hh * 3600 + mm * 60)
    };
    // documented: rounded to the nearest minute (a :30 tie may go either way;
    // the top of the range stays at 25:59)
    ensure!(po % 60 == 0 && ((po - f.off).abs() <= 30 || (f.off.abs() > 93570 && po.abs() == 93540)), "rfc2822-offset", "{ctx}: printed offset {po}s for real offset {}s is not the nearest minute", f.off);
    // parse back: civil fields to the second, offset to the minute
    let printed_inst = crate::props::c04::dt_to_civil(f.zdt.datetime()) / NS_PER_SEC * NS_PER_SEC - po as i128 * NS_PER_SEC;
    if !rz::in_ts_range(printed_inst) {
        // within a minute of the range limit the minute-rounded offset denotes an unrepresentable instant
        ensure!(rfc2822::parse(&text).is_err(), "rfc2822-accepts-out-of-range", "{ctx}: parses although the denoted instant is out of range");
        cx.tolerate("rounded-offset-out-of-range-at-limit");
        return Ok(());
    }
    let p = rfc2822::parse(&text).map_err(|e| Failure::new("rfc2822-reparse-err", format!("{ctx}: {e}")))?;
    let dt = f.zdt.datetime();
    let want_dt = dt.date().at(dt.hour(), dt.minute(), dt.second(), 0);
    ensure!(p.datetime() == want_dt && p.offset().seconds() == po, "rfc2822-roundtrip", "{ctx}: parsed {p}");
    if f.off % 60 == 0 {
        ensure!(p.timestamp().as_nanosecond() == f.inst_ns.div_euclid(NS_PER_SEC) * NS_PER_SEC, "rfc2822-roundtrip-instant", "{ctx}: parsed instant {}", p.timestamp());
    }
    // wrong weekday must be rejected
    if let Some(k) = c.perturb {
        let cur = &WEEKDAYS[f.wd_mon0 as usize][..3];
        let other = &WEEKDAYS[((f.wd_mon0 + 1 + (k % 6) as i64) % 7) as usize][..3];
        let bad = text.replacen(cur, other, 1);
        ensure!(rfc2822::parse(&bad).is_err(), "rfc2822-wrong-weekday-accepted", "{bad:?} parses although the weekday contradicts the date");
        cx.class("contradiction-rejected");
        // obsolete zone names map as documented (RFC 2822 4.3)
        let obs = [("UT", 0), ("GMT", 0), ("EST", -5), ("EDT", -4), ("CST", -6), ("CDT", -5), ("MST", -7), ("MDT", -6), ("PST", -8), ("PDT", -7)];
        let (name, hours) = obs[(k as usize) % obs.len()];
        let alt = format!("{} {}", parts[..5].join(" "), name);
        let civil_ns = crate::props::c04::dt_to_civil(want_dt);
        let alt_inst = civil_ns - hours as i128 * 3600 * NS_PER_SEC;
        match rfc2822::parse(&alt) {
            Ok(p) => ensure!(rz::in_ts_range(alt_inst) && p.offset().seconds() == hours * 3600 && p.datetime() == want_dt, "rfc2822-obsolete-zone", "{alt:?} parsed as {p}"),
            Err(e) => ensure!(!rz::in_ts_range(alt_inst), "rfc2822-obsolete-zone-err", "{alt:?}: {e}"),
        }
    }
    // the Write-based routes give the same text; the relaxed-weekday parser gives the same value
    {
        let pr = rfc2822::DateTimePrinter::new();
        let mut b = String::new();
        ensure!(pr.print_zoned(&f.zdt, &mut b).is_ok() && b == text && pr.zoned_to_string(&f.zdt).ok().as_deref() == Some(text.as_str()), "rfc2822-print-routes-differ", "{ctx}: print_zoned wrote {b:?}");
        let p2 = rfc2822::DateTimeParser::new().relaxed_weekday(true).parse_zoned(&text).map_err(|e| Failure::new("rfc2822-reparse-err", format!("{ctx}: relaxed_weekday: {e}")))?;
        ensure!(p2 == p && p2.offset() == p.offset(), "rfc2822-roundtrip", "{ctx}: relaxed_weekday parses {p2}");
    }
    // RFC 9110 (HTTP) form of a timestamp: fixed 29 characters, always GMT, two-digit day,
    // fractional seconds dropped (the civil second that contains the instant)
    {
        let ts = f.zdt.timestamp();
        let (uy, um, ud, utod) = crate::props::c02::ref_civil(f.inst_ns, 0);
        let pr = rfc2822::DateTimePrinter::new();
        let got = pr.timestamp_to_rfc9110_string(&ts);
        if (0..=9999).contains(&uy) {
            let uwd = rc::weekday_mon0(rc::to_days(uy, um, ud));
            let want = format!("{}, {:02} {} {:04} {:02}:{:02}:{:02} GMT", &WEEKDAYS[uwd as usize][..3], ud, &MONTHS[(um - 1) as usize][..3], uy, utod / (3600 * NS_PER_SEC), utod / (60 * NS_PER_SEC) % 60, utod / NS_PER_SEC % 60);
            ensure!(got.as_deref().ok() == Some(want.as_str()), "rfc9110-wrong", "timestamp_to_rfc9110_string({ts}) = {got:?}, want {want:?}");
            let mut b = String::new();
            ensure!(pr.print_timestamp_rfc9110(&ts, &mut b).is_ok() && b == want, "rfc9110-wrong", "print_timestamp_rfc9110({ts}) wrote {b:?}, want {want:?}");
            let back = rfc2822::DateTimeParser::new().parse_timestamp(&want).map_err(|e| Failure::new("rfc9110-reparse-err", format!("{want:?}: {e}")))?;
            ensure!(back.as_nanosecond() == f.inst_ns.div_euclid(NS_PER_SEC) * NS_PER_SEC, "rfc9110-roundtrip", "{ts} -> {want:?} -> {back}");
        } else {
            ensure!(got.is_err(), "rfc9110-prints-unrepresentable-year", "timestamp_to_rfc9110_string({ts}) = {got:?}");
        }
    }
    // timestamps print in UTC and parse back to the second
    let ts = f.zdt.timestamp();
    let ttext = rfc2822::DateTimePrinter::new().timestamp_to_string(&ts);
    let (uy, _, _, _) = crate::props::c02::ref_civil(f.inst_ns, 0);
    match ttext {
        Ok(t) => {
            let back = rfc2822::DateTimeParser::new().parse_timestamp(&t).map_err(|e| Failure::new("rfc2822-timestamp-reparse-err", format!("{t:?}: {e}")))?;
            ensure!(back.as_nanosecond() == f.inst_ns.div_euclid(NS_PER_SEC) * NS_PER_SEC, "rfc2822-timestamp-roundtrip", "{ts} -> {t:?} -> {back}");
        }
        Err(_) => ensure!(!(0..=9999).contains(&uy), "rfc2822-timestamp-print-err", "timestamp_to_string({ts}) failed although the UTC year {uy} is representable"),
    }
    Ok(())
}

pub fn property() -> Property {
    Property {
        id: "C16",
        level: "exploration",
        rule: "proptest: zoned values (19 zones incl. sub-minute offsets and fixed offsets up to +-25:59:59; dates over-weighted to the first/last 8 days of a year, years 1969..2068 and years < 1000) x every conversion specifier x flags {none,_,-,0,^,#} x widths {none,1,2,3,5,12,255}; round trips through 13 zoned and 8 civil multi-specifier formats; perturbed (contradictory) weekday names; RFC 2822 print/parse incl. obsolete zone names. Oracle: (i) the calendar fact from the walked reference calendar rendered with jiff's documented padding rules, (ii) glibc strftime via libc on the same broken-down time, compared numerically (and textually for names), (iii) strptime(fmt, strftime(fmt, v)) == v to the format's precision and rejection of contradictory weekdays, RFC 2822: independent field-by-field read, civil fields to the second and offset to the minute round trip. Non-trivial: within 7 days of a year boundary, flag/width present, year < 1000, offset with seconds, fractional seconds, or a perturbation.",
        assumptions: &[
            "POSIX fidelity of the text layout is a documented non-goal of jiff: layout follows jiff's own table, only the calendar fact is compared with glibc",
            "%y/%g/%D are documented to represent only 1969..=2068 (Err elsewhere); %C of negative years is implementation-defined in C and not judged; '-' flag with an explicit width is not generated (unspecified)",
        ],
        checks: vec![
            Box::new(Prop { name: "c16.specifier", quick: 6_000_000, thorough: 50_000_000, strategy: strat_spec, test: test_specifier }),
            Box::new(Prop { name: "c16.roundtrip", quick: 2_400_000, thorough: 20_000_000, strategy: strat_rt, test: test_roundtrip }),
            Box::new(Prop { name: "c16.rfc2822", quick: 2_400_000, thorough: 20_000_000, strategy: strat_rt, test: test_rfc2822 }),
        ],
        floors: |rec| {
            rec.floor("c16.specifier:within-7-days-of-year-boundary", "c16.specifier:cases", 0.25);
            rec.floor("c16.specifier:glibc-compared", "c16.specifier:cases", 0.05);
            rec.floor("c16.roundtrip:offset-with-seconds", "c16.roundtrip:cases", 0.05);
            rec.floor("c16.rfc2822:contradiction-rejected", "c16.rfc2822:cases", 0.05);
        },
    }
}
