//! C01 Civil calendar facts are exactly the proleptic Gregorian calendar.

use jiff::civil::{Date, ISOWeekDate, Weekday};
use proptest::prelude::*;
use serde::{Deserialize, Serialize};
use serde_json::{json, Value};

use crate::engine::*;
use crate::refmodel::refcal as rc;
use crate::{ensure, fail};

fn wd_from_mon0(i: i64) -> Weekday {
    Weekday::from_monday_zero_offset(i as i8).unwrap()
}

/// All oracle clauses for one valid date.
fn check_date(y: i64, m: i64, d: i64) -> CaseResult {
    let dn = rc::to_days(y, m, d);
    let wd = rc::weekday_mon0(dn);
    let date = match Date::new(y as i16, m as i8, d as i8) {
        Ok(x) => x,
        Err(e) => fail!("new-rejects-valid", "Date::new({y},{m},{d}) = Err({e})"),
    };
    ensure!(
        (date.year() as i64, date.month() as i64, date.day() as i64) == (y, m, d),
        "accessors",
        "{y}-{m}-{d}: accessors give {date}"
    );
    let epoch = Date::constant(1970, 1, 1);
    // day count from the epoch, two independent public routes
    let secs = date.duration_since(epoch).as_secs();
    ensure!(
        secs == dn * 86400,
        "daynum-duration",
        "{date}: duration_since(epoch)={secs}s want {} days",
        dn
    );
    let days_until = epoch
        .until((jiff::Unit::Day, date))
        .map(|s| s.get_days() as i64);
    ensure!(
        days_until.as_ref().ok() == Some(&dn),
        "daynum-until",
        "{date}: epoch.until(Day) = {days_until:?} want {dn}"
    );
    ensure!(
        date.weekday().to_monday_zero_offset() as i64 == wd,
        "weekday",
        "{date}: weekday {:?} want mon0={wd}",
        date.weekday()
    );
    // the weekday in every numbering scheme and through the weekday algebra (day 0 is a
    // Thursday, so the weekday is Thursday advanced by the day count)
    {
        let w = date.weekday();
        let sun0 = (wd + 1) % 7;
        ensure!(
            (w.to_monday_one_offset() as i64, w.to_sunday_zero_offset() as i64, w.to_sunday_one_offset() as i64) == (wd + 1, sun0, sun0 + 1),
            "weekday-numbering",
            "{date}: {w:?} numbered mon1={} sun0={} sun1={}, want {} {} {}",
            w.to_monday_one_offset(), w.to_sunday_zero_offset(), w.to_sunday_one_offset(), wd + 1, sun0, sun0 + 1
        );
        ensure!(
            Weekday::from_monday_one_offset(wd as i8 + 1).ok() == Some(w) && Weekday::from_sunday_zero_offset(sun0 as i8).ok() == Some(w) && Weekday::from_sunday_one_offset(sun0 as i8 + 1).ok() == Some(w),
            "weekday-from-numbering",
            "{date}: from_*_offset do not rebuild {w:?}"
        );
        let thu = Weekday::Thursday;
        ensure!(thu.wrapping_add(dn) == w && w.wrapping_sub(dn) == thu && thu.wrapping_sub(-dn) == w, "weekday-wrapping", "{date}: Thursday.wrapping_add({dn}) = {:?}, {w:?}.wrapping_sub({dn}) = {:?}", thu.wrapping_add(dn), w.wrapping_sub(dn));
        let r = dn.rem_euclid(7);
        ensure!(w.since(thu) as i64 == r && thu.until(w) as i64 == r && thu.since(w) as i64 == (7 - r) % 7, "weekday-since-until", "{date}: {w:?}.since(Thursday) = {} want {r}", w.since(thu));
        let fwd: Vec<i64> = w.cycle_forward().take(9).map(|x| x.to_monday_zero_offset() as i64).collect();
        let rev: Vec<i64> = w.cycle_reverse().take(9).map(|x| x.to_monday_zero_offset() as i64).collect();
        ensure!(
            (0..9).all(|i| fwd[i as usize] == (wd + i) % 7 && rev[i as usize] == (wd - i).rem_euclid(7)),
            "weekday-cycle",
            "{date}: cycle_forward {fwd:?} cycle_reverse {rev:?} from mon0={wd}"
        );
        ensure!(w.next().to_monday_zero_offset() as i64 == (wd + 1) % 7 && w.previous().to_monday_zero_offset() as i64 == (wd + 6) % 7, "weekday-next-previous", "{date}: {w:?}.next() = {:?}, previous() = {:?}", w.next(), w.previous());
    }
    let doy = rc::day_of_year(y, m, d);
    ensure!(date.day_of_year() as i64 == doy, "day-of-year", "{date}: day_of_year {} want {doy}", date.day_of_year());
    let want_noleap = if rc::is_leap(y) {
        if m == 2 && d == 29 {
            None
        } else if m > 2 {
            Some(doy - 1)
        } else {
            Some(doy)
        }
    } else {
        Some(doy)
    };
    ensure!(
        date.day_of_year_no_leap().map(|x| x as i64) == want_noleap,
        "day-of-year-no-leap",
        "{date}: day_of_year_no_leap {:?} want {want_noleap:?}",
        date.day_of_year_no_leap()
    );
    ensure!(
        date.days_in_month() as i64 == rc::days_in_month(y, m)
            && date.in_leap_year() == rc::is_leap(y)
            && date.days_in_year() as i64 == rc::days_in_year(y),
        "month-length-leap",
        "{date}: days_in_month={} leap={} days_in_year={}",
        date.days_in_month(),
        date.in_leap_year(),
        date.days_in_year()
    );
    // navigation on the ISO week date itself (next/previous day, first/last day of its week and
    // of its ISO year) against the reference ISO calendar
    {
        let w = date.iso_week_date();
        let triple = |x: jiff::civil::ISOWeekDate| (x.year() as i64, x.week() as i64, x.weekday().to_monday_zero_offset() as i64);
        let (iy, iw, _) = rc::iso_week(dn);
        if dn < rc::DAY_MAX {
            ensure!(w.tomorrow().ok().map(triple) == Some(rc::iso_week(dn + 1)), "iso-tomorrow", "{date}: {w:?}.tomorrow() = {:?} want {:?}", w.tomorrow(), rc::iso_week(dn + 1));
        } else {
            ensure!(w.tomorrow().is_err(), "iso-tomorrow", "{date}: tomorrow() of the last date must fail");
        }
        if dn > rc::DAY_MIN {
            ensure!(w.yesterday().ok().map(triple) == Some(rc::iso_week(dn - 1)), "iso-yesterday", "{date}: {w:?}.yesterday() = {:?} want {:?}", w.yesterday(), rc::iso_week(dn - 1));
        } else {
            ensure!(w.yesterday().is_err(), "iso-yesterday", "{date}: yesterday() of the first date must fail");
        }
        let day_of = |r: Result<jiff::civil::ISOWeekDate, jiff::Error>| r.ok().map(|x| { let d = x.date(); rc::to_days(d.year() as i64, d.month() as i64, d.day() as i64) });
        let in_range = |d: i64| (rc::DAY_MIN..=rc::DAY_MAX).contains(&d);
        for (name, got, want) in [
            ("iso-first-of-week", day_of(w.first_of_week()), rc::iso_to_days(iy, iw, 0)),
            ("iso-last-of-week", day_of(w.last_of_week()), rc::iso_to_days(iy, iw, 6)),
            ("iso-first-of-year", day_of(w.first_of_year()), rc::iso_to_days(iy, 1, 0)),
            ("iso-last-of-year", day_of(w.last_of_year()), rc::iso_to_days(iy, rc::iso_weeks_in_year(iy), 6)),
        ] {
            if in_range(want) {
                ensure!(got == Some(want), name, "{date}: {w:?}: {name} gives day {got:?} want {want}");
            } else {
                ensure!(got.is_none(), name, "{date}: {w:?}: {name} is outside the range and must fail, got day {got:?}");
            }
        }
        ensure!(w.weeks_in_year() as i64 == rc::iso_weeks_in_year(iy) && w.in_long_year() == (rc::iso_weeks_in_year(iy) == 53), "iso-weeks-in-year", "{date}: weeks_in_year {} want {}", w.weeks_in_year(), rc::iso_weeks_in_year(iy));
    }
    // era view and the with-builders that address a date by ordinal or era: inverses of the accessors
    let (ey, era) = date.era_year();
    let want_era = if y >= 1 { (y, jiff::civil::Era::CE) } else { (1 - y, jiff::civil::Era::BCE) };
    ensure!((ey as i64, era) == want_era, "era-year", "{date}: era_year = ({ey}, {era:?}) want {want_era:?}");
    ensure!(date.with().era_year(ey, era).build().ok() == Some(date), "with-era-year", "{date}: with().era_year({ey}, {era:?}) does not give the date back");
    ensure!(date.with().day_of_year(doy as i16).build().ok() == Some(date), "with-day-of-year", "{date}: with().day_of_year({doy}) does not give the date back");
    match want_noleap {
        Some(n) => ensure!(date.with().day_of_year_no_leap(n as i16).build().ok() == Some(date), "with-day-of-year-no-leap", "{date}: with().day_of_year_no_leap({n}) = {:?}", date.with().day_of_year_no_leap(n as i16).build()),
        None => {}
    }
    ensure!(date.with().year(y as i16).month(m as i8).day(d as i8).build().ok() == Some(date), "with-ymd", "{date}: with().year().month().day() does not give the date back");
    let f = date.first_of_month();
    let l = date.last_of_month();
    ensure!(
        (f.year() as i64, f.month() as i64, f.day() as i64) == (y, m, 1)
            && (l.year() as i64, l.month() as i64, l.day() as i64) == (y, m, rc::days_in_month(y, m)),
        "first-last-of-month",
        "{date}: first_of_month={f} last_of_month={l}"
    );
    let fy = date.first_of_year();
    let ly = date.last_of_year();
    ensure!(
        (fy.year() as i64, fy.month(), fy.day()) == (y, 1, 1)
            && (ly.year() as i64, ly.month(), ly.day()) == (y, 12, 31),
        "first-last-of-year",
        "{date}: first_of_year={fy} last_of_year={ly}"
    );
    // neighbours
    let want_next = if dn < rc::DAY_MAX { Some(rc::from_days(dn + 1)) } else { None };
    let got_next = date.tomorrow().ok().map(|t| (t.year() as i64, t.month() as i64, t.day() as i64));
    ensure!(got_next == want_next, "tomorrow", "{date}: tomorrow {got_next:?} want {want_next:?}");
    let want_prev = if dn > rc::DAY_MIN { Some(rc::from_days(dn - 1)) } else { None };
    let got_prev = date.yesterday().ok().map(|t| (t.year() as i64, t.month() as i64, t.day() as i64));
    ensure!(got_prev == want_prev, "yesterday", "{date}: yesterday {got_prev:?} want {want_prev:?}");
    // day count -> date (inverse), via the public epoch-day style route
    let back = epoch.checked_add(jiff::Span::new().days(dn));
    ensure!(
        back.as_ref().ok() == Some(&date),
        "daynum-inverse",
        "epoch + {dn} days = {back:?} want {date}"
    );
    // ISO week date
    let (iy, iw, iwd) = rc::iso_week(dn);
    let iso = date.iso_week_date();
    ensure!(
        (iso.year() as i64, iso.week() as i64, iso.weekday().to_monday_zero_offset() as i64) == (iy, iw, iwd),
        "iso-week-date",
        "{date}: iso_week_date {iso:?} want {iy}-W{iw}-{iwd}"
    );
    ensure!(iso.date() == date, "iso-roundtrip", "{date}: iso {iso:?} -> {}", iso.date());
    ensure!(
        Date::from_iso_week_date(iso) == date && ISOWeekDate::from_date(date) == iso,
        "iso-roundtrip-from",
        "{date}: from_iso_week_date / from_date disagree"
    );
    ensure!(
        iso.weeks_in_year() as i64 == rc::iso_weeks_in_year(iy) && iso.in_long_year() == (rc::iso_weeks_in_year(iy) == 53),
        "iso-weeks-in-year",
        "{date}: weeks_in_year {} want {}",
        iso.weeks_in_year(),
        rc::iso_weeks_in_year(iy)
    );
    Ok(())
}

#[derive(Serialize, Deserialize, Debug, Clone)]
struct Ymd {
    y: i64,
    m: i64,
    d: i64,
}

fn run_dates(rec: &Recorder, check: &'static str) {
    // every date, sharded by year
    let years: Vec<i64> = (-9999..=9999).collect();
    let n = years.len() as u64;
    par_chunks(rec.opts.threads, n, |r| {
        let mut evals = 0u64;
        let (mut leap_days, mut century, mut nonpos, mut month_ends, mut y9999) = (0u64, 0u64, 0u64, 0u64, 0u64);
        for i in r {
            let y = years[i as usize];
            for m in 1..=12 {
                let dim = rc::days_in_month(y, m);
                for d in 1..=dim {
                    evals += 1;
                    if m == 2 && d == 29 {
                        leap_days += 1;
                    }
                    if y % 100 == 0 {
                        century += 1;
                    }
                    if y <= 0 {
                        nonpos += 1;
                    }
                    if d == dim {
                        month_ends += 1;
                    }
                    if y == 9999 || y == -9999 {
                        y9999 += 1;
                    }
                    let case = Ymd { y, m, d };
                    if !sweep_case(rec, check, &case, || check_date(y, m, d)) {
                        // keep going: other signatures may exist; replay files are per signature
                    }
                }
            }
        }
        rec.add_evaluations(evals);
        rec.add_distinct_nontrivial(evals);
        rec.add_class("dates:all", evals);
        rec.add_class("dates:leap-day", leap_days);
        rec.add_class("dates:century-year", century);
        rec.add_class("dates:year<=0", nonpos);
        rec.add_class("dates:month-end", month_ends);
        rec.add_class("dates:limit-year", y9999);
    });
    // consecutive dates have consecutive day counts: implied by daynum check
    // on every date with the walked table; anchors:
    let e = Date::constant(1970, 1, 1);
    let anchor = Ymd { y: 1970, m: 1, d: 1 };
    sweep_case(rec, check, &anchor, || {
        ensure!(e.weekday() == Weekday::Thursday, "epoch-anchor", "1970-01-01 is {:?}", e.weekday());
        ensure!(Date::MAX.tomorrow().is_err() && Date::MIN.yesterday().is_err(), "limits", "MAX.tomorrow / MIN.yesterday not Err");
        Ok(())
    });
    rec.mark_exhaustive("all 7,304,484 dates -9999-01-01..=9999-12-31");
    for s in [(2024, 2, 29), (-9999, 1, 1), (9999, 12, 31), (0, 3, 1), (1900, 2, 28)] {
        rec.add_sample(json!({"check": check, "date": format!("{:?}", s)}));
    }
}

fn replay_dates(v: Value) -> CaseResult {
    let c: Ymd = serde_json::from_value(v).map_err(|e| Failure::new("decode", e.to_string()))?;
    check_date(c.y, c.m, c.d)
}

// --- constructors ------------------------------------------------------------

fn check_ctor(y: i64, m: i64, d: i64) -> CaseResult {
    let want = (-9999..=9999).contains(&y) && (1..=12).contains(&m) && d >= 1 && d <= rc::days_in_month(y, m);
    let got = Date::new(y as i16, m as i8, d as i8);
    // the const constructor: the same date, or the documented panic
    {
        let (cy, cm, cd) = (y as i16, m as i8, d as i8);
        let c = guard("op", std::panic::AssertUnwindSafe(|| Date::constant(cy, cm, cd))).ok();
        ensure!(c.is_some() == want && c == got.as_ref().ok().copied(), "ctor-constant", "Date::constant({y},{m},{d}) = {c:?} but Date::new = {got:?}");
    }
    match (&got, want) {
        (Ok(dt), true) => {
            ensure!(
                (dt.year() as i64, dt.month() as i64, dt.day() as i64) == (y, m, d),
                "ctor-fields",
                "Date::new({y},{m},{d}) = {dt}"
            );
        }
        (Err(_), false) => {}
        (Ok(dt), false) => fail!("ctor-accepts-invalid", "Date::new({y},{m},{d}) = Ok({dt})"),
        (Err(e), true) => fail!("ctor-rejects-valid", "Date::new({y},{m},{d}) = Err({e})"),
    }
    Ok(())
}

fn run_ctor(rec: &Recorder, check: &'static str) {
    let years: Vec<i64> = (-10001..=10001).collect();
    par_chunks(rec.opts.threads, years.len() as u64, |r| {
        let mut evals = 0u64;
        let mut invalid = 0u64;
        for i in r {
            let y = years[i as usize];
            for m in -1..=14 {
                for d in -1..=33 {
                    evals += 1;
                    let valid = (-9999..=9999).contains(&y) && (1..=12).contains(&m) && d >= 1 && d <= rc::days_in_month(y, m);
                    if !valid {
                        invalid += 1;
                    }
                    sweep_case(rec, check, &Ymd { y, m, d }, || check_ctor(y, m, d));
                }
            }
        }
        rec.add_evaluations(evals);
        rec.add_distinct_nontrivial(invalid);
        rec.add_class("ctor:triples", evals);
        rec.add_class("ctor:invalid", invalid);
    });
    // i16/i8 extremes
    for (y, m, d) in [(i16::MIN, 1, 1), (i16::MAX, 1, 1), (2000, i8::MIN, 1), (2000, i8::MAX, 1), (2000, 1, i8::MIN), (2000, 1, i8::MAX)] {
        sweep_case(rec, check, &Ymd { y: y as i64, m: m as i64, d: d as i64 }, || {
            ensure!(Date::new(y, m, d).is_err(), "ctor-accepts-invalid", "Date::new({y},{m},{d}) accepted");
            Ok(())
        });
    }
    rec.mark_exhaustive("all (y,m,d) with y in -10001..=10001, m in -1..=14, d in -1..=33");
    rec.add_sample(json!({"check": check, "triple": [1900, 2, 29], "expect": "Err"}));
}

/// The const constructors in the release build (no debug assertions): the documented panic
/// for every invalid triple, the same date otherwise. Evaluated by a child process running the
/// `rel` build of this harness (see relbuild.rs).
fn check_ctor_release(cases: &[(i64, i64, i64)]) -> Vec<(Ymd, CaseResult)> {
    let lines: Vec<String> = cases.iter().map(|(y, m, d)| format!("D {y} {m} {d}")).collect();
    let answers = crate::relbuild::ask(&lines);
    cases
        .iter()
        .enumerate()
        .map(|(i, &(y, m, d))| {
            let case = Ymd { y, m, d };
            let r = (|| -> CaseResult {
                let ans = match &answers {
                    Ok(v) => v[i].clone(),
                    Err(e) => fail!("HARNESS-PANIC", "release-build child: {e}"),
                };
                let valid = (-9999..=9999).contains(&y) && (1..=12).contains(&m) && d >= 1 && d <= rc::days_in_month(y, m);
                if valid {
                    ensure!(ans == format!("OK {y} {m} {d}"), "ctor-constant-release", "release build: Date::constant({y},{m},{d}) -> {ans:?}, want the date itself");
                } else {
                    ensure!(ans == "PANIC", "ctor-constant-release-accepts-invalid", "release build: Date::constant({y},{m},{d}) -> {ans:?}, but the triple is not a date (documented: panics)");
                }
                Ok(())
            })();
            (case, r)
        })
        .collect()
}

fn run_ctor_release(rec: &Recorder, check: &'static str) {
    if crate::relbuild::rel_bin().is_none() {
        rec.health_error(format!("{check}: JV_REL_BIN is not set or missing (the ./check driver builds the `rel` profile and sets it)"));
        return;
    }
    let years: Vec<i64> = vec![-9999, -9998, -400, -1, 0, 1, 4, 100, 1582, 1600, 1900, 1969, 1970, 2000, 2023, 2024, 2100, 9998, 9999];
    par_chunks(rec.opts.threads, years.len() as u64, |r| {
        let mut evals = 0u64;
        let mut invalid = 0u64;
        for i in r {
            let y = years[i as usize];
            let mut batch = vec![];
            for m in (-2i64..=15).chain([i8::MIN as i64, i8::MAX as i64]) {
                for d in i8::MIN as i64..=i8::MAX as i64 {
                    batch.push((y, m, d));
                }
            }
            for (case, r) in check_ctor_release(&batch) {
                evals += 1;
                let valid = (1..=12).contains(&case.m) && case.d >= 1 && case.d <= rc::days_in_month(case.y, case.m);
                if !valid {
                    invalid += 1;
                }
                sweep_case(rec, check, &case, || r);
            }
        }
        rec.add_evaluations(evals);
        rec.add_distinct_nontrivial(invalid);
        rec.add_class("ctor-release:triples", evals);
        rec.add_class("ctor-release:invalid", invalid);
    });
    // years outside the range, with an otherwise valid month and day
    let outside: Vec<(i64, i64, i64)> = [i16::MIN as i64, -10000, 10000, i16::MAX as i64].iter().flat_map(|&y| [(y, 1, 1), (y, 12, 31), (y, 2, 29)]).collect();
    for (case, r) in check_ctor_release(&outside) {
        sweep_case(rec, check, &case, || r);
    }
    rec.add_sample(json!({"check": check, "triple": [2024, 1, 0], "build": "release", "expect": "panic"}));
}

fn replay_ctor_release(v: Value) -> CaseResult {
    let c: Ymd = serde_json::from_value(v).map_err(|e| Failure::new("decode", e.to_string()))?;
    check_ctor_release(&[(c.y, c.m, c.d)]).pop().map(|x| x.1).unwrap_or(Ok(()))
}

fn replay_ctor(v: Value) -> CaseResult {
    let c: Ymd = serde_json::from_value(v).map_err(|e| Failure::new("decode", e.to_string()))?;
    check_ctor(c.y, c.m, c.d)
}

// --- nth weekday of month ------------------------------------------------------

#[derive(Serialize, Deserialize, Debug, Clone)]
struct NthOfMonth {
    y: i64,
    m: i64,
    d: i64,
    nth: i64,
    wd: i64,
}

fn check_nth_of_month(c: &NthOfMonth) -> CaseResult {
    let date = Date::new(c.y as i16, c.m as i8, c.d as i8).unwrap();
    let dim = rc::days_in_month(c.y, c.m);
    let first = rc::to_days(c.y, c.m, 1);
    // linear scan
    let mut hits = vec![];
    for dd in 0..dim {
        if rc::weekday_mon0(first + dd) == c.wd {
            hits.push(dd + 1);
        }
    }
    let want: Option<i64> = if c.nth > 0 {
        hits.get((c.nth - 1) as usize).copied()
    } else if c.nth < 0 {
        let k = (-c.nth) as usize;
        if k <= hits.len() {
            Some(hits[hits.len() - k])
        } else {
            None
        }
    } else {
        None
    };
    let got = date.nth_weekday_of_month(c.nth as i8, wd_from_mon0(c.wd));
    let got_d = got.as_ref().ok().map(|g| {
        if (g.year() as i64, g.month() as i64) != (c.y, c.m) {
            -1
        } else {
            g.day() as i64
        }
    });
    ensure!(got_d == want, "nth-weekday-of-month", "{date}.nth_weekday_of_month({}, mon0={}) = {got:?} want day {want:?}", c.nth, c.wd);
    Ok(())
}

fn run_nth_of_month(rec: &Recorder, check: &'static str) {
    // every month of every year
    let years: Vec<i64> = (-9999..=9999).collect();
    par_chunks(rec.opts.threads, years.len() as u64, |r| {
        let mut evals = 0u64;
        let mut nt = 0u64;
        for i in r {
            let y = years[i as usize];
            for m in 1..=12 {
                // the receiver's day must not matter: use three different days
                for d in [1, 15, rc::days_in_month(y, m)] {
                    for nth in -7..=7 {
                        for wd in 0..7 {
                            let c = NthOfMonth { y, m, d, nth, wd };
                            evals += 1;
                            if nth.abs() >= 4 || nth == 0 {
                                nt += 1;
                            }
                            sweep_case(rec, check, &c, || check_nth_of_month(&c));
                        }
                    }
                }
            }
        }
        rec.add_evaluations(evals);
        rec.add_distinct_nontrivial(nt);
        rec.add_class("nth-of-month:cases", evals);
    });
    for nth in [i8::MIN, i8::MAX, -6, 6] {
        let c = NthOfMonth { y: 2024, m: 3, d: 1, nth: nth as i64, wd: 0 };
        sweep_case(rec, check, &c, || check_nth_of_month(&c));
    }
    rec.mark_exhaustive("nth_weekday_of_month: every month x 3 receiver days x nth in -7..=7 x 7 weekdays");
    rec.add_sample(json!({"check": check, "case": {"y": 2024, "m": 3, "nth": -5, "wd": "Monday"}, "expect": "Err"}));
}

fn replay_nth_of_month(v: Value) -> CaseResult {
    let c: NthOfMonth = serde_json::from_value(v).map_err(|e| Failure::new("decode", e.to_string()))?;
    check_nth_of_month(&c)
}

// --- nth weekday (relative to a date), generated ------------------------------

#[derive(Serialize, Deserialize, Debug, Clone)]
struct Nth {
    ymd: (i16, i8, i8),
    nth: i32,
    wd: i8,
}

fn test_nth(c: &Nth, cx: &mut Cx) -> CaseResult {
    let (y, m, d) = (c.ymd.0 as i64, c.ymd.1 as i64, c.ymd.2 as i64);
    let date = Date::new(c.ymd.0, c.ymd.1, c.ymd.2).unwrap();
    let dn = rc::to_days(y, m, d);
    let wd = c.wd as i64;
    // by definition: the nth occurrence of wd strictly after (nth>0) or
    // strictly before (nth<0) the date; 0 is an error.
    let want: Option<i64> = if c.nth == 0 {
        None
    } else if c.nth > 0 {
        let mut first = dn + 1;
        while rc::weekday_mon0(first) != wd {
            first += 1;
        }
        let t = first as i128 + (c.nth as i128 - 1) * 7;
        if t <= rc::DAY_MAX as i128 {
            Some(t as i64)
        } else {
            None
        }
    } else {
        let mut first = dn - 1;
        while rc::weekday_mon0(first) != wd {
            first -= 1;
        }
        let t = first as i128 + (c.nth as i128 + 1) * 7;
        if t >= rc::DAY_MIN as i128 {
            Some(t as i64)
        } else {
            None
        }
    };
    let got = date.nth_weekday(c.nth, wd_from_mon0(wd));
    let got_dn = got.as_ref().ok().map(|g| rc::to_days(g.year() as i64, g.month() as i64, g.day() as i64));
    cx.nt_if(want.is_none() || c.nth.abs() > 1 || dn < rc::DAY_MIN + 14 || dn > rc::DAY_MAX - 14);
    cx.class_if(want.is_none(), "err-expected");
    ensure!(got_dn == want, "nth-weekday", "{date}.nth_weekday({}, mon0={wd}) = {got:?} want day number {want:?}", c.nth);
    Ok(())
}

fn strat_nth() -> BoxedStrategy<Nth> {
    let nth = prop_oneof![
        3 => -5i32..=5,
        2 => crate::gen::biased(i32::MIN as i64, i32::MAX as i64).prop_map(|v| v as i32),
        2 => -1_100_000i32..=1_100_000,
    ];
    (crate::gen::ymd(), nth, 0i8..7).prop_map(|(ymd, nth, wd)| Nth { ymd, nth, wd }).boxed()
}

// --- ISO week date constructor --------------------------------------------------

#[derive(Serialize, Deserialize, Debug, Clone)]
struct IsoTriple {
    y: i64,
    w: i64,
    wd: i64,
}

fn check_iso(c: &IsoTriple) -> CaseResult {
    let valid_year = (-10000..=10000).contains(&c.y);
    let want: Option<i64> = if valid_year && c.w >= 1 && c.w <= rc::iso_weeks_in_year(c.y) {
        let dn = rc::iso_to_days(c.y, c.w, c.wd);
        if (rc::DAY_MIN..=rc::DAY_MAX).contains(&dn) {
            Some(dn)
        } else {
            None
        }
    } else {
        None
    };
    let got = ISOWeekDate::new(c.y as i16, c.w as i8, wd_from_mon0(c.wd));
    match (&got, want) {
        (Ok(iso), Some(dn)) => {
            let g = iso.date();
            let gdn = rc::to_days(g.year() as i64, g.month() as i64, g.day() as i64);
            ensure!(gdn == dn, "iso-new-date", "ISOWeekDate::new({},{},{}) -> {g} want day {dn}", c.y, c.w, c.wd);
            ensure!(
                (iso.year() as i64, iso.week() as i64, iso.weekday().to_monday_zero_offset() as i64) == (c.y, c.w, c.wd),
                "iso-new-fields",
                "ISOWeekDate::new fields differ: {iso:?}"
            );
            ensure!(g.iso_week_date() == *iso, "iso-new-roundtrip", "{iso:?}.date().iso_week_date() = {:?}", g.iso_week_date());
        }
        (Err(_), None) => {}
        (Ok(iso), None) => fail!("iso-new-accepts-invalid", "ISOWeekDate::new({},{},{}) = Ok({iso:?})", c.y, c.w, c.wd),
        (Err(e), Some(_)) => fail!("iso-new-rejects-valid", "ISOWeekDate::new({},{},{}) = Err({e})", c.y, c.w, c.wd),
    }
    Ok(())
}

fn run_iso(rec: &Recorder, check: &'static str) {
    let years: Vec<i64> = (-10001..=10001).collect();
    par_chunks(rec.opts.threads, years.len() as u64, |r| {
        let mut evals = 0u64;
        let mut nt = 0u64;
        for i in r {
            let y = years[i as usize];
            for w in -1..=55 {
                for wd in 0..7 {
                    let c = IsoTriple { y, w, wd };
                    evals += 1;
                    if w >= 52 || w <= 1 || y.abs() >= 9999 {
                        nt += 1;
                    }
                    sweep_case(rec, check, &c, || check_iso(&c));
                }
            }
        }
        rec.add_evaluations(evals);
        rec.add_distinct_nontrivial(nt);
        rec.add_class("iso-new:triples", evals);
    });
    rec.mark_exhaustive("all ISO (year -10001..=10001, week -1..=55, weekday) triples");
    rec.add_sample(json!({"check": check, "case": {"y": 9999, "w": 52, "wd": "Saturday"}, "expect": "Err"}));
}

fn replay_iso(v: Value) -> CaseResult {
    let c: IsoTriple = serde_json::from_value(v).map_err(|e| Failure::new("decode", e.to_string()))?;
    check_iso(&c)
}

pub fn property() -> Property {
    Property {
        id: "C01",
        level: "exploration",
        rule: "Exhaustive enumeration of all 7,304,484 valid dates (every date is a distinct case; each is compared against a walked month-length-table calendar on 14 facts), of all constructor triples in a superset box, of all ISO week triples, of nth_weekday_of_month for every month x nth in -7..=7 x weekday, plus proptest-generated nth_weekday cases. distinct_nontrivial counts: every date; invalid constructor triples; ISO triples in week<=1/>=52 or limit years; nth cases with |nth|>=4 or 0; nth_weekday cases that are errors, multi-week jumps or within 14 days of a range end.",
        assumptions: &["the reference calendar (refcal.rs: year table built by walking from 1970-01-01 = day 0 = Thursday with the textbook leap rule) is correct; it is self-tested against independent known facts at start-up"],
        checks: vec![
            Box::new(Sweep { name: "c01.dates", run: run_dates, replay: replay_dates }),
            Box::new(Sweep { name: "c01.ctor", run: run_ctor, replay: replay_ctor }),
            Box::new(Sweep { name: "c01.ctor_release", run: run_ctor_release, replay: replay_ctor_release }),
            Box::new(Sweep { name: "c01.nth_of_month", run: run_nth_of_month, replay: replay_nth_of_month }),
            Box::new(Prop { name: "c01.nth_weekday", quick: 400_000, thorough: 20_000_000, strategy: strat_nth, test: test_nth }),
            Box::new(Sweep { name: "c01.iso_new", run: run_iso, replay: replay_iso }),
        ],
        floors: |rec| {
            rec.floor("c01.nth_weekday:err-expected", "c01.nth_weekday:cases", 0.05);
        },
    }
}
