//! C10 Rounding a datetime yields the correct multiple of the increment for every mode.

use jiff::civil::{DateTime, Time};
use jiff::tz::Offset;
use jiff::{SignedDuration, SignedDurationRound, Timestamp, TimestampRound, Unit, ZonedRound};
use jiff::civil::{DateTimeRound, TimeRound};
use jiff::tz::OffsetRound;
use proptest::prelude::*;
use serde::{Deserialize, Serialize};

use crate::engine::*;
use crate::gen::{self, UNIT_NS};
use crate::props::c03::{strat_zone_probe, ZoneProbe};
use crate::props::c06::zone_universe;
use crate::props::c07::UNITS;
use crate::refmodel::refcal as rc;
use crate::refmodel::refzoned as rz;
use crate::refmodel::wide::*;
use crate::{ensure, fail};

/// Build a rounding configuration with the three setters applied in one of the six possible
/// orders (chosen from the case itself): the result must not depend on the order.
macro_rules! build_round {
    ($ty:ty, $unit:expr, $mode:expr, $inc:expr) => {{
        let (u, m, i) = ($unit, $mode, $inc);
        let order = ((i as u64).wrapping_mul(31) ^ (u as u64).wrapping_mul(7) ^ (m as u64)) % 6;
        let b = <$ty>::new();
        match order {
            0 => b.smallest(u).mode(m).increment(i),
            1 => b.smallest(u).increment(i).mode(m),
            2 => b.mode(m).smallest(u).increment(i),
            3 => b.mode(m).increment(i).smallest(u),
            4 => b.increment(i).smallest(u).mode(m),
            _ => b.increment(i).mode(m).smallest(u),
        }
    }};
}

/// the `From<Unit>` / `From<(Unit, i64)>` shorthands are the builder with its defaults
/// (increment 1, half-expand)
fn forms_agree<T: PartialEq, E>(a: Result<T, E>, b: Result<T, E>) -> bool {
    match (a, b) {
        (Ok(x), Ok(y)) => x == y,
        (Err(_), Err(_)) => true,
        _ => false,
    }
}

macro_rules! check_forms {
    ($v:expr, $ty:ty, $unit:expr, $inc:expr, $ctx:expr) => {{
        let (u, i) = ($unit, $inc);
        ensure!(forms_agree($v.round(u), $v.round(<$ty>::new().smallest(u))), "round-shorthand-differs", "{}: round(unit) differs from the builder with default increment and mode", $ctx);
        ensure!(forms_agree($v.round((u, i)), $v.round(<$ty>::new().smallest(u).increment(i))), "round-shorthand-differs", "{}: round((unit, increment)) differs from the builder with the default mode", $ctx);
        // Default::default() is the same starting point as new()
        ensure!(forms_agree($v.round(<$ty>::default()), $v.round(<$ty>::new())), "round-default-differs", "{}: round(Default::default()) differs from round(new())", $ctx);
        ensure!(forms_agree($v.round(<$ty>::default().increment(i)), $v.round(<$ty>::new().increment(i))) && forms_agree($v.round(<$ty>::default().smallest(u).increment(i)), $v.round(<$ty>::new().smallest(u).increment(i))), "round-default-differs", "{}: a builder started from Default::default() differs from one started from new() (increment {i})", $ctx);
    }};
}

/// units per next-larger unit, for Hour..Nanosecond (index 4..=9)
fn next_unit_count(unit: usize) -> i64 {
    match unit {
        4 => 24,
        5 | 6 => 60,
        _ => 1000,
    }
}

fn units_per_day(unit: usize) -> i128 {
    NS_PER_DAY / UNIT_NS[unit]
}

fn strat_mode() -> BoxedStrategy<Mode> {
    proptest::sample::select(MODES.to_vec()).boxed()
}

/// (unit index 3..=9 mostly, increment) with legal and illegal increments.
fn strat_unit_inc(units: &'static [usize]) -> BoxedStrategy<(usize, i64)> {
    proptest::sample::select(units.to_vec())
        .prop_flat_map(|u| {
            let n = if u >= 4 { next_unit_count(u) } else { 2 };
            let divisors: Vec<i64> = (1..n).filter(|d| n % d == 0).collect();
            let day_divisors: Vec<i64> = if u >= 4 {
                let per_day = units_per_day(u);
                [1i128, 2, 3, 4, 5, 6, 8, 10, 12, 15, 20, 24, 30, 60, 90, 120, 360, 1000, 1440, 3600, 86400, 43200, 21600, 1_000_000, 86_400_000, 43_200_000_000, 86_400_000_000_000]
                    .iter()
                    .filter(|&&d| d <= per_day && per_day % d == 0)
                    .map(|&d| d as i64)
                    .collect()
            } else {
                vec![1]
            };
            let illegal = vec![0i64, -1, i64::MIN, i64::MAX, n, 7, 11, 13, 17, 999, 2 * n, -n];
            (
                Just(u),
                prop_oneof![
                    5 => proptest::sample::select(divisors),
                    2 => proptest::sample::select(day_divisors),
                    2 => proptest::sample::select(illegal),
                    1 => 1i64..=2000,
                ],
            )
        })
        .boxed()
}

#[derive(Serialize, Deserialize, Debug, Clone, Copy)]
struct Grid {
    kmode: u8,
    kraw: u64,
    pmode: u8,
    praw: u64,
}

fn strat_grid() -> BoxedStrategy<Grid> {
    (0u8..12, any::<u64>(), 0u8..10, any::<u64>()).prop_map(|(kmode, kraw, pmode, praw)| Grid { kmode, kraw, pmode, praw }).boxed()
}

/// floor(a * b / 2^64) without overflowing u128 (b < 2^100 here)
fn mul_shift64(a: u64, b: u128) -> u128 {
    let (hi, lo) = (b >> 64, b & u64::MAX as u128);
    a as u128 * hi + ((a as u128 * lo) >> 64)
}

/// A value in [lo, hi] placed relative to the grid of step g.
fn grid_value(lo: i128, hi: i128, g: i128, gr: Grid) -> i128 {
    let g = g.max(1);
    let kmin = lo.div_euclid(g);
    let kmax = hi.div_euclid(g);
    let k = match gr.kmode {
        0 => kmin,
        1 => kmax,
        2 => kmin + 1,
        3 => kmax - 1,
        4 => 0,
        5 => -1,
        6 => 1,
        _ => {
            // kmin + floor(kraw * span / 2^64) without overflowing u128
            let span = (kmax - kmin + 1) as u128;
            kmin + mul_shift64(gr.kraw, span) as i128
        }
    }
    .clamp(kmin, kmax);
    let half = g / 2;
    let pos = match gr.pmode {
        0 => 0,
        1 => 1,
        2 => -1,
        3 => half,
        4 => half + 1,
        5 => half - 1,
        6 => g - 1,
        _ => mul_shift64(gr.praw, g as u128) as i128,
    };
    k.checked_mul(g).and_then(|v| v.checked_add(pos)).unwrap_or(lo).clamp(lo, hi)
}

fn classify(cx: &mut Cx, x: i128, g: i128, extra_nt: bool) {
    if g <= 0 {
        cx.class("illegal-increment");
        cx.nt();
        return;
    }
    let r = x.rem_euclid(g);
    let on_grid = r == 0;
    let tie = 2 * r == g;
    let near = r <= 1 || g - r <= 1 || (2 * r - g).abs() <= 2;
    cx.class_if(on_grid, "on-grid");
    cx.class_if(tie, "tie");
    cx.class_if(x < 0, "negative");
    cx.nt_if(!on_grid && (tie || near || x < 0 || extra_nt));
}

// --- Timestamp -------------------------------------------------------------------------------

#[derive(Serialize, Deserialize, Debug, Clone)]
struct TsCase {
    unit: usize,
    inc: i64,
    mode: Mode,
    grid: Grid,
}

fn test_timestamp(c: &TsCase, cx: &mut Cx) -> CaseResult {
    let legal = c.unit >= 4 && c.inc > 0 && (c.inc as i128) <= units_per_day(c.unit) && units_per_day(c.unit) % c.inc as i128 == 0;
    let g = if c.unit >= 4 { UNIT_NS[c.unit].saturating_mul(c.inc.max(1) as i128) } else { NS_PER_DAY };
    let x = grid_value(TS_MIN_NS, TS_MAX_NS, if legal { g } else { UNIT_NS[c.unit.max(4)] }, c.grid);
    let ts = gen::mk_ts(x);
    let got = ts.round(build_round!(TimestampRound, UNITS[c.unit], c.mode.to_jiff(), c.inc));
    let ctx = format!("{ts}.round({:?}, inc {}, {:?})", UNITS[c.unit], c.inc, c.mode);
    check_forms!(ts, TimestampRound, UNITS[c.unit], c.inc, ctx);
    if !legal {
        cx.class("illegal-increment");
        cx.nt();
        ensure!(got.is_err(), "timestamp-accepts-illegal-increment", "{ctx} = {got:?} but the increment/unit is not allowed");
        return Ok(());
    }
    let want = round_to(x, g, c.mode);
    let in_range = (TS_MIN_NS..=TS_MAX_NS).contains(&want);
    classify(cx, x, g, !in_range);
    cx.class_if(!in_range, "result-out-of-range");
    match got {
        Ok(r) => {
            // observing the value is part of the oracle (out-of-range ranged ints)
            let rn = r.as_nanosecond();
            ensure!(in_range, "timestamp-out-of-range-result", "{ctx} = Ok({rn}ns) but the correct result {want} is outside the Timestamp range");
            ensure!(rn == want, "timestamp-wrong", "{ctx} = {r} ({rn}) want {want}");
            let _ = r.as_second();
            let _ = r.to_string();
        }
        Err(e) => ensure!(!in_range, "timestamp-rejects", "{ctx} = Err({e}) but the result {want} is in range"),
    }
    Ok(())
}

fn strat_ts() -> BoxedStrategy<TsCase> {
    (strat_unit_inc(&[4, 5, 6, 7, 8, 9, 9, 6, 3, 2]), strat_mode(), strat_grid()).prop_map(|((unit, inc), mode, grid)| TsCase { unit, inc, mode, grid }).boxed()
}

// --- Time / DateTime --------------------------------------------------------------------------

#[derive(Serialize, Deserialize, Debug, Clone)]
struct DtCase {
    ymd: (i16, i8, i8),
    unit: usize,
    inc: i64,
    mode: Mode,
    grid: Grid,
}

fn legal_civil(unit: usize, inc: i64) -> bool {
    if unit == 3 {
        inc == 1
    } else if unit >= 4 {
        let n = next_unit_count(unit);
        inc > 0 && inc < n && n % inc == 0
    } else {
        false
    }
}

fn test_time(c: &DtCase, cx: &mut Cx) -> CaseResult {
    let legal = c.unit >= 4 && legal_civil(c.unit, c.inc);
    let g = UNIT_NS[c.unit.max(3)] * c.inc.clamp(1, 100_000) as i128;
    let x = grid_value(0, NS_PER_DAY - 1, if legal { g } else { UNIT_NS[c.unit.max(4)] }, c.grid);
    let t: Time = gen::mk_time(x as i64);
    let got = t.round(build_round!(TimeRound, UNITS[c.unit], c.mode.to_jiff(), c.inc));
    let ctx = format!("{t}.round({:?}, inc {}, {:?})", UNITS[c.unit], c.inc, c.mode);
    check_forms!(t, TimeRound, UNITS[c.unit], c.inc, ctx);
    if !legal {
        cx.class("illegal-increment");
        cx.nt();
        ensure!(got.is_err(), "time-accepts-illegal-increment", "{ctx} = {got:?} but the increment/unit is not allowed");
        return Ok(());
    }
    let want = round_to(x, g, c.mode).rem_euclid(NS_PER_DAY);
    classify(cx, x, g, round_to(x, g, c.mode) >= NS_PER_DAY);
    match got {
        Ok(r) => {
            let rn = r.hour() as i128 * 3600 * NS_PER_SEC + r.minute() as i128 * 60 * NS_PER_SEC + r.second() as i128 * NS_PER_SEC + r.subsec_nanosecond() as i128;
            ensure!(rn == want, "time-wrong", "{ctx} = {r} want tod {want}ns");
        }
        Err(e) => fail!("time-rejects", "{ctx} = Err({e})"),
    }
    Ok(())
}

/// reference DateTime rounding: rounded time of day plus at most one day
/// carried forward, for every year sign; None = out of range
fn ref_round_civil(base: (i64, i64, i64, i128), unit: usize, inc: i64, mode: Mode) -> Option<(i64, i64, i64, i128)> {
    let g = if unit == 3 { NS_PER_DAY } else { UNIT_NS[unit] * inc as i128 };
    let r = round_to(base.3, g, mode);
    let dn = rc::to_days(base.0, base.1, base.2) + if r >= NS_PER_DAY { 1 } else { 0 };
    if dn > rc::DAY_MAX {
        return None;
    }
    let (y, m, d) = rc::from_days(dn);
    Some((y, m, d, r.rem_euclid(NS_PER_DAY)))
}

fn test_datetime(c: &DtCase, cx: &mut Cx) -> CaseResult {
    let legal = legal_civil(c.unit, c.inc);
    let g = if c.unit == 3 { NS_PER_DAY } else { UNIT_NS[c.unit.max(3)] * c.inc.clamp(1, 100_000) as i128 };
    let x = grid_value(0, NS_PER_DAY - 1, if legal { g } else { UNIT_NS[c.unit.max(4)] }, c.grid);
    let dt: DateTime = gen::mk_date(c.ymd.0, c.ymd.1, c.ymd.2).to_datetime(gen::mk_time(x as i64));
    let got = dt.round(build_round!(DateTimeRound, UNITS[c.unit], c.mode.to_jiff(), c.inc));
    let ctx = format!("{dt}.round({:?}, inc {}, {:?})", UNITS[c.unit], c.inc, c.mode);
    check_forms!(dt, DateTimeRound, UNITS[c.unit], c.inc, ctx);
    if !legal {
        cx.class("illegal-increment");
        cx.nt();
        ensure!(got.is_err(), "datetime-accepts-illegal-increment", "{ctx} = {got:?} but the increment/unit is not allowed");
        return Ok(());
    }
    let base = crate::props::c02::dt_fields(dt);
    let want = ref_round_civil(base, c.unit, c.inc, c.mode);
    let carries = round_to(x, g, c.mode) >= NS_PER_DAY;
    classify(cx, x, g, carries || c.ymd.0 <= 0);
    cx.class_if(carries, "day-carry");
    cx.class_if(c.ymd.0 <= 0, "year<=0");
    cx.class_if(carries && c.ymd.0 <= 0, "day-carry-in-year<=0");
    match (got, want) {
        (Ok(r), Some(w)) => ensure!(crate::props::c02::dt_fields(r) == w, "datetime-wrong", "{ctx} = {r} want {w:?}"),
        (Err(_), None) => {}
        (Ok(r), None) => fail!("datetime-out-of-range-result", "{ctx} = Ok({r}) but the result is beyond DateTime::MAX"),
        (Err(e), Some(w)) => fail!("datetime-rejects", "{ctx} = Err({e}) want {w:?}"),
    }
    Ok(())
}

fn strat_dt() -> BoxedStrategy<DtCase> {
    let ymd = prop_oneof![4 => gen::ymd(), 1 => Just((9999i16, 12i8, 31i8)), 1 => Just((0i16, 1i8, 1i8)), 1 => Just((-1i16, 12i8, 31i8)), 1 => Just((-9999i16, 1i8, 1i8)), 2 => (-9999i16..=0, 1i8..=12, 1i8..=28)];
    (ymd, strat_unit_inc(&[3, 4, 5, 6, 7, 8, 9, 4, 5, 2]), strat_mode(), strat_grid()).prop_map(|(ymd, (unit, inc), mode, grid)| DtCase { ymd, unit, inc, mode, grid }).boxed()
}

// --- SignedDuration / Offset -----------------------------------------------------------------------

#[derive(Serialize, Deserialize, Debug, Clone)]
struct DurCase {
    unit: usize,
    inc: i64,
    mode: Mode,
    grid: Grid,
    small: bool,
}

const SD_MAX_NS: i128 = i64::MAX as i128 * NS_PER_SEC + 999_999_999;
const SD_MIN_NS: i128 = i64::MIN as i128 * NS_PER_SEC - 999_999_999;

fn mk_sd(ns: i128) -> SignedDuration {
    SignedDuration::new((ns / NS_PER_SEC) as i64, (ns % NS_PER_SEC) as i32)
}

/// Documented rule for SignedDuration/Offset increments: must divide the
/// next highest unit and not equal it. Some(true/false) = definitely
/// legal/illegal, None = the docs do not settle it (hour increments).
fn legal_duration(unit: usize, inc: i64) -> Option<bool> {
    if inc <= 0 {
        return Some(false);
    }
    if unit < 4 {
        return Some(false);
    }
    if unit == 4 {
        return if inc == 1 { Some(true) } else { None };
    }
    let n = next_unit_count(unit);
    Some(inc < n && n % inc == 0)
}

fn test_duration(c: &DurCase, cx: &mut Cx) -> CaseResult {
    let legal = legal_duration(c.unit, c.inc);
    let g = UNIT_NS[c.unit.max(4)].saturating_mul(c.inc.max(1) as i128);
    let (lo, hi) = if c.small { (-400_000 * NS_PER_SEC, 400_000 * NS_PER_SEC) } else { (SD_MIN_NS, SD_MAX_NS) };
    let x = grid_value(lo, hi, if legal != Some(false) { g } else { UNIT_NS[c.unit.max(4)] }, c.grid);
    let d = mk_sd(x);
    let got = d.round(build_round!(SignedDurationRound, UNITS[c.unit], c.mode.to_jiff(), c.inc));
    let ctx = format!("{d:?}.round({:?}, inc {}, {:?})", UNITS[c.unit], c.inc, c.mode);
    check_forms!(d, SignedDurationRound, UNITS[c.unit], c.inc, ctx);
    match legal {
        Some(false) => {
            cx.class("illegal-increment");
            cx.nt();
            ensure!(got.is_err(), "duration-accepts-illegal-increment", "{ctx} = {got:?} but the documented rule (increment > 0, divides the next unit, not equal to it) forbids it");
            return Ok(());
        }
        None => {
            cx.tolerate("hour-increment-undocumented");
            if got.is_err() {
                return Ok(());
            }
        }
        Some(true) => {}
    }
    let want = round_to(x, g, c.mode);
    let in_range = (SD_MIN_NS..=SD_MAX_NS).contains(&want);
    classify(cx, x, g, !in_range);
    match got {
        Ok(r) => {
            ensure!(in_range, "duration-out-of-range-result", "{ctx} = Ok({r:?})");
            ensure!(r.as_nanos() == want, "duration-wrong", "{ctx} = {r:?} ({}) want {want}", r.as_nanos());
        }
        Err(e) => ensure!(!in_range, "duration-rejects", "{ctx} = Err({e}) want {want}"),
    }
    Ok(())
}

fn strat_dur() -> BoxedStrategy<DurCase> {
    (strat_unit_inc(&[4, 5, 6, 7, 8, 9, 5, 6, 3]), strat_mode(), strat_grid(), any::<bool>()).prop_map(|((unit, inc), mode, grid, small)| DurCase { unit, inc, mode, grid, small }).boxed()
}

fn test_offset(c: &DurCase, cx: &mut Cx) -> CaseResult {
    // units: hour, minute, second only
    let unit_ok = (4..=6).contains(&c.unit);
    let legal = if unit_ok { legal_duration(c.unit, c.inc) } else { Some(false) };
    let g = UNIT_NS[c.unit.max(4)].saturating_mul(c.inc.max(1) as i128);
    let xs = grid_value(-93599, 93599, if legal != Some(false) { (g / NS_PER_SEC).max(1) } else { 1 }, c.grid);
    let x = xs * NS_PER_SEC;
    let o = Offset::from_seconds(xs as i32).unwrap();
    let got = o.round(build_round!(OffsetRound, UNITS[c.unit], c.mode.to_jiff(), c.inc));
    let ctx = format!("Offset({xs}s).round({:?}, inc {}, {:?})", UNITS[c.unit], c.inc, c.mode);
    check_forms!(o, OffsetRound, UNITS[c.unit], c.inc, ctx);
    match legal {
        Some(false) => {
            cx.class("illegal-increment");
            cx.nt();
            ensure!(got.is_err(), "offset-accepts-illegal-increment", "{ctx} = {got:?} but the unit/increment is not allowed by the documented rule");
            return Ok(());
        }
        None => {
            cx.tolerate("hour-increment-undocumented");
            if got.is_err() {
                return Ok(());
            }
        }
        Some(true) => {}
    }
    let want = round_to(x, g, c.mode);
    let in_range = want.abs() <= 93599 * NS_PER_SEC;
    classify(cx, x, g, !in_range);
    match got {
        Ok(r) => {
            ensure!(in_range, "offset-out-of-range-result", "{ctx} = Ok({r})");
            ensure!(r.seconds() as i128 * NS_PER_SEC == want, "offset-wrong", "{ctx} = {r} ({}s) want {want}ns", r.seconds());
        }
        Err(e) => ensure!(!in_range, "offset-rejects", "{ctx} = Err({e}) want {want}"),
    }
    Ok(())
}

// --- Zoned ------------------------------------------------------------------------------------------

#[derive(Serialize, Deserialize, Debug, Clone)]
struct ZCase {
    probe: ZoneProbe,
    unit: usize,
    inc: i64,
    mode: Mode,
    /// when set, re-place the instant on the rounding grid of its civil day
    regrid: Option<Grid>,
}

fn test_zoned(c: &ZCase, cx: &mut Cx) -> CaseResult {
    let (z, mut ns) = crate::props::c03::resolve_probe(zone_universe(), &c.probe);
    let legal = legal_civil(c.unit, c.inc);
    let g = if c.unit == 3 { NS_PER_DAY } else { UNIT_NS[c.unit.max(3)] * c.inc.clamp(1, 100_000) as i128 };
    if let (Some(gr), true) = (c.regrid, legal && c.unit >= 4) {
        // move to a grid-relative position of the same local day, then back to an instant
        let (loc, off) = rz::local_of(&z.rz, ns);
        let day0 = loc.div_euclid(NS_PER_DAY) * NS_PER_DAY;
        let tod = grid_value(0, NS_PER_DAY - 1, g, gr);
        let cand = day0 + tod - off as i128 * NS_PER_SEC;
        if rz::in_ts_range(cand) {
            ns = cand;
        }
    }
    let zdt = crate::props::c06::mk_zoned(&z, ns);
    let got = zdt.round(build_round!(ZonedRound, UNITS[c.unit], c.mode.to_jiff(), c.inc));
    let ctx = format!("[{}] {zdt}.round({:?}, inc {}, {:?})", z.label, UNITS[c.unit], c.inc, c.mode);
    check_forms!(zdt, ZonedRound, UNITS[c.unit], c.inc, ctx);
    if !legal {
        cx.class("illegal-increment");
        cx.nt();
        ensure!(got.is_err(), "zoned-accepts-illegal-increment", "{ctx} = {:?} but the increment/unit is not allowed", got.as_ref().map(|x| x.to_string()));
        return Ok(());
    }
    let (loc, off) = rz::local_of(&z.rz, ns);
    let want: Option<i128> = if c.unit == 3 {
        // start of this civil day or of the next, by the mode applied to
        // elapsed/length of the day's real length
        let day = loc.div_euclid(NS_PER_DAY) as i64;
        let Some((first, last, contiguous)) = rz::day_bounds_ex(&z.rz, day) else { fail!("harness-day-bounds", "{ctx}: no bounds") };
        if !contiguous {
            // a fold straddling midnight splits the civil day in two ranges
            // ("that day's real length" is not well defined): not judged
            cx.tolerate("non-contiguous-civil-day");
            return Ok(());
        }
        let next = last + 1;
        if !rz::in_ts_range(first) || !rz::in_ts_range(next) {
            // the first and the last civil day of the supported range: the day begins before
            // Timestamp::MIN (ends after Timestamp::MAX), so "the elapsed fraction of that day's
            // real length" is not computable inside the type. jiff refuses (documented: an error
            // when the start of the day cannot be found); not judged.
            cx.tolerate("civil-day-bounds-outside-the-timestamp-range");
            return Ok(());
        }
        let len = next - first;
        cx.class_if(len != NS_PER_DAY, "day-length!=24h");
        cx.nt_if(len != NS_PER_DAY);
        let r = round_to(ns - first, len, c.mode);
        classify(cx, ns - first, len, false);
        // jiff computes "start of next day" as start_of_day of (date + 1);
        // if that civil day does not exist (skipped day) the real next
        // start is `next` as well.
        Some(first + r)
    } else {
        let base = rz::civil_parts(loc);
        classify(cx, base.3, g, false);
        match ref_round_civil(base, c.unit, c.inc, c.mode) {
            None => None,
            Some(w) => {
                let c2 = rz::civil_ns(w);
                // keep the original offset when it is still valid for the rounded civil time
                let keep = c2 - off as i128 * NS_PER_SEC;
                let keep_valid = z.rz.lookup(keep.div_euclid(NS_PER_SEC) as i64).off == off;
                cx.class_if(!keep_valid, "offset-no-longer-valid");
                cx.nt_if(!keep_valid);
                if keep_valid {
                    Some(keep)
                } else {
                    match rz::compatible(&z.rz, c2) {
                        Ok(t) => Some(t),
                        Err(w) => {
                            cx.tolerate(w);
                            return Ok(());
                        }
                    }
                }
            }
        }
    };
    let want = want.filter(|w| rz::in_ts_range(*w));
    cx.class_if(want.is_none(), "result-out-of-range");
    // Day rounding is built on start_of_day (of this and of the next civil
    // day). When one of those midnights lies inside a gap that began before
    // midnight, the listed C06 finding (start_of_day) shows through here;
    // such cases get their own signature.
    let odd = |day: i64| -> bool {
        use crate::refmodel::reftz::Civil;
        let c0 = day as i128 * NS_PER_DAY;
        matches!(z.rz.resolve(c0.div_euclid(NS_PER_SEC) as i64), Civil::Gap(..)) && matches!(z.rz.resolve((c0 - NS_PER_SEC).div_euclid(NS_PER_SEC) as i64), Civil::Gap(..))
    };
    let day = loc.div_euclid(NS_PER_DAY) as i64;
    let tag = if c.unit == 3 && (odd(day) || odd(day + 1)) { ":midnight-inside-gap-that-began-before-midnight" } else { "" };
    match (got, want) {
        (Ok(r), Some(w)) if !tag.is_empty() => {
            if r.timestamp().as_nanosecond() != w {
                cx.soft_fail(format!("zoned-wrong{tag}"), format!("{ctx} = {r} want {w}"));
            }
        }
        (Err(e), Some(w)) if !tag.is_empty() => {
            cx.soft_fail(format!("zoned-wrong{tag}"), format!("{ctx} = Err({e}) want {w}"));
        }
        (Ok(r), Some(w)) => {
            ensure!(r.timestamp().as_nanosecond() == w, "zoned-wrong", "{ctx} = {r} ({}) want {w} = {}", r.timestamp().as_nanosecond(), gen::mk_ts(w));
            ensure!(r.time_zone() == &z.tz, "zoned-zone-changed", "{ctx}: zone changed");
        }
        (Err(_), None) => {}
        (Ok(r), None) => fail!("zoned-out-of-range-result", "{ctx} = Ok({r}) but the result is out of range"),
        (Err(e), Some(w)) => fail!("zoned-rejects", "{ctx} = Err({e}) want {w} = {}", gen::mk_ts(w)),
    }
    Ok(())
}

fn strat_zoned() -> BoxedStrategy<ZCase> {
    (strat_zone_probe(), strat_unit_inc(&[3, 3, 4, 5, 6, 7, 8, 9, 4, 5, 2]), strat_mode(), prop::option::weighted(0.5, strat_grid()))
        .prop_map(|(probe, (unit, inc), mode, regrid)| ZCase { probe, unit, inc, mode, regrid })
        .boxed()
}

pub fn property() -> Property {
    let _ = Unit::Day;
    Property {
        id: "C10",
        level: "exploration",
        rule: "proptest: value x unit x 9 modes x increment (all divisors of the next unit, day divisors for Timestamp, and illegal ones: 0, negative, i64 extremes, non-divisors, equal to the next unit) with values built relative to the rounding grid: k*inc*unit + {0, +-1ns, half, half+-1ns, cell end, random} for k at the type limits, around zero and uniform; types Timestamp, Time, DateTime (years <= 0 over-weighted), SignedDuration, Offset, Zoned (instants around every zone's transitions, optionally re-placed on the grid of their civil day; Unit::Day on real day lengths). Oracle: exact integer rounding of the nine modes from their definitions (wide.rs), DateTime = rounded time of day + at most one day forward, Zoned sub-day = civil rounding then keep-offset-if-still-valid else compatible, Zoned day = mode applied to elapsed/length between the reference first instants of this and the next civil day; out-of-range => Err. Non-trivial: off-grid and (tie, within 1ns of tie/grid, negative, day carry, year <= 0, DST day, offset no longer valid, out-of-range outcome) or an illegal increment.",
        assumptions: &[
            "SignedDuration/Offset: rustdoc promises 'divides the next highest unit and is not equal to it' - hour increments other than 1 are not settled by the docs: either outcome accepted (counted)",
            "reftz.rs/refcal.rs for Zoned",
        ],
        checks: vec![
            Box::new(Prop { name: "c10.timestamp", quick: 4_000_000, thorough: 40_000_000, strategy: strat_ts, test: test_timestamp }),
            Box::new(Prop { name: "c10.time", quick: 2_400_000, thorough: 20_000_000, strategy: strat_dt, test: test_time }),
            Box::new(Prop { name: "c10.datetime", quick: 4_000_000, thorough: 40_000_000, strategy: strat_dt, test: test_datetime }),
            Box::new(Prop { name: "c10.duration", quick: 4_000_000, thorough: 40_000_000, strategy: strat_dur, test: test_duration }),
            Box::new(Prop { name: "c10.offset", quick: 1_600_000, thorough: 10_000_000, strategy: strat_dur, test: test_offset }),
            Box::new(Prop { name: "c10.zoned", quick: 4_000_000, thorough: 30_000_000, strategy: strat_zoned, test: test_zoned }),
        ],
        floors: |rec| {
            rec.floor("c10.timestamp:tie", "c10.timestamp:cases", 0.05);
            rec.floor("c10.datetime:day-carry-in-year<=0", "c10.datetime:cases", 0.01);
            rec.floor("c10.zoned:day-length!=24h", "c10.zoned:cases", 0.01);
            rec.floor("c10.duration:illegal-increment", "c10.duration:cases", 0.05);
        },
    }
}
