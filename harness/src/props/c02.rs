//! C02 Instant <-> civil datetime under a fixed offset is exact and invertible.

use std::hash::{Hash, Hasher};

use jiff::civil::DateTime;
use jiff::tz::Offset;
use jiff::{SignedDuration, Timestamp};
use proptest::prelude::*;
use serde::{Deserialize, Serialize};
use serde_json::{json, Value};

use crate::engine::*;
use crate::gen;
use crate::refmodel::refcal as rc;
use crate::refmodel::wide::*;
use crate::{ensure, fail};

#[derive(Serialize, Deserialize, Debug, Clone)]
pub struct TO {
    /// instant in nanoseconds (decimal string: i128 does not fit JSON numbers)
    pub ns: String,
    pub off: i32,
}

fn h<T: Hash>(v: &T) -> u64 {
    let mut s = std::collections::hash_map::DefaultHasher::new();
    v.hash(&mut s);
    s.finish()
}

/// Reference decomposition: (y, m, d, nanosecond of day).
pub fn ref_civil(ns: i128, off: i32) -> (i64, i64, i64, i128) {
    let local = ns + off as i128 * NS_PER_SEC;
    let days = local.div_euclid(NS_PER_DAY) as i64;
    let tod = local.rem_euclid(NS_PER_DAY);
    let (y, m, d) = rc::from_days(days);
    (y, m, d, tod)
}

pub fn dt_fields(dt: DateTime) -> (i64, i64, i64, i128) {
    let tod = dt.hour() as i128 * 3600 * NS_PER_SEC
        + dt.minute() as i128 * 60 * NS_PER_SEC
        + dt.second() as i128 * NS_PER_SEC
        + dt.subsec_nanosecond() as i128;
    (dt.year() as i64, dt.month() as i64, dt.day() as i64, tod)
}

/// Every way two timestamps can be "the same" must agree.
fn same_ts(a: Timestamp, want_ns: i128, what: &str) -> CaseResult {
    let b = Timestamp::from_nanosecond(want_ns).unwrap();
    ensure!(a.as_nanosecond() == want_ns, format!("{what}-ns"), "{what}: as_nanosecond {} want {want_ns}", a.as_nanosecond());
    ensure!(
        a == b && a.cmp(&b) == std::cmp::Ordering::Equal && h(&a) == h(&b),
        format!("{what}-eq"),
        "{what}: value with as_nanosecond={want_ns} is not ==/cmp/hash-equal to Timestamp::from_nanosecond of it (as_second {} vs {}, subsec {} vs {})",
        a.as_second(),
        b.as_second(),
        a.subsec_nanosecond(),
        b.subsec_nanosecond()
    );
    ensure!(
        a.as_second() as i128 == want_ns / NS_PER_SEC && a.subsec_nanosecond() as i128 == want_ns % NS_PER_SEC,
        format!("{what}-views"),
        "{what}: as_second/subsec {} {} for ns {want_ns}",
        a.as_second(),
        a.subsec_nanosecond()
    );
    // the other integer views, the duration view and the std::time view of the same instant
    ensure!(a.as_millisecond() as i128 == want_ns / 1_000_000 && a.as_microsecond() as i128 == want_ns / 1000, format!("{what}-milli-micro-views"), "{what}: as_millisecond {} as_microsecond {} for ns {want_ns}", a.as_millisecond(), a.as_microsecond());
    ensure!(a.as_duration().as_nanos() == want_ns, format!("{what}-duration-view"), "{what}: as_duration {:?} for ns {want_ns}", a.as_duration());
    let st = std::time::SystemTime::from(a);
    let st_ns = match st.duration_since(std::time::UNIX_EPOCH) {
        Ok(d) => d.as_nanos() as i128,
        Err(e) => -(e.duration().as_nanos() as i128),
    };
    ensure!(st_ns == want_ns, format!("{what}-systemtime-view"), "{what}: SystemTime::from gives {st_ns} ns from the epoch for ns {want_ns}");
    match Timestamp::try_from(st) {
        Ok(back) => ensure!(back.as_nanosecond() == want_ns, format!("{what}-systemtime-roundtrip"), "{what}: Timestamp::try_from(SystemTime::from(ts)) = {} for ns {want_ns}", back.as_nanosecond()),
        Err(e) => fail!(format!("{what}-systemtime-roundtrip"), "{what}: Timestamp::try_from(SystemTime::from(ts)) = Err({e})"),
    }
    Ok(())
}

/// The integer (de)serialisation helpers of `jiff::fmt::serde::timestamp` are views and
/// constructors like the others: the number written is the unit view, and reading it back
/// gives the timestamp of that many units.
fn serde_views(ts: Timestamp, ns: i128) -> CaseResult {
    use serde::{Deserialize, Serialize};
    macro_rules! unit {
        ($req:literal, $opt:literal, $div:expr, $what:expr) => {{
            #[derive(Serialize, Deserialize)]
            struct Req {
                #[serde(with = $req)]
                t: Timestamp,
            }
            #[derive(Serialize, Deserialize)]
            struct Opt {
                #[serde(with = $opt)]
                t: Option<Timestamp>,
            }
            let want: i128 = ns / $div;
            let j = serde_json::to_string(&Req { t: ts }).map_err(|e| Failure::new(format!("serde-view-err:{}", $what), e.to_string()))?;
            ensure!(j == format!("{{\"t\":{want}}}"), format!("serde-view-wrong:{}", $what), "{ts:?} serialises as {j}, want {want} {}", $what);
            let jo = serde_json::to_string(&Opt { t: Some(ts) }).map_err(|e| Failure::new(format!("serde-view-err:{}", $what), e.to_string()))?;
            ensure!(jo == j, format!("serde-view-wrong:{}", $what), "Some({ts:?}) serialises as {jo}, the required form as {j}");
            let none = serde_json::to_string(&Opt { t: None }).unwrap_or_default();
            ensure!(none == "{\"t\":null}" && serde_json::from_str::<Opt>(&none).map(|o| o.t.is_none()).unwrap_or(false), format!("serde-view-wrong:{}", $what), "None serialises as {none}");
            if want.abs() < (1i128 << 62) {
                let back: Req = serde_json::from_str(&j).map_err(|e| Failure::new(format!("serde-view-err:{}", $what), format!("{j}: {e}")))?;
                let backo: Opt = serde_json::from_str(&j).map_err(|e| Failure::new(format!("serde-view-err:{}", $what), format!("{j}: {e}")))?;
                ensure!(back.t.as_nanosecond() == want * $div && backo.t.map(|t| t.as_nanosecond()) == Some(want * $div), format!("serde-view-roundtrip:{}", $what), "{j} deserialises to {:?} / {:?}, want {} ns", back.t, backo.t, want * $div);
            }
        }};
    }
    unit!("jiff::fmt::serde::timestamp::second::required", "jiff::fmt::serde::timestamp::second::optional", NS_PER_SEC, "seconds");
    unit!("jiff::fmt::serde::timestamp::millisecond::required", "jiff::fmt::serde::timestamp::millisecond::optional", 1_000_000i128, "milliseconds");
    unit!("jiff::fmt::serde::timestamp::microsecond::required", "jiff::fmt::serde::timestamp::microsecond::optional", 1000i128, "microseconds");
    unit!("jiff::fmt::serde::timestamp::nanosecond::required", "jiff::fmt::serde::timestamp::nanosecond::optional", 1i128, "nanoseconds");
    Ok(())
}

fn check_to(ns: i128, off: i32) -> CaseResult {
    let ts = Timestamp::from_nanosecond(ns).map_err(|e| Failure::new("from-ns-rejects-in-range", format!("from_nanosecond({ns}) = {e}")))?;
    let o = Offset::from_seconds(off).map_err(|e| Failure::new("offset-rejects-in-range", format!("from_seconds({off}) = {e}")))?;
    let want = ref_civil(ns, off);
    let dt = o.to_datetime(ts);
    ensure!(dt_fields(dt) == want, "to-datetime", "Offset({off}).to_datetime({ns}ns) = {dt} want {:?}", want);
    match o.to_timestamp(dt) {
        Ok(back) => same_ts(back, ns, "roundtrip")?,
        Err(e) => fail!("roundtrip-err", "Offset({off}).to_timestamp({dt}) = Err({e}) for in-range instant {ns}"),
    }
    Ok(())
}

fn check_views(ns: i128) -> CaseResult {
    let ts = Timestamp::from_nanosecond(ns).unwrap();
    ensure!(ts.as_nanosecond() == ns, "view-ns", "as_nanosecond {} want {ns}", ts.as_nanosecond());
    ensure!(ts.as_second() as i128 == ns / NS_PER_SEC, "view-second", "as_second {} for {ns}", ts.as_second());
    ensure!(ts.as_millisecond() as i128 == ns / 1_000_000, "view-ms", "as_millisecond {} for {ns}", ts.as_millisecond());
    ensure!(ts.as_microsecond() as i128 == ns / 1000, "view-us", "as_microsecond {} for {ns}", ts.as_microsecond());
    ensure!(
        ts.subsec_nanosecond() as i128 == ns % NS_PER_SEC
            && ts.subsec_microsecond() as i128 == (ns % NS_PER_SEC) / 1000
            && ts.subsec_millisecond() as i128 == (ns % NS_PER_SEC) / 1_000_000,
        "view-subsec",
        "subsec views {} {} {} for {ns}",
        ts.subsec_nanosecond(),
        ts.subsec_microsecond(),
        ts.subsec_millisecond()
    );
    let d = ts.as_duration();
    ensure!(d.as_nanos() == ns, "view-duration", "as_duration {d:?} for {ns}");
    match Timestamp::from_duration(d) {
        Ok(b) => same_ts(b, ns, "from-duration")?,
        Err(e) => fail!("from-duration-err", "from_duration({d:?}) = {e}"),
    }
    ensure!(ts.signum() as i128 == ns.signum() && ts.is_zero() == (ns == 0), "view-signum", "signum/is_zero wrong for {ns}");
    // whole-unit constructors denote the same integer
    if ns % NS_PER_SEC == 0 {
        same_ts(Timestamp::from_second((ns / NS_PER_SEC) as i64).map_err(|e| Failure::new("from-second-err", e.to_string()))?, ns, "from-second")?;
    }
    if ns % 1_000_000 == 0 {
        same_ts(Timestamp::from_millisecond((ns / 1_000_000) as i64).map_err(|e| Failure::new("from-ms-err", e.to_string()))?, ns, "from-ms")?;
    }
    if ns % 1000 == 0 {
        same_ts(Timestamp::from_microsecond((ns / 1000) as i64).map_err(|e| Failure::new("from-us-err", e.to_string()))?, ns, "from-us")?;
    }
    Ok(())
}

fn nontrivial(ns: i128, off: i32) -> bool {
    let local = ns + off as i128 * NS_PER_SEC;
    let tod = local.rem_euclid(NS_PER_DAY);
    (ns < 0 && ns % NS_PER_SEC != 0) || tod <= 1 || tod >= NS_PER_DAY - 1 || (off != 0 && off % 60 != 0)
}

fn test_random(c: &TO, cx: &mut Cx) -> CaseResult {
    let ns: i128 = c.ns.parse().unwrap();
    cx.nt_if(nontrivial(ns, c.off));
    cx.class_if(ns < 0 && ns % NS_PER_SEC != 0, "negative-fractional");
    cx.class_if(c.off % 60 != 0, "sub-minute-offset");
    check_to(ns, c.off)?;
    check_views(ns)
}

fn strat_random() -> BoxedStrategy<TO> {
    (gen::ts_ns(), gen::offset_secs()).prop_map(|(ns, off)| TO { ns: ns.to_string(), off }).boxed()
}

// --- day-boundary sweep ---------------------------------------------------------

const SWEEP_OFFSETS_QUICK: &[i32] = &[0, 1, -59, 93599, -93599, 20700];
const SWEEP_OFFSETS_MORE: &[i32] = &[-1, 59, 3600, -3600, -34200, 45296, -2821, 60];

fn run_day_boundary(rec: &Recorder, check: &'static str) {
    let mut offs: Vec<i32> = SWEEP_OFFSETS_QUICK.to_vec();
    if rec.tier() == Tier::Thorough {
        offs.extend_from_slice(SWEEP_OFFSETS_MORE);
    }
    let ndays = (rc::DAY_MAX - rc::DAY_MIN + 1) as u64;
    par_chunks(rec.opts.threads, ndays, |r| {
        let mut evals = 0u64;
        let mut negfrac = 0u64;
        for i in r {
            let day = rc::DAY_MIN + i as i64;
            for &off in &offs {
                for delta in [-1i128, 0, 1] {
                    let ns = day as i128 * NS_PER_DAY - off as i128 * NS_PER_SEC + delta;
                    if ns < TS_MIN_NS || ns > TS_MAX_NS {
                        continue;
                    }
                    evals += 1;
                    if ns < 0 && delta != 0 {
                        negfrac += 1;
                    }
                    let case = TO { ns: ns.to_string(), off };
                    sweep_case(rec, check, &case, || check_to(ns, off));
                }
            }
        }
        rec.add_evaluations(evals);
        rec.add_distinct_nontrivial(evals);
        rec.add_class("day-boundary:cases", evals);
        rec.add_class("day-boundary:negative-fractional", negfrac);
    });
    rec.mark_exhaustive(&format!("every local day boundary (-1ns, 0, +1ns) of all {ndays} days for offsets {offs:?}"));
    rec.add_sample(json!({"check": check, "case": {"ns": "-1", "off": 1}}));
}

fn replay_to(v: Value) -> CaseResult {
    let c: TO = serde_json::from_value(v).map_err(|e| Failure::new("decode", e.to_string()))?;
    let ns: i128 = c.ns.parse().map_err(|_| Failure::new("decode", "ns"))?;
    check_to(ns, c.off)?;
    check_views(ns)
}

// --- every second of a day x many offsets; all offsets x fixed instants ---------

fn run_seconds_and_offsets(rec: &Recorder, check: &'static str) {
    let mut sm = SplitMix::from(rec.opts.seed, check, 0);
    let mut offs: Vec<i32> = vec![0, 1, -1, 59, -59, 93599, -93599, 3600, -3600, 20700, -34200];
    while offs.len() < 40 {
        offs.push(sm.range(-93599, 93599) as i32);
    }
    // days: epoch day, a pre-epoch day, first and last full days of the range
    let days: Vec<i64> = vec![0, -1, -719_468, rc::DAY_MIN + 2, rc::DAY_MAX - 2];
    let work: Vec<(i64, i32)> = days.iter().flat_map(|&d| offs.iter().map(move |&o| (d, o))).collect();
    par_chunks(rec.opts.threads, work.len() as u64, |r| {
        let mut evals = 0u64;
        for i in r {
            let (day, off) = work[i as usize];
            for s in 0..86400i128 {
                for frac in [0i128, 999_999_999] {
                    let ns = day as i128 * NS_PER_DAY + s * NS_PER_SEC + frac;
                    evals += 1;
                    let case = TO { ns: ns.to_string(), off };
                    sweep_case(rec, check, &case, || check_to(ns, off));
                }
            }
        }
        rec.add_evaluations(evals);
        rec.add_distinct_nontrivial(evals / 2);
        rec.add_class("second-of-day:cases", evals);
    });
    // all offsets on a fixed set of instants
    let instants: Vec<i128> = vec![TS_MIN_NS, TS_MAX_NS, 0, -1, 1, -NS_PER_SEC - 1, -999_999_999, TS_MIN_NS + 1, TS_MAX_NS - 1, 951_782_400 * NS_PER_SEC - 1];
    par_chunks(rec.opts.threads, 187_199, |r| {
        let mut evals = 0u64;
        for i in r {
            let off = -93599 + i as i32;
            for &ns in &instants {
                evals += 1;
                let case = TO { ns: ns.to_string(), off };
                sweep_case(rec, check, &case, || check_to(ns, off));
            }
        }
        rec.add_evaluations(evals);
        rec.add_distinct_nontrivial(evals);
        rec.add_class("all-offsets:cases", evals);
    });
    rec.mark_exhaustive("all 187,199 offsets x 10 fixed instants; every second (.0 and .999999999) of 5 days x 40 offsets");
}

// --- civil -> instant: Ok exactly when in range ----------------------------------

#[derive(Serialize, Deserialize, Debug, Clone)]
struct CivilOff {
    ymd: (i16, i8, i8),
    tod: i64,
    off: i32,
}

fn test_civil(c: &CivilOff, cx: &mut Cx) -> CaseResult {
    let date = gen::mk_date(c.ymd.0, c.ymd.1, c.ymd.2);
    let dt = date.to_datetime(gen::mk_time(c.tod));
    // the other ways of putting a date and a time together name the same civil datetime
    {
        let t = gen::mk_time(c.tod);
        let alt = [jiff::civil::DateTime::from_parts(date, t), t.on(c.ymd.0, c.ymd.1, c.ymd.2), t.to_datetime(date), jiff::civil::DateTime::from(date).with().time(t).build().unwrap_or(dt), date.at(t.hour(), t.minute(), t.second(), t.subsec_nanosecond())];
        ensure!(alt.iter().all(|x| *x == dt && dt_fields(*x) == dt_fields(dt)), "civil-constructors-differ", "{date} + {t}: {alt:?} vs {dt}");
    }
    let o = Offset::from_seconds(c.off).unwrap();
    let civil_ns = rc::to_days(c.ymd.0 as i64, c.ymd.1 as i64, c.ymd.2 as i64) as i128 * NS_PER_DAY + c.tod as i128;
    let want = civil_ns - c.off as i128 * NS_PER_SEC;
    let in_range = (TS_MIN_NS..=TS_MAX_NS).contains(&want);
    cx.nt_if(!in_range || (want - TS_MIN_NS).abs() < 200_000 * NS_PER_SEC || (TS_MAX_NS - want).abs() < 200_000 * NS_PER_SEC || (want < 0 && want % NS_PER_SEC != 0));
    cx.class_if(!in_range, "out-of-range");
    match o.to_timestamp(dt) {
        Ok(ts) => {
            ensure!(in_range, "civil-accepts-out-of-range", "Offset({}).to_timestamp({dt}) = Ok({}) but instant {want} is outside the range", c.off, ts.as_nanosecond());
            same_ts(ts, want, "civil")?;
            // and it displays the same civil time again
            let back = o.to_datetime(ts);
            ensure!(back == dt, "civil-display", "instant from {dt} displays {back}");
        }
        Err(e) => {
            ensure!(!in_range, "civil-rejects-in-range", "Offset({}).to_timestamp({dt}) = Err({e}) but instant {want} is in range", c.off);
        }
    }
    Ok(())
}

fn strat_civil() -> BoxedStrategy<CivilOff> {
    let ymd = prop_oneof![
        3 => gen::ymd(),
        3 => (prop_oneof![Just(-9999i16), Just(9999i16)], prop_oneof![Just(1i8), Just(12i8)], prop_oneof![Just(1i8), Just(2), Just(3), Just(29), Just(30), Just(31)]),
        1 => Just((1969i16, 12i8, 31i8)),
        1 => Just((1970i16, 1i8, 1i8)),
    ];
    (ymd, gen::tod_ns(), gen::offset_secs()).prop_map(|(ymd, tod, off)| CivilOff { ymd, tod, off }).boxed()
}

// --- constructors with mixed signs -------------------------------------------------

#[derive(Serialize, Deserialize, Debug, Clone)]
struct Ctor {
    s: i64,
    n: i32,
}

fn test_ctor(c: &Ctor, cx: &mut Cx) -> CaseResult {
    let total = c.s as i128 * NS_PER_SEC + c.n as i128;
    let s_ok = (-377705023201..=253402207200).contains(&c.s);
    let n_ok = c.n > -1_000_000_000 && c.n < 1_000_000_000;
    let t_ok = (TS_MIN_NS..=TS_MAX_NS).contains(&total);
    cx.nt_if((c.s > 0 && c.n < 0) || (c.s < 0 && c.n > 0) || !s_ok || !n_ok || !t_ok);
    cx.class_if((c.s > 0 && c.n < 0) || (c.s < 0 && c.n > 0), "mixed-sign");
    cx.class_if(!(s_ok && n_ok && t_ok), "out-of-range");
    match Timestamp::new(c.s, c.n) {
        Ok(t) => {
            ensure!(s_ok && n_ok && t_ok, "new-accepts-out-of-range", "Timestamp::new({}, {}) = Ok", c.s, c.n);
            same_ts(t, total, "new")?;
            serde_views(t, total)?;
        }
        Err(e) => {
            ensure!(!(s_ok && n_ok && t_ok), "new-rejects-in-range", "Timestamp::new({}, {}) = Err({e})", c.s, c.n);
        }
    }
    // the const constructor (documented to panic outside the range) denotes the same instant
    if s_ok && n_ok && t_ok {
        same_ts(Timestamp::constant(c.s, c.n), total, "constant")?;
    } else {
        // "panics when Timestamp::new would return an error": no value may come out
        let (cs, cn) = (c.s, c.n);
        let got = crate::engine::guard("op", std::panic::AssertUnwindSafe(|| Timestamp::constant(cs, cn))).ok();
        ensure!(got.is_none(), "constant-accepts-out-of-range", "Timestamp::constant({}, {}) = {got:?} although Timestamp::new refuses these arguments", c.s, c.n);
    }
    // ... and in the release build (no debug assertions), asked of a child process running the
    // `rel` build of this harness: the same instant, or the documented panic
    match crate::relbuild::ask(&[format!("T {} {}", c.s, c.n)]) {
        Ok(v) => {
            let ans = &v[0];
            if s_ok && n_ok && t_ok {
                let want = format!("OK {} {}", (total / NS_PER_SEC) as i64, (total % NS_PER_SEC) as i64);
                ensure!(*ans == want, "constant-release-wrong", "release build: Timestamp::constant({}, {}) -> {ans:?}, want {want:?}", c.s, c.n);
            } else {
                ensure!(ans == "PANIC", "constant-release-accepts-out-of-range", "release build: Timestamp::constant({}, {}) -> {ans:?} although Timestamp::new refuses these arguments (documented: panics)", c.s, c.n);
            }
            cx.class("evaluated in both builds");
        }
        Err(e) if e == "no-rel-binary" => cx.class("release build unavailable"),
        Err(e) => fail!("HARNESS-PANIC", "release-build child: {e}"),
    }
    // unit constructors: Ok exactly when the denoted instant is in range
    let checks: [(&str, i128, Result<Timestamp, jiff::Error>); 3] = [
        ("from_second", c.s as i128 * NS_PER_SEC, Timestamp::from_second(c.s)),
        ("from_millisecond", c.s as i128 * 1_000_000, Timestamp::from_millisecond(c.s)),
        ("from_microsecond", c.s as i128 * 1000, Timestamp::from_microsecond(c.s)),
    ];
    for (name, want, got) in checks {
        // whole-second granularity of MIN: MIN is a whole second; MAX has .999999999
        let ok = (TS_MIN_NS..=TS_MAX_NS).contains(&want);
        match got {
            Ok(t) => {
                ensure!(ok, format!("{name}-accepts-out-of-range"), "{name}({}) accepted", c.s);
                same_ts(t, want, name)?;
            }
            Err(e) => ensure!(!ok, format!("{name}-rejects-in-range"), "{name}({}) = Err({e})", c.s),
        }
    }
    // from_duration with arbitrary (s, n)
    let d = SignedDuration::new(c.s.clamp(-400_000_000_000, 400_000_000_000), c.n);
    let want = d.as_nanos();
    let ok = (TS_MIN_NS..=TS_MAX_NS).contains(&want);
    match Timestamp::from_duration(d) {
        Ok(t) => {
            ensure!(ok, "from-duration-accepts-out-of-range", "from_duration({d:?}) accepted");
            same_ts(t, want, "from-duration")?;
        }
        Err(e) => ensure!(!ok, "from-duration-rejects-in-range", "from_duration({d:?}) = Err({e})"),
    }
    Ok(())
}

fn strat_ctor() -> BoxedStrategy<Ctor> {
    let s = prop_oneof![
        3 => gen::biased(-377705023203, 253402207202),
        // the first and last representable seconds themselves and their neighbours
        2 => proptest::sample::select(vec![-377705023201i64, -377705023200, -377705023202, 253402207200, 253402207199, 253402207201, 0, 1, -1]),
        1 => gen::biased(i64::MIN, i64::MAX),
        2 => gen::biased(-377705023201i64 * 1000, 253402207200i64 * 1000 + 1000),
        1 => gen::biased(-377705023201i64 * 1_000_000 - 5, 253402207200i64 * 1_000_000 + 1_000_005),
    ];
    let n = prop_oneof![
        3 => gen::biased(-1_000_000_001, 1_000_000_001).prop_map(|v| v as i32),
        1 => any::<i32>(),
    ];
    (s, n).prop_map(|(s, n)| Ctor { s, n }).boxed()
}

pub fn property() -> Property {
    Property {
        id: "C02",
        level: "exploration",
        rule: "Boundary-exhaustive sweep (every local day boundary -1ns/0/+1ns of all 7.3M days for a set of offsets; every second of 5 days x 40 offsets; all 187,199 offsets x 10 instants) plus proptest-generated (instant, offset), (civil, offset) and constructor inputs from limit-biased generators; oracle = floor-div/mod on i128 + walked calendar. Non-trivial: negative instant with fractional part, or local time within 1ns of a day boundary, or sub-minute offset, or out-of-range/limit-adjacent civil input, or mixed-sign/out-of-range constructor input. Sweep cases are distinct by construction; generated cases are counted through a fingerprint set.",
        assumptions: &["refcal.rs (see C01) and i128 arithmetic"],
        checks: vec![
            Box::new(Sweep { name: "c02.day_boundary", run: run_day_boundary, replay: replay_to }),
            Box::new(Sweep { name: "c02.seconds_offsets", run: run_seconds_and_offsets, replay: replay_to }),
            Box::new(Prop { name: "c02.random", quick: 2_000_000, thorough: 60_000_000, strategy: strat_random, test: test_random }),
            Box::new(Prop { name: "c02.civil", quick: 1_000_000, thorough: 30_000_000, strategy: strat_civil, test: test_civil }),
            Box::new(Prop { name: "c02.ctor", quick: 1_000_000, thorough: 30_000_000, strategy: strat_ctor, test: test_ctor }),
        ],
        floors: |rec| {
            rec.floor("c02.random:negative-fractional", "c02.random:cases", 0.10);
            rec.floor("c02.random:sub-minute-offset", "c02.random:cases", 0.10);
            rec.floor("c02.civil:out-of-range", "c02.civil:cases", 0.02);
            rec.floor("c02.ctor:mixed-sign", "c02.ctor:cases", 0.10);
            rec.floor("c02.ctor:evaluated in both builds", "c02.ctor:cases", 0.99);
        },
    }
}
