//! C20 TimeZone handles are memory-safe values under clone, drop, compare and sharing.

use jiff::tz::{Offset, TimeZone};
use jiff::Timestamp;
use proptest::prelude::*;
use serde::{Deserialize, Serialize};
use serde_json::{json, Value};

use crate::engine::*;
use crate::handles::{self, Op, Payload, POOL};
use crate::{ensure, fail};

/// Entry point shared with the libFuzzer target (fuzz/fuzz_targets/tz_handles.rs).
pub fn fuzz_entry(data: &[u8]) -> Result<(), String> {
    handles::run(&handles::decode(data), None).map(|_| ())
}

// --- all fixed offsets, exhaustively -------------------------------------------------------------

#[derive(Serialize, Deserialize, Debug, Clone)]
struct Off {
    secs: i32,
}

fn check_offset(secs: i32) -> CaseResult {
    let o = Offset::from_seconds(secs).map_err(|e| Failure::new("offset-rejected", e.to_string()))?;
    let tz = TimeZone::fixed(o);
    ensure!(tz.to_fixed_offset().ok() == Some(o), "fixed-roundtrip", "fixed({secs}).to_fixed_offset() = {:?}", tz.to_fixed_offset());
    for ts in [Timestamp::UNIX_EPOCH, Timestamp::MIN, Timestamp::MAX] {
        ensure!(tz.to_offset(ts).seconds() == secs, "fixed-to-offset", "fixed({secs}).to_offset({ts}) = {}", tz.to_offset(ts));
    }
    let c = tz.clone();
    ensure!(c == tz && c.to_fixed_offset().ok() == Some(o), "fixed-clone", "clone of fixed({secs}) differs");
    let neighbour = TimeZone::fixed(Offset::from_seconds(if secs < 93599 { secs + 1 } else { secs - 1 }).unwrap());
    ensure!(neighbour != tz, "fixed-eq-neighbour", "fixed({secs}) equals its neighbour");
    if secs != 0 {
        let neg = TimeZone::fixed(Offset::from_seconds(-secs).unwrap());
        ensure!(neg != tz && neg.to_fixed_offset().map(|x| x.seconds()).ok() == Some(-secs), "fixed-eq-negated", "fixed({secs}) vs fixed({})", -secs);
    }
    let dbg = format!("{tz:?}");
    ensure!(!dbg.is_empty(), "fixed-debug", "empty Debug");
    let z = Timestamp::UNIX_EPOCH.to_zoned(tz);
    ensure!(z.offset().seconds() == secs, "fixed-zoned", "zoned offset {}", z.offset());
    Ok(())
}

fn run_offsets(rec: &Recorder, check: &'static str) {
    par_chunks(rec.opts.threads, 187_199, |r| {
        let mut n = 0u64;
        for i in r {
            let secs = -93599 + i as i32;
            n += 1;
            sweep_case(rec, check, &Off { secs }, || check_offset(secs));
        }
        rec.add_evaluations(n);
        rec.add_distinct_nontrivial(n);
        rec.add_class("fixed-offsets:all", n);
    });
    rec.mark_exhaustive("all 187,199 fixed offsets -25:59:59..=+25:59:59");
    rec.add_sample(json!({"check": check, "case": {"secs": -93599}}));
}

fn replay_offset(v: Value) -> CaseResult {
    let c: Off = serde_json::from_value(v).map_err(|e| Failure::new("decode", e.to_string()))?;
    check_offset(c.secs)
}

// --- generated handle programs -----------------------------------------------------------------------

#[derive(Serialize, Deserialize, Debug, Clone)]
enum POp {
    New(u8, u8, i32),
    Clone(u8, u8),
    Drop(u8),
    ThroughZoned(u8, i64),
    ThroughAmbiguous(u8, i64),
    Eq(u8, u8),
    Query(u8, i64, i32),
    Thread(u8, i64),
    Swap(u8, u8),
    CloneFrom(u8, u8, u8),
}

#[derive(Serialize, Deserialize, Debug, Clone)]
struct Program {
    ops: Vec<POp>,
}

fn payload(kind: u8, v: i32) -> Payload {
    match kind % 9 {
        0 => Payload::Utc,
        1 => Payload::Unknown,
        2 | 3 => Payload::Fixed(v.clamp(-93599, 93599)),
        4 | 5 => Payload::Posix(v.unsigned_abs() as usize % handles::POSIX.len()),
        6 | 7 => Payload::Tzif(v.unsigned_abs() as usize % handles::TZIF_FILES.len()),
        _ => Payload::Static(v.unsigned_abs() as usize % 3),
    }
}

fn lower(p: &Program) -> Vec<Op> {
    let s = |x: u8| x as usize % POOL;
    p.ops
        .iter()
        .map(|o| match *o {
            POp::New(i, k, v) => Op::New(s(i), payload(k, v)),
            POp::Clone(a, b) => Op::Clone(s(a), s(b)),
            POp::Drop(i) => Op::Drop(s(i)),
            POp::ThroughZoned(i, t) => Op::ThroughZoned(s(i), t),
            POp::ThroughAmbiguous(i, t) => Op::ThroughAmbiguous(s(i), t),
            POp::Eq(a, b) => Op::Eq(s(a), s(b)),
            POp::Query(i, t, n) => Op::Query(s(i), t, n),
            POp::Thread(i, t) => Op::Thread(s(i), t),
            POp::Swap(a, b) => Op::Swap(s(a), s(b)),
            POp::CloneFrom(a, b, v) => Op::CloneFrom(s(a), s(b), v % 3),
        })
        .collect()
}

fn strat_program(threads: bool) -> BoxedStrategy<Program> {
    // a small pool (0..4 mostly) so that clones and drops meet
    let slot = prop_oneof![4 => 0u8..3, 1 => 0u8..8];
    let t = prop_oneof![2 => -377705023201i64..=253402207200, 1 => 1_000_000_000i64..2_000_000_000, 1 => -3_000_000_000i64..0];
    let op = prop_oneof![
        4 => (slot.clone(), prop_oneof![3 => 4u8..8, 1 => 0u8..9], crate::gen::offset_secs()).prop_map(|(i, k, v)| POp::New(i, k, v)),
        5 => (slot.clone(), slot.clone()).prop_map(|(a, b)| POp::Clone(a, b)),
        4 => slot.clone().prop_map(POp::Drop),
        1 => (slot.clone(), t.clone()).prop_map(|(i, t)| POp::ThroughZoned(i, t)),
        1 => (slot.clone(), t.clone()).prop_map(|(i, t)| POp::ThroughAmbiguous(i, t)),
        2 => (slot.clone(), slot.clone()).prop_map(|(a, b)| POp::Eq(a, b)),
        7 => (slot.clone(), t.clone(), 0i32..1_000_000_000).prop_map(|(i, t, n)| POp::Query(i, t, n)),
        (if threads { 2 } else { 0 }) => (slot.clone(), t).prop_map(|(i, t)| POp::Thread(i, t)),
        1 => (slot.clone(), slot.clone()).prop_map(|(a, b)| POp::Swap(a, b)),
        2 => (slot.clone(), slot, 0u8..3).prop_map(|(a, b, v)| POp::CloneFrom(a, b, v)),
    ];
    // motif: create a heap-backed zone, clone it, drop one of the two handles
    // (either one), then query the survivor
    let motif = (0u8..3, 0u8..3, 4u8..8, crate::gen::offset_secs(), any::<bool>(), -3_000_000_000i64..3_000_000_000).prop_map(|(a, b, k, v, first, t)| {
        let b = if a == b { (b + 1) % 3 } else { b };
        let (dropped, kept) = if first { (a, b) } else { (b, a) };
        vec![POp::New(a, k, v), POp::Clone(a, b), POp::Drop(dropped), POp::Query(kept, t, 0), POp::Eq(kept, kept)]
    });
    let chunk = prop_oneof![5 => op.prop_map(|o| vec![o]), 1 => motif];
    proptest::collection::vec(chunk, 1..30).prop_map(|chunks| Program { ops: chunks.into_iter().flatten().collect() }).boxed()
}

fn blocks() -> isize {
    crate::heap::snapshot().1
}

fn classify(p: &Program, stats: &handles::Stats, cx: &mut Cx) {
    cx.class_if(stats.nonlast_drops_followed_by_query > 0, "nonlast-drop-then-query");
    cx.class_if(p.ops.iter().any(|o| matches!(o, POp::Thread(..))), "has-thread-op");
    cx.nt_if(stats.nonlast_drops_followed_by_query > 0);
}

fn test_program_alloc(p: &Program, cx: &mut Cx) -> CaseResult {
    let ops = lower(p);
    // warm up lazily initialised state (static zones, error paths) so that
    // one-time allocations are not attributed to the program
    static WARM: std::sync::Once = std::sync::Once::new();
    WARM.call_once(|| {
        for i in 0..3 {
            let _ = handles::run(&[Op::New(0, Payload::Static(i)), Op::Query(0, 0, 0)], None);
        }
    });
    // every other program runs with its heap blocks placed at 8 mod 16 (a legal placement
    // that glibc never produces): alignment assumptions in the tagged pointer show up as wrong
    // answers from live handles
    let shift = crate::engine::fingerprint(p) & 1 == 1;
    cx.class_if(shift, "heap blocks placed at 8 mod 16");
    struct Restore(bool);
    impl Drop for Restore {
        fn drop(&mut self) {
            crate::heap::set_shift(self.0);
        }
    }
    let result = {
        let _restore = Restore(crate::heap::set_shift(shift));
        handles::run(&ops, Some(blocks))
    };
    match result {
        Ok(stats) => {
            classify(p, &stats, cx);
            Ok(())
        }
        Err(e) => {
            let (sig, msg) = e.split_once(": ").unwrap_or((&e, ""));
            fail!(sig.to_string(), "{msg}")
        }
    }
}

fn test_program_threads(p: &Program, cx: &mut Cx) -> CaseResult {
    let ops = lower(p);
    match handles::run(&ops, None) {
        Ok(stats) => {
            classify(p, &stats, cx);
            Ok(())
        }
        Err(e) => {
            let (sig, msg) = e.split_once(": ").unwrap_or((&e, ""));
            fail!(sig.to_string(), "{msg}")
        }
    }
}


// --- the system time zone as an *unnamed* TZif handle (TZ=:/path/to/file outside any zoneinfo tree) ---

/// The body of the system-zone case; returns (probe count, whether the handle is unnamed).
fn check_system_zone(path: &str) -> Result<(u64, bool), Failure> {
    use jiff::tz::TimeZone;
    use jiff::Timestamp;
    let bytes = std::fs::read(path).map_err(|e| Failure::new("HARNESS-PANIC", format!("cannot read {path}: {e}")))?;
    // (no other thread of the harness reads the environment while this runs)
    let old = std::env::var_os("TZ");
    std::env::set_var("TZ", format!(":{path}"));
    struct Restore(Option<std::ffi::OsString>);
    impl Drop for Restore {
        fn drop(&mut self) {
            match self.0.take() {
                Some(v) => std::env::set_var("TZ", v),
                None => std::env::remove_var("TZ"),
            }
        }
    }
    let _restore = Restore(old);
    let sys = TimeZone::try_system().map_err(|e| Failure::new("system-zone-unavailable", e.to_string()))?;
    let named = TimeZone::tzif("Verif/East", &bytes).map_err(|e| Failure::new("harness-tzif", e.to_string()))?;
    // the laws of the statement, on this representation too
    ensure!(sys == sys, "system-zone-not-reflexive", "the system zone handle is not equal to itself ({sys:?})");
    let c1 = sys.clone();
    ensure!(sys == c1 && c1 == sys, "system-zone-clone-not-equal", "a clone of the system zone handle is not equal to it");
    let again = TimeZone::try_system().map_err(|e| Failure::new("system-zone-unavailable", e.to_string()))?;
    ensure!(again == sys && sys == again, "system-zone-second-lookup-not-equal", "two lookups of the same system zone are not equal");
    let moved = std::thread::spawn(move || c1).join().map_err(|_| Failure::new("system-zone-thread", "join failed"))?;
    ensure!(moved == sys, "system-zone-clone-not-equal", "a clone sent through a thread is not equal to the original");
    for other in [TimeZone::UTC, TimeZone::unknown(), TimeZone::fixed(jiff::tz::offset(5)), TimeZone::fixed(jiff::tz::offset(-7)), TimeZone::posix("EST5EDT,M3.2.0,M11.1.0").unwrap()] {
        ensure!((sys == other) == (other == sys) && !(sys == other) && (named == other) == (other == named) && !(named == other), "system-zone-eq-not-symmetric", "equality with {other:?} is not symmetric, or a TZif zone equals a zone of another kind");
    }
    // every handle answers like the same bytes loaded directly
    let mut n = 0u64;
    for t in crate::zones::make_probes(&crate::refmodel::reftz::parse_tzif(&bytes).unwrap(), 2045) {
        for d in [-1i64, 0, 1] {
            let Ok(ts) = Timestamp::from_second(t + d) else { continue };
            n += 1;
            for h in [&sys, &moved, &again] {
                let (a, b) = (h.to_offset_info(ts), named.to_offset_info(ts));
                ensure!(a.offset() == b.offset() && a.dst() == b.dst() && a.abbreviation() == b.abbreviation(), "system-zone-answers-differ", "at {ts}: system zone handle says {:?}, the same bytes loaded directly say {:?}", a, b);
            }
        }
    }
    // and it keeps working as the zone of a Zoned (until/since compare the two zones)
    let z1 = Timestamp::from_second(1_000_000_000).unwrap().to_zoned(sys.clone());
    let z2 = Timestamp::from_second(1_100_000_000).unwrap().to_zoned(again.clone());
    ensure!(z1.until((jiff::Unit::Day, &z2)).is_ok(), "system-zone-until-fails", "Zoned::until between two values in the system zone fails: {:?}", z1.until((jiff::Unit::Day, &z2)));
    Ok((n, sys.iana_name().is_none()))
}

fn run_system_zone(rec: &Recorder, check: &'static str) {
    let path = format!("{}/fat/Verif/East", crate::zones::CORPUS_TZIF);
    if std::fs::metadata(&path).is_err() {
        rec.health_error(format!("{check}: cannot read {path}"));
        return;
    }
    sweep_case(rec, check, &serde_json::json!({"tz_env": path}), || {
        let (n, unnamed) = check_system_zone(&path)?;
        rec.add_evaluations(n);
        rec.add_class(if unnamed { "system zone: unnamed TZif handle" } else { "system zone: named" }, 1);
        Ok(())
    });
    rec.add_distinct_nontrivial(1);
}

fn replay_system(v: serde_json::Value) -> CaseResult {
    let path = v.get("tz_env").and_then(|p| p.as_str()).map(|s| s.to_string()).unwrap_or_else(|| format!("{}/fat/Verif/East", crate::zones::CORPUS_TZIF));
    check_system_zone(&path).map(|_| ())
}

fn strat_alloc() -> BoxedStrategy<Program> {
    strat_program(false)
}
fn strat_threads() -> BoxedStrategy<Program> {
    strat_program(true)
}

pub fn property() -> Property {
    Property {
        id: "C20",
        level: "exploration",
        rule: "(a) exhaustive: all 187,199 fixed offsets (to_fixed_offset, to_offset at three instants, clone, inequality with the neighbour and the negated offset, Debug, Zoned). (b) proptest-generated programs of 1..40 operations over a pool of handles {new(UTC | unknown | fixed | POSIX | TZif from bytes | static get!), clone, drop, move through Zoned / AmbiguousZoned, eq, query, swap}: reference model = payload per handle; every live handle answers queries (offset info, civil resolution kind, next/previous transition) exactly like a freshly built zone of its payload; equality reflexive/symmetric/clone-stable and decided by payload; allocation model through a counting global allocator: clone and non-last drop change live heap blocks by 0, creating a heap-backed zone allocates, dropping the last handle frees, nothing is live at the end. (c) the same interpreter with send-to-thread operations (no allocation model), and as a libFuzzer target under AddressSanitizer/LeakSanitizer in the thorough tier. Non-trivial: a heap-backed zone with a non-last drop followed by a query.",
        assumptions: &[
            "thread interleavings are sampled (spawn/join), not enumerated",
            "use-after-free/double-free detection proper is the sanitizer's job (thorough tier: fuzz target tz_handles under ASan/LSan); the quick tier detects them through wrong answers, the allocation model and crashes",
        ],
        checks: vec![
            Box::new(Sweep { name: "c20.fixed_offsets", run: run_offsets, replay: replay_offset }),
            Box::new(Sweep { name: "c20.system_zone", run: run_system_zone, replay: replay_system }),
            Box::new(Prop { name: "c20.programs_alloc", quick: 1_200_000, thorough: 10_000_000, strategy: strat_alloc, test: test_program_alloc }),
            Box::new(Prop { name: "c20.programs_threads", quick: 120_000, thorough: 1_000_000, strategy: strat_threads, test: test_program_threads }),
        ],
        floors: |rec| {
            rec.floor("c20.programs_alloc:nonlast-drop-then-query", "c20.programs_alloc:cases", 0.15);
        },
    }
}
