//! C18 All ways of loading a time zone give the same zone.

use std::collections::BTreeMap;
use std::hash::{Hash, Hasher};
use std::sync::Arc;

use jiff::tz::{TimeZone, TimeZoneDatabase};
use jiff::Timestamp;
use proptest::prelude::*;
use serde::{Deserialize, Serialize};
use serde_json::{json, Value};

use crate::engine::*;
use crate::refmodel::reftz::{self, RefZone};
use crate::refmodel::wide::*;
use crate::tzfiles;
use crate::zones;
use crate::{ensure, fail};

/// Probe instants for a zone read from these bytes (same set for every back-end).
fn probes_for(rz: &RefZone) -> Vec<i128> {
    let mut v: Vec<i128> = vec![TS_MIN_NS, TS_MAX_NS, 0, -1];
    for t in zones::make_probes(rz, 2045) {
        for d in [-NS_PER_SEC, -1, 0, NS_PER_SEC / 2] {
            v.push((t as i128 * NS_PER_SEC + d).clamp(TS_MIN_NS, TS_MAX_NS));
        }
    }
    v
}

/// Everything observable about `tz` at instant `ns`, as a string (compared across back-ends).
pub fn answer(tz: &TimeZone, ns: i128) -> String {
    let ts = Timestamp::from_nanosecond(ns).unwrap();
    let info = tz.to_offset_info(ts);
    let dt = tz.to_datetime(ts);
    let amb = tz.to_ambiguous_timestamp(dt);
    let next: Vec<String> = tz.following(ts).take(2).map(|t| format!("{}:{}:{:?}:{}", t.timestamp().as_second(), t.offset().seconds(), t.dst(), t.abbreviation())).collect();
    let prev: Vec<String> = tz.preceding(ts).take(2).map(|t| format!("{}:{}:{:?}:{}", t.timestamp().as_second(), t.offset().seconds(), t.dst(), t.abbreviation())).collect();
    let z = ts.to_zoned(tz.clone());
    // the printed form without the annotation (the name differs between unnamed and named handles)
    let printed = z.to_string();
    let printed = printed.split('[').next().unwrap_or("").to_string();
    format!("{}|{:?}|{}|{dt}|{:?}|{next:?}|{prev:?}|{printed}", info.offset().seconds(), info.dst(), info.abbreviation(), amb.offset())
}

fn digest(tz: &TimeZone, probes: &[i128]) -> u64 {
    let mut h = std::collections::hash_map::DefaultHasher::new();
    for &p in probes {
        answer(tz, p).hash(&mut h);
    }
    h.finish()
}

/// First probe on which two handles disagree.
fn first_difference(a: &TimeZone, b: &TimeZone, probes: &[i128]) -> Option<(i128, String, String)> {
    for &p in probes {
        let (x, y) = (answer(a, p), answer(b, p));
        if x != y {
            return Some((p, x, y));
        }
    }
    None
}

struct Backends {
    bundled: TimeZoneDatabase,
    concatenated: TimeZoneDatabase,
    installed: TimeZoneDatabase,
    _dir: std::path::PathBuf,
}

fn backends() -> &'static Backends {
    static B: std::sync::OnceLock<Backends> = std::sync::OnceLock::new();
    B.get_or_init(|| {
        let dir = std::path::PathBuf::from(format!("{}/.work/c18-{}", VERIF_DIR, std::process::id()));
        let _ = std::fs::create_dir_all(&dir);
        let mut list = vec![];
        for name in jiff_tzdb::available() {
            if let Some((canon, bytes)) = jiff_tzdb::get(name) {
                if canon.len() < 40 {
                    list.push((canon.to_string(), bytes.to_vec()));
                }
            }
        }
        let path = dir.join("tzdata");
        std::fs::write(&path, tzfiles::concatenated("2099z", &list)).expect("write concatenated tzdata");
        Backends {
            bundled: TimeZoneDatabase::bundled(),
            concatenated: TimeZoneDatabase::from_concatenated_path(&path).expect("open concatenated tzdata built by the harness"),
            installed: TimeZoneDatabase::from_dir(zones::ZONEINFO).expect("installed zoneinfo"),
            _dir: dir,
        }
    })
}

fn cleanup_backend_files() {
    let _ = std::fs::remove_dir_all(format!("{}/.work/c18-{}", VERIF_DIR, std::process::id()));
}

#[derive(Serialize, Deserialize, Debug, Clone)]
struct NameCase {
    name: String,
}

fn check_bundled_name(name: &str) -> CaseResult {
    let b = backends();
    let Some((canon, bytes)) = jiff_tzdb::get(name) else { fail!("harness-no-bytes", "no bundled bytes for {name}") };
    let rz = reftz::parse_tzif(bytes).ok_or_else(|| Failure::new("harness-unreadable", format!("reference reader cannot read bundled {name}")))?;
    let probes = probes_for(&rz);
    let from_bytes = TimeZone::tzif(canon, bytes).map_err(|e| Failure::new("bytes-rejected", format!("TimeZone::tzif rejects bundled {name}: {e}")))?;
    let mut others: Vec<(&str, TimeZone)> = vec![];
    others.push(("bundled-db", b.bundled.get(name).map_err(|e| Failure::new("bundled-db-rejects", format!("{name}: {e}")))?));
    if canon.len() < 40 {
        others.push(("concatenated-db", b.concatenated.get(name).map_err(|e| Failure::new("concatenated-db-rejects", format!("{name}: {e}")))?));
    }
    if let Some((_, tz)) = crate::static_zones::STATIC_GET.iter().find(|(n, _)| *n == canon) {
        others.push(("static-get-macro", tz.clone()));
    } else {
        fail!("static-zone-missing", "no static zone generated for {canon}");
    }
    for (what, tz) in &others {
        ensure!(tz.iana_name() == Some(canon), format!("{what}-name"), "{what} returns iana_name {:?} for {name}, want {canon:?}", tz.iana_name());
        if let Some((p, x, y)) = first_difference(&from_bytes, tz, &probes) {
            fail!(format!("{what}-differs-from-bytes"), "{name}: at instant {p}ns TimeZone::tzif(bytes) answers\n    {x}\n  but {what} answers\n    {y}");
        }
    }
    Ok(())
}

fn run_bundled(rec: &Recorder, check: &'static str) {
    let mut names: Vec<String> = jiff_tzdb::available().map(|s| s.to_string()).collect();
    names.sort();
    let _ = backends();
    par_chunks(rec.opts.threads, names.len() as u64, |r| {
        let mut n = 0u64;
        for i in r {
            let name = &names[i as usize];
            n += 1;
            sweep_case(rec, check, &NameCase { name: name.clone() }, || check_bundled_name(name));
        }
        rec.add_evaluations(n * 4);
        rec.add_distinct_nontrivial(n * 3);
        rec.add_class("same-bytes:zones", n);
    });
    rec.note("bundled_zone_names", json!(names.len()));
    rec.add_sample(json!({"check": check, "case": {"name": "Europe/Dublin", "backends": ["TimeZone::tzif(bytes)", "bundled db", "concatenated file built by the harness", "tz::get! static"]}}));
}

fn replay_bundled(v: Value) -> CaseResult {
    let c: NameCase = serde_json::from_value(v).map_err(|e| Failure::new("decode", e.to_string()))?;
    check_bundled_name(&c.name)
}

// --- installed: directory database vs bytes ---------------------------------------------------------

fn check_installed_name(name: &str) -> CaseResult {
    let b = backends();
    let bytes = std::fs::read(format!("{}/{}", zones::ZONEINFO, name)).map_err(|e| Failure::new("harness-io", e.to_string()))?;
    let Some(rz) = reftz::parse_tzif(&bytes) else { return Ok(()) };
    let probes = probes_for(&rz);
    let a = TimeZone::tzif(name, &bytes);
    let d = b.installed.get(name);
    match (a, d) {
        (Ok(a), Ok(d)) => {
            ensure!(d.iana_name() == Some(name), "dir-db-name", "from_dir().get({name:?}).iana_name() = {:?}", d.iana_name());
            if let Some((p, x, y)) = first_difference(&a, &d, &probes) {
                fail!("dir-db-differs-from-bytes", "{name}: at {p}ns bytes answer\n    {x}\n  directory database answers\n    {y}");
            }
            Ok(())
        }
        (Err(_), Err(_)) => Ok(()),
        (Ok(_), Err(e)) => fail!("acceptance-differs", "{name}: accepted as bytes but the directory database fails: {e}"),
        (Err(e), Ok(_)) => fail!("acceptance-differs", "{name}: rejected as bytes ({e}) but the directory database accepts it"),
    }
}

fn run_installed(rec: &Recorder, check: &'static str) {
    let names: Vec<String> = backends().installed.available().map(|n| n.as_str().to_string()).collect();
    par_chunks(rec.opts.threads, names.len() as u64, |r| {
        let mut n = 0u64;
        for i in r {
            let name = &names[i as usize];
            n += 1;
            sweep_case(rec, check, &NameCase { name: name.clone() }, || check_installed_name(name));
        }
        rec.add_evaluations(n);
        rec.add_distinct_nontrivial(n);
        rec.add_class("installed:zones", n);
    });
}

fn replay_installed(v: Value) -> CaseResult {
    let c: NameCase = serde_json::from_value(v).map_err(|e| Failure::new("decode", e.to_string()))?;
    check_installed_name(&c.name)
}

// --- slim vs fat compilations of the same rules; static include! vs bytes ----------------------------

fn check_slim_fat(rel: &str) -> CaseResult {
    let slim = std::fs::read(format!("{}/slim/{rel}", zones::CORPUS_TZIF)).map_err(|e| Failure::new("harness-io", e.to_string()))?;
    let fat = std::fs::read(format!("{}/fat/{rel}", zones::CORPUS_TZIF)).map_err(|e| Failure::new("harness-io", e.to_string()))?;
    let (rs, rf) = (reftz::parse_tzif(&slim).unwrap(), reftz::parse_tzif(&fat).unwrap());
    let mut probes = probes_for(&rs);
    probes.extend(probes_for(&rf));
    probes.sort();
    probes.dedup();
    // Before the first recorded transition the two *files* may legitimately differ: fat files
    // carry an explicit initial ("Big Bang") transition while slim files rely on time type 0,
    // and zic does not always order the types alike. Only instants from the first transition
    // common to both files on are "the same rules".
    let start = rs.trans.first().map(|t| t.0).unwrap_or(reftz::TS_MIN).max(rf.trans.first().map(|t| t.0).unwrap_or(reftz::TS_MIN)) as i128 * NS_PER_SEC;
    probes.retain(|&p| p >= start);
    let a = TimeZone::tzif("Verif/Anon", &slim).map_err(|e| Failure::new("slim-rejected", e.to_string()))?;
    let b = TimeZone::tzif("Verif/Anon", &fat).map_err(|e| Failure::new("fat-rejected", e.to_string()))?;
    // fat files record more explicit transitions, so the *transition lists* legitimately differ in
    // no-op entries; everything else must agree: compare offset info and civil resolution
    for &p in &probes {
        let ts = Timestamp::from_nanosecond(p).unwrap();
        let (ia, ib) = (a.to_offset_info(ts), b.to_offset_info(ts));
        ensure!(
            ia.offset() == ib.offset() && ia.dst() == ib.dst() && ia.abbreviation() == ib.abbreviation(),
            "slim-fat-offset-info",
            "{rel} at {ts}: slim says ({}, {:?}, {}) fat says ({}, {:?}, {})",
            ia.offset(), ia.dst(), ia.abbreviation(), ib.offset(), ib.dst(), ib.abbreviation()
        );
        let dt = a.to_datetime(ts);
        ensure!(format!("{:?}", a.to_ambiguous_timestamp(dt).offset()) == format!("{:?}", b.to_ambiguous_timestamp(dt).offset()), "slim-fat-civil", "{rel} civil {dt}: slim {:?} fat {:?}", a.to_ambiguous_timestamp(dt).offset(), b.to_ambiguous_timestamp(dt).offset());
    }
    // static include! of the same files
    for (kind, bytes_tz, probes) in [("slim", &a, probes_for(&rs)), ("fat", &b, probes_for(&rf))] {
        let key = format!("{kind}/{rel}");
        let Some((_, st)) = crate::static_zones::STATIC_INCLUDE.iter().find(|(n, _)| *n == key) else { fail!("static-include-missing", "{key}") };
        if let Some((p, x, y)) = first_difference(bytes_tz, st, &probes) {
            fail!("static-include-differs-from-bytes", "{key}: at {p}ns bytes answer\n    {x}\n  tz::include! answers\n    {y}");
        }
    }
    Ok(())
}

fn run_slim_fat(rec: &Recorder, check: &'static str) {
    let rels: Vec<String> = std::fs::read_dir(format!("{}/slim/Verif", zones::CORPUS_TZIF)).map(|rd| rd.filter_map(|e| e.ok()).map(|e| format!("Verif/{}", e.file_name().to_string_lossy())).collect()).unwrap_or_default();
    let mut n = 0u64;
    for rel in &rels {
        n += 1;
        sweep_case(rec, check, &NameCase { name: rel.clone() }, || check_slim_fat(rel));
    }
    // thorough: every zone of tzdata.zi compiled slim and fat with zic
    if rec.tier() == Tier::Thorough {
        let data_differs = std::sync::atomic::AtomicU64::new(0);
        let base = format!("{}/.work/c18-zic-{}", VERIF_DIR, std::process::id());
        let ok = |mode: &str| std::process::Command::new("zic").args(["-b", mode, "-d", &format!("{base}/{mode}"), &format!("{}/tzdata.zi", zones::ZONEINFO)]).status().map(|s| s.success()).unwrap_or(false);
        if ok("slim") && ok("fat") {
            let names: Vec<String> = backends().installed.available().map(|n| n.as_str().to_string()).filter(|n| !n.starts_with("right/") && !n.starts_with("posix/")).collect();
            for name in &names {
                let (Ok(s), Ok(f)) = (std::fs::read(format!("{base}/slim/{name}")), std::fs::read(format!("{base}/fat/{name}"))) else { continue };
                let (Some(rs), Some(rf)) = (reftz::parse_tzif(&s), reftz::parse_tzif(&f)) else { continue };
                if !rs.footer_consistent() || !rf.footer_consistent() {
                    rec.add_class("slim-fat:footer-inconsistent-skipped", 1);
                    continue;
                }
                n += 1;
                sweep_case(rec, check, &NameCase { name: format!("zic:{name}") }, || {
                    let a = TimeZone::tzif(name, &s).map_err(|e| Failure::new("slim-rejected", format!("{name}: {e}")))?;
                    let b = TimeZone::tzif(name, &f).map_err(|e| Failure::new("fat-rejected", format!("{name}: {e}")))?;
                    let mut probes = probes_for(&rs);
                    probes.extend(probes_for(&rf));
                    let start = rs.trans.first().map(|t| t.0).unwrap_or(reftz::TS_MIN).max(rf.trans.first().map(|t| t.0).unwrap_or(reftz::TS_MIN)) as i128 * NS_PER_SEC;
                    probes.retain(|&p| p >= start);
                    for p in probes {
                        let ts = Timestamp::from_nanosecond(p).unwrap();
                        // zic itself does not always emit the same rules in both modes (e.g.
                        // Asia/Gaza 2073: the slim output drops the Ramadan pair, confirmed with
                        // zdump). "The same zone rules" holds only where an independent reading of
                        // the two files agrees.
                        let sec = p.div_euclid(NS_PER_SEC) as i64;
                        let (qa, qb) = (rs.lookup(sec), rf.lookup(sec));
                        if qa != qb {
                            data_differs.fetch_add(1, std::sync::atomic::Ordering::Relaxed);
                            continue;
                        }
                        let (ia, ib) = (a.to_offset_info(ts), b.to_offset_info(ts));
                        ensure!(ia.offset() == ib.offset() && ia.dst() == ib.dst() && ia.abbreviation() == ib.abbreviation(), "slim-fat-offset-info", "{name} at {ts}: slim ({}, {}) fat ({}, {})", ia.offset(), ia.abbreviation(), ib.offset(), ib.abbreviation());
                    }
                    Ok(())
                });
            }
            rec.add_class("slim-fat:probes-skipped-zic-output-differs", data_differs.load(std::sync::atomic::Ordering::Relaxed));
        } else {
            rec.add_class("slim-fat:zic-unavailable", 1);
        }
        let _ = std::fs::remove_dir_all(&base);
    }
    rec.add_evaluations(n);
    rec.add_distinct_nontrivial(n);
    rec.add_class("slim-fat:pairs", n);
}

fn replay_slim_fat(v: Value) -> CaseResult {
    let c: NameCase = serde_json::from_value(v).map_err(|e| Failure::new("decode", e.to_string()))?;
    if c.name.starts_with("zic:") {
        return Ok(());
    }
    check_slim_fat(&c.name)
}

// --- a zoneinfo directory with entries that cannot be read: every real zone is still served ----------

/// A private copy of some bundled zones in a zoneinfo-shaped tree in which every directory also
/// holds things a scan must step over (dangling symlinks, a symlink loop, empty and short files,
/// non-TZif files, an empty directory), under names that sort before, between and after the
/// zones. The same bytes through `from_dir` must give the same zones as through `TimeZone::tzif`,
/// and the list of names must be exactly the zones.
fn make_obstacle_tree(tag: &str) -> (std::path::PathBuf, Vec<String>) {
    let root = std::path::PathBuf::from(format!("{}/.work/c18-obst-{}-{tag}", VERIF_DIR, std::process::id()));
    let _ = std::fs::remove_dir_all(&root);
    let names: Vec<String> = bundled_names().iter().filter(|n| n.len() < 40 && !n.contains("GMT+") && !n.contains("GMT-")).cloned().collect();
    let picked: Vec<String> = names.iter().step_by((names.len() / 90).max(1)).cloned().collect();
    let mut dirs: std::collections::BTreeSet<std::path::PathBuf> = std::collections::BTreeSet::new();
    dirs.insert(root.clone());
    for n in &picked {
        let path = root.join(n);
        if let Some(parent) = path.parent() {
            let _ = std::fs::create_dir_all(parent);
            let mut p = parent.to_path_buf();
            while p.starts_with(&root) {
                dirs.insert(p.clone());
                if !p.pop() {
                    break;
                }
            }
        }
        if let Some((_, bytes)) = jiff_tzdb::get(n) {
            std::fs::write(&path, bytes).expect("write zone copy");
        }
    }
    for (k, d) in dirs.iter().enumerate() {
        for pre in ["0", "AAA", "Mm", "localtime", "zz~"] {
            let _ = std::os::unix::fs::symlink("/nonexistent/verif/target", d.join(format!("{pre}-dangling")));
        }
        let _ = std::os::unix::fs::symlink(d.join("Loop-b"), d.join("Loop-a"));
        let _ = std::os::unix::fs::symlink(d.join("Loop-a"), d.join("Loop-b"));
        let _ = std::fs::write(d.join("Empty-file"), b"");
        let _ = std::fs::write(d.join("short"), b"TZ");
        let _ = std::fs::write(d.join("zone.tab"), b"# not a time zone\nXX\t+0000+00000\tNowhere\n");
        let _ = std::fs::write(d.join("+VERSION"), b"2099z\n");
        let _ = std::fs::create_dir_all(d.join(format!("Emptydir{k}")));
    }
    (root, picked)
}

fn check_obstacle_zone(db: &TimeZoneDatabase, name: &str) -> CaseResult {
    let Some((_, bytes)) = jiff_tzdb::get(name) else { return Ok(()) };
    let direct = TimeZone::tzif(name, bytes).map_err(|e| Failure::new("harness-tzif", e.to_string()))?;
    for q in [name.to_string(), name.to_ascii_lowercase(), name.to_ascii_uppercase()] {
        match db.get(&q) {
            Ok(tz) => ensure!(tz == direct && tz.iana_name() == Some(name), "dir-with-obstacles-differs", "from_dir.get({q:?}) = {tz:?}, not the zone in the file"),
            Err(e) => fail!("dir-with-obstacles-missing", "from_dir.get({q:?}) fails although {name} is a valid TZif file in the tree (next to unreadable entries): {e}"),
        }
    }
    Ok(())
}

fn check_obstacle_list(db: &TimeZoneDatabase, picked: &[String]) -> CaseResult {
    let mut listed: Vec<String> = db.available().map(|n| n.as_str().to_string()).collect();
    listed.sort();
    let missing: Vec<&String> = picked.iter().filter(|n| !listed.contains(n)).collect();
    let extra: Vec<&String> = listed.iter().filter(|n| !picked.contains(n)).collect();
    ensure!(missing.is_empty() && extra.is_empty(), "dir-with-obstacles-available", "from_dir over a tree with dangling symlinks and non-TZif files: available() misses {missing:?} and lists {extra:?}");
    Ok(())
}

fn run_dir_obstacles(rec: &Recorder, check: &'static str) {
    let (root, picked) = make_obstacle_tree("sweep");
    let db = match TimeZoneDatabase::from_dir(&root) {
        Ok(db) => db,
        Err(e) => {
            sweep_case(rec, check, &NameCase { name: "(open)".into() }, || Err(Failure::new("dir-with-obstacles-not-opened", format!("from_dir on a tree with unreadable entries fails: {e}"))));
            let _ = std::fs::remove_dir_all(&root);
            return;
        }
    };
    sweep_case(rec, check, &NameCase { name: "(available)".into() }, || check_obstacle_list(&db, &picked));
    let mut n = 0u64;
    for name in &picked {
        n += 1;
        sweep_case(rec, check, &NameCase { name: name.clone() }, || check_obstacle_zone(&db, name));
    }
    rec.add_evaluations(n + 1);
    rec.add_distinct_nontrivial(n + 1);
    rec.add_class("dir-with-obstacles:zones", n);
    rec.add_sample(json!({"check": check, "tree": "copies of bundled zones + dangling symlinks, symlink loop, empty/short/non-TZif files, empty directories in every directory"}));
    let _ = std::fs::remove_dir_all(&root);
}

fn replay_dir_obstacles(v: Value) -> CaseResult {
    let c: NameCase = serde_json::from_value(v).map_err(|e| Failure::new("decode", e.to_string()))?;
    let (root, picked) = make_obstacle_tree("replay");
    let r = match TimeZoneDatabase::from_dir(&root) {
        Err(e) => Err(Failure::new("dir-with-obstacles-not-opened", format!("from_dir on a tree with unreadable entries fails: {e}"))),
        Ok(db) => {
            if c.name == "(available)" {
                check_obstacle_list(&db, &picked)
            } else if c.name == "(open)" {
                Ok(())
            } else {
                check_obstacle_zone(&db, &c.name)
            }
        }
    };
    let _ = std::fs::remove_dir_all(&root);
    r
}

// --- names: ASCII case-insensitive lookup returns the canonical spelling ----------------------------

#[derive(Serialize, Deserialize, Debug, Clone)]
struct CaseVariant {
    name_sel: u16,
    flips: u64,
}

fn bundled_names() -> &'static Vec<String> {
    static N: std::sync::OnceLock<Vec<String>> = std::sync::OnceLock::new();
    N.get_or_init(|| {
        let mut v: Vec<String> = jiff_tzdb::available().map(|s| s.to_string()).collect();
        v.sort();
        v
    })
}

fn test_case_variant(c: &CaseVariant, cx: &mut Cx) -> CaseResult {
    let names = bundled_names();
    let canon = &names[zones::pick(c.name_sel, names.len())];
    let q: String = canon.chars().enumerate().map(|(i, ch)| if c.flips >> (i % 64) & 1 == 1 { if ch.is_ascii_uppercase() { ch.to_ascii_lowercase() } else { ch.to_ascii_uppercase() } } else { ch }).collect();
    cx.nt_if(&q != canon);
    let b = backends();
    let mut dbs: Vec<(&str, &TimeZoneDatabase)> = vec![("bundled", &b.bundled)];
    if canon.len() < 40 {
        dbs.push(("concatenated", &b.concatenated));
    }
    for (what, db) in dbs {
        match db.get(&q) {
            Ok(tz) => ensure!(tz.iana_name() == Some(canon.as_str()), format!("{what}-not-canonical"), "{what}.get({q:?}).iana_name() = {:?}, want {canon:?}", tz.iana_name()),
            Err(e) => fail!(format!("{what}-case-sensitive"), "{what}.get({q:?}) fails: {e}"),
        }
    }
    // ASCII case-insensitive, not Unicode case-insensitive: a spelling with one letter replaced
    // by a non-ASCII character that Unicode case mapping folds onto it (KELVIN SIGN -> k,
    // LONG S -> s, dotted/dotless i, fullwidth letters) is a different name in every back-end
    {
        let letters: Vec<(usize, char)> = canon.char_indices().filter(|(_, ch)| ch.is_ascii_alphabetic()).collect();
        let (pos, ch) = letters[(c.flips >> 7) as usize % letters.len()];
        let special = match ch.to_ascii_lowercase() {
            'k' => Some('\u{212A}'),
            's' => Some('\u{017F}'),
            'i' => Some(if c.flips & 1 == 0 { '\u{0130}' } else { '\u{0131}' }),
            _ => None,
        };
        // prefer a letter that has a special folding, if the name has one
        let (pos, ch, sub) = match letters.iter().find(|(_, l)| matches!(l.to_ascii_lowercase(), 'k' | 's' | 'i')).filter(|_| special.is_none() && c.flips & 2 == 0) {
            Some(&(p2, l2)) => (p2, l2, match l2.to_ascii_lowercase() { 'k' => '\u{212A}', 's' => '\u{017F}', _ => '\u{0131}' }),
            None => (pos, ch, special.unwrap_or_else(|| char::from_u32(0xFF21 + (ch.to_ascii_uppercase() as u32 - 'A' as u32) + if ch.is_ascii_lowercase() { 0x20 } else { 0 }).unwrap())),
        };
        let mut alike = String::new();
        alike.push_str(&q[..pos]);
        alike.push(sub);
        alike.push_str(&q[pos + ch.len_utf8()..]);
        cx.class("non-ascii-look-alike");
        let mut all: Vec<(&str, &TimeZoneDatabase)> = vec![("bundled", &b.bundled), ("concatenated", &b.concatenated), ("from_dir", &b.installed)];
        for (what, db) in all.drain(..) {
            if let Ok(tz) = db.get(&alike) {
                fail!(format!("{what}-accepts-non-ascii-variant"), "{what}.get({alike:?}) resolves to {:?}: lookup is documented as ASCII case-insensitive, {sub:?} is not an ASCII letter", tz.iana_name());
            }
        }
    }
    // installed directory: its own canonical spelling
    if let Ok(tz) = b.installed.get(canon) {
        let want = tz.iana_name().map(|s| s.to_string());
        match b.installed.get(&q) {
            Ok(t2) => ensure!(t2.iana_name().map(|s| s.to_string()) == want, "dir-not-canonical", "from_dir.get({q:?}).iana_name() = {:?}, want {want:?}", t2.iana_name()),
            Err(e) => fail!("dir-case-sensitive", "from_dir.get({q:?}) fails: {e}"),
        }
    }
    Ok(())
}

fn strat_case_variant() -> BoxedStrategy<CaseVariant> {
    (any::<u16>(), prop_oneof![Just(0u64), Just(u64::MAX), any::<u64>()]).prop_map(|(name_sel, flips)| CaseVariant { name_sel, flips }).boxed()
}

// --- POSIX zones: printed form parses back to the same zone ---------------------------------------

#[derive(Serialize, Deserialize, Debug, Clone)]
struct PosixPrint {
    tz: String,
}

fn test_posix_print(c: &PosixPrint, cx: &mut Cx) -> CaseResult {
    let Ok(tz) = TimeZone::posix(&c.tz) else {
        cx.tolerate("jiff-rejects");
        return Ok(());
    };
    let dbg = format!("{tz:?}");
    let Some(printed) = dbg.strip_prefix("TimeZone(Posix(").and_then(|s| s.strip_suffix("))")) else { fail!("posix-debug-shape", "unexpected Debug form {dbg:?}") };
    cx.nt_if(printed != c.tz);
    cx.class_if(printed != c.tz, "printed-differs-from-input");
    let back = TimeZone::posix(printed).map_err(|e| Failure::new("posix-print-unparseable", format!("{:?} prints as {printed:?} which does not parse: {e}", c.tz)))?;
    ensure!(back == tz, "posix-print-not-equal", "{:?} prints as {printed:?} which parses to a different zone", c.tz);
    // identical behaviour on the transitions of a few years and the limits
    let mut probes = vec![TS_MIN_NS, TS_MAX_NS, 0];
    if let Some(p) = reftz::parse_posix(&c.tz) {
        for y in [1900, 1969, 1970, 2024, 2025, 9998] {
            for (t, _) in p.year_transitions(y) {
                for d in [-NS_PER_SEC, -1, 0, 1] {
                    probes.push((t as i128 * NS_PER_SEC + d).clamp(TS_MIN_NS, TS_MAX_NS));
                }
            }
        }
    }
    if let Some((p, x, y)) = first_difference(&tz, &back, &probes) {
        fail!("posix-print-behaviour-differs", "{:?} -> {printed:?}: at {p}ns\n    {x}\n  vs\n    {y}", c.tz);
    }
    // the documented pair: DateTimePrinter::time_zone_to_string / DateTimeParser::parse_time_zone
    {
        use jiff::fmt::temporal::{DateTimeParser, DateTimePrinter};
        let text = DateTimePrinter::new().time_zone_to_string(&tz).map_err(|e| Failure::new("posix-print-unprintable", format!("{:?}: time_zone_to_string fails: {e}", c.tz)))?;
        let mut text2 = String::new();
        ensure!(DateTimePrinter::new().print_time_zone(&tz, &mut text2).is_ok() && text2 == text, "posix-print-routes-differ", "{:?}: print_time_zone wrote {text2:?}, time_zone_to_string {text:?}", c.tz);
        for (what, parsed) in [("parse_time_zone", DateTimeParser::new().parse_time_zone(&text)), ("parse_time_zone_with", DateTimeParser::new().parse_time_zone_with(jiff::tz::db(), &text)), ("parse_time_zone(bytes)", DateTimeParser::new().parse_time_zone(text.as_bytes()))] {
            let back2 = parsed.map_err(|e| Failure::new("posix-print-unparseable", format!("{:?} prints as {text:?} which {what} does not parse: {e}", c.tz)))?;
            ensure!(back2 == tz, "posix-print-not-equal", "{:?} prints as {text:?} which {what} parses to a different zone", c.tz);
            if let Some((p, x, y)) = first_difference(&tz, &back2, &probes) {
                fail!("posix-print-behaviour-differs", "{:?} -> {text:?} -> {what}: at {p}ns\n    {x}\n  vs\n    {y}", c.tz);
            }
        }
    }
    Ok(())
}

fn strat_posix_print() -> BoxedStrategy<PosixPrint> {
    crate::props::c03::strat_posix_string().prop_map(|tz| PosixPrint { tz }).boxed()
}

// --- cross-build: in-memory fattening on vs off -----------------------------------------------------

/// One line per zone: label, acceptance, digest of all probe answers.
pub fn digest_lines() -> Vec<String> {
    let mut out = vec![];
    let mut items: Vec<(String, Vec<u8>)> = vec![];
    for name in bundled_names() {
        if let Some((_, b)) = jiff_tzdb::get(name) {
            items.push((format!("bundled:{name}"), b.to_vec()));
        }
    }
    let mut files = vec![];
    fn walk(d: &std::path::Path, out: &mut Vec<std::path::PathBuf>) {
        if let Ok(rd) = std::fs::read_dir(d) {
            let mut es: Vec<_> = rd.filter_map(|e| e.ok()).collect();
            es.sort_by_key(|e| e.file_name());
            for e in es {
                if e.path().is_dir() {
                    walk(&e.path(), out)
                } else {
                    out.push(e.path())
                }
            }
        }
    }
    walk(std::path::Path::new(zones::CORPUS_TZIF), &mut files);
    for f in files {
        if let Ok(b) = std::fs::read(&f) {
            items.push((format!("corpus:{}", f.strip_prefix(zones::CORPUS_TZIF).unwrap().display()), b));
        }
    }
    for l in zones::FEATURED {
        if let Some(rel) = l.strip_prefix("file:") {
            if let Ok(b) = std::fs::read(format!("{}/{rel}", zones::ZONEINFO)) {
                items.push((format!("installed:{rel}"), b));
            }
        }
    }
    for (label, bytes) in items {
        let Some(rz) = reftz::parse_tzif(&bytes) else { continue };
        match TimeZone::tzif("Verif/Anon", &bytes) {
            Ok(tz) => {
                let probes = probes_for(&rz);
                out.push(format!("{label}\taccepted\t{:016x}\t{}", digest(&tz, &probes), probes.len()));
            }
            Err(_) => out.push(format!("{label}\trejected\t-\t0")),
        }
    }
    // static zones go through crates/jiff-static's own copy of the fattening code
    for (name, tz) in crate::static_zones::STATIC_GET.iter().step_by(7) {
        if let Some((_, b)) = jiff_tzdb::get(name) {
            if let Some(rz) = reftz::parse_tzif(b) {
                let probes = probes_for(&rz);
                out.push(format!("static:{name}\taccepted\t{:016x}\t{}", digest(tz, &probes), probes.len()));
            }
        }
    }
    out
}

fn run_cross_build(rec: &Recorder, check: &'static str) {
    let Ok(other) = std::env::var("JV_NOFAT_BIN") else {
        rec.health_error("c18.cross_build: JV_NOFAT_BIN is not set (the ./check driver builds and sets it)".into());
        return;
    };
    let mine = digest_lines();
    let out = std::process::Command::new(&other).arg("c18-digest").output();
    let Ok(out) = out else {
        rec.health_error(format!("c18.cross_build: cannot run {other}"));
        return;
    };
    if !out.status.success() {
        rec.health_error(format!("c18.cross_build: {other} c18-digest failed: {}", String::from_utf8_lossy(&out.stderr)));
        return;
    }
    let theirs: BTreeMap<String, String> = String::from_utf8_lossy(&out.stdout).lines().filter_map(|l| l.split_once('\t').map(|(a, b)| (a.to_string(), b.to_string()))).collect();
    let mut n = 0u64;
    let mut probes_total = 0u64;
    for line in &mine {
        let Some((label, rest)) = line.split_once('\t') else { continue };
        n += 1;
        probes_total += rest.rsplit('\t').next().and_then(|x| x.parse::<u64>().ok()).unwrap_or(0);
        let case = NameCase { name: label.to_string() };
        sweep_case(rec, check, &case, || {
            let Some(t) = theirs.get(label) else { fail!("cross-build-missing", "{label}: no line from the build without tz-fat") };
            if t != rest {
                let (a, b) = (rest.split('\t').next().unwrap_or(""), t.split('\t').next().unwrap_or(""));
                if a != b {
                    fail!("acceptance-differs-between-builds", "{label}: with tz-fat the data is {a}, without tz-fat it is {b}");
                }
                fail!("answers-differ-between-builds", "{label}: the digest of all probe answers differs between the build with in-memory fattening and the build without it ({rest} vs {t}); run `jv c18-dump {label}` with both binaries to locate the probe");
            }
            Ok(())
        });
    }
    rec.add_evaluations(probes_total);
    rec.add_distinct_nontrivial(n);
    rec.add_class("cross-build:zones", n);
    rec.add_sample(json!({"check": check, "compared_zone_digests": n, "probe_answers": probes_total}));
}

fn replay_cross(_: Value) -> CaseResult {
    Ok(())
}

fn run_cleanup(_rec: &Recorder, _check: &'static str) {
    cleanup_backend_files();
}


// --- generated slim files whose footer introduces local time types that are not in the table --------
// (in-memory fattening has to create them: the fattened answers must equal the rule's answers)

#[derive(Serialize, Deserialize, Debug, Clone)]
struct FattenCase {
    rule_sel: u16,
    /// how the table's older designations relate to the rule's: bit 0 a longer name ending in the
    /// DST abbreviation, bit 1 one ending in the standard abbreviation, bit 2 an older type with
    /// the rule's DST offset and abbreviation but the other DST flag, bit 3 same for standard
    shape: u8,
    prefix_sel: u8,
    year: u16,
}

fn strat_fatten() -> BoxedStrategy<FattenCase> {
    (any::<u16>(), 0u8..16, any::<u8>(), 1972u16..=2030).prop_map(|(rule_sel, shape, prefix_sel, year)| FattenCase { rule_sel, shape, prefix_sel, year }).boxed()
}

fn test_fatten(c: &FattenCase, cx: &mut Cx) -> CaseResult {
    use crate::refmodel::reftz;
    let rules: Vec<&str> = zones::POSIX_STRINGS.iter().copied().filter(|s| s.contains(',')).collect();
    let rule = rules[zones::pick(c.rule_sel, rules.len())];
    let Some(p) = reftz::parse_posix(rule) else { return Ok(()) };
    let Some(r) = &p.rule else { return Ok(()) };
    if !p.is_tame(8 * 86400) {
        return Ok(());
    }
    let prefix = ["A", "X", "Zq", "N"][(c.prefix_sel % 4) as usize];
    let (std, dst) = (p.std.clone(), r.dst.clone());
    // the last explicit transition: the rule's own switch to standard time in `year`
    let y = c.year as i64;
    let tr = p.year_transitions(y);
    let t_std = tr.iter().find(|(_, i)| !i.dst).map(|(t, _)| *t).unwrap();
    let t_dst = tr.iter().find(|(_, i)| i.dst).map(|(t, _)| *t).unwrap();
    if !(0..i32::MAX as i64).contains(&t_std) || !(0..i32::MAX as i64).contains(&t_dst) {
        return Ok(());
    }
    let mut types: Vec<(String, i32, bool)> = vec![("LMT".into(), std.off - 137, false)];
    let mut trans: Vec<(i64, u8)> = vec![];
    let mut t = t_std.min(t_dst) - 3 * 366 * 86400;
    let mut older = |abbr: String, off: i32, isdst: bool, types: &mut Vec<(String, i32, bool)>, trans: &mut Vec<(i64, u8)>| {
        types.push((abbr, off, isdst));
        trans.push((t, (types.len() - 1) as u8));
        t += 200 * 86400;
    };
    if c.shape & 1 != 0 {
        older(format!("{prefix}{}", dst.abbr), dst.off, true, &mut types, &mut trans);
    }
    if c.shape & 2 != 0 {
        older(format!("{prefix}{}", std.abbr), std.off, false, &mut types, &mut trans);
    }
    if c.shape & 4 != 0 {
        older(dst.abbr.clone(), dst.off, false, &mut types, &mut trans);
    }
    if c.shape & 8 != 0 {
        older(std.abbr.clone(), std.off, true, &mut types, &mut trans);
    }
    // finally the rule's own standard type as the last recorded transition (the DST type of the
    // rule is *not* in the table unless an older look-alike put it there)
    types.push((std.abbr.clone(), std.off, false));
    trans.push((t_std, (types.len() - 1) as u8));
    if trans.windows(2).any(|w| w[0].0 >= w[1].0) || types.iter().any(|(a, o, _)| a.len() > 12 || o.abs() > 93599) {
        return Ok(());
    }
    let bytes = crate::tzfiles::build_tzif(&types, &trans, rule);
    let Some(rz) = reftz::parse_tzif(&bytes) else { fail!("HARNESS-PANIC", "the reference reader rejects the generated file for {rule}") };
    let tz = match TimeZone::tzif("Verif/Generated", &bytes) {
        Ok(tz) => tz,
        Err(e) => {
            // a footer that is inconsistent with the last transition is legitimately refused
            cx.class("fatten: generated file refused");
            let _ = e;
            return Ok(());
        }
    };
    cx.nt();
    cx.class("fatten: generated file accepted");
    cx.class_if(c.shape & 3 != 0, "fatten: table has a longer designation ending in one of the rule's");
    cx.class_if(c.shape & 12 != 0, "fatten: table has a look-alike type with the other DST flag");
    // probes: every rule transition of the following 12 years (inside and beyond the fattened
    // range when the year is late) +-1s, and the far future
    let mut probes: Vec<i64> = vec![t_std, t_std + 1, t_std + 86400 * 30];
    for yy in (y + 1)..=(y + 12).max(2040) {
        if (yy - y) > 12 && yy < 2036 {
            continue;
        }
        for (tt, _) in p.year_transitions(yy) {
            probes.extend([tt - 1, tt, tt + 1, tt + 86400 * 20]);
        }
    }
    for &s in &probes {
        let Ok(ts) = Timestamp::from_second(s) else { continue };
        let want = rz.lookup(s);
        let got = tz.to_offset_info(ts);
        ensure!(
            got.offset().seconds() == want.off && (got.dst() == jiff::tz::Dst::Yes) == want.dst && got.abbreviation() == want.abbr,
            "fattened-answer-differs-from-rule",
            "rule {rule}, table types {types:?}: at {ts} jiff says ({}, {:?}, {:?}), the footer rule prescribes ({}, dst={}, {:?})",
            got.offset(), got.dst(), got.abbreviation(), want.off, want.dst, want.abbr
        );
    }
    // the transitions handed out after the last recorded one carry the rule's types too
    let start = Timestamp::from_second(t_std).unwrap();
    for trn in tz.following(start).take(8) {
        let s = trn.timestamp().as_second();
        let want = rz.lookup(s);
        ensure!(trn.offset().seconds() == want.off && (trn.dst() == jiff::tz::Dst::Yes) == want.dst && trn.abbreviation() == want.abbr, "fattened-transition-differs-from-rule", "rule {rule}, table types {types:?}: following() yields ({}, {:?}, {:?}) at {}, the rule prescribes ({}, dst={}, {:?})", trn.offset(), trn.dst(), trn.abbreviation(), trn.timestamp(), want.off, want.dst, want.abbr);
    }
    Ok(())
}

pub fn property() -> Property {
    let _: Option<Arc<()>> = None;
    Property {
        id: "C18",
        level: "exploration",
        rule: "Differential sweep: for every name of the bundled database the same TZif bytes are loaded through TimeZone::tzif, the bundled database, an Android-style concatenated file built by the harness from those bytes, and the tz::get! static macro (a build script generates a static for every name); for every installed name through from_dir and through bytes; committed synthetic zones through tz::include!. All back-ends must give identical answers (offset info, civil resolution kind, next/previous two transitions, printed Zoned) on every transition of the zone +-{1s, 1ns, 0.5s} and the range limits. Slim and fat zic compilations of the same rules (committed pairs; all of tzdata.zi in thorough) must agree on offset info and civil resolution. Cross-build: the same digests are computed by a second build of the harness without jiff's tz-fat feature and compared zone by zone, including acceptance of an RFC-inconsistent file. proptest: ASCII case variants of every name return the canonical spelling in each database; generated POSIX TZ strings print (Debug form) to a string that parses back to an equal zone with identical behaviour. Every (zone, back-end) pair is a distinct case.",
        assumptions: &["bundled and installed data may be different tzdb releases, so only same-bytes and same-rules pairs are compared", "reftz.rs is only used to choose probe instants"],
        checks: vec![
            Box::new(Sweep { name: "c18.same_bytes", run: run_bundled, replay: replay_bundled }),
            Box::new(Sweep { name: "c18.installed", run: run_installed, replay: replay_installed }),
            Box::new(Sweep { name: "c18.slim_fat_static", run: run_slim_fat, replay: replay_slim_fat }),
            Box::new(Sweep { name: "c18.dir_obstacles", run: run_dir_obstacles, replay: replay_dir_obstacles }),
            Box::new(Prop { name: "c18.names", quick: 120_000, thorough: 2_000_000, strategy: strat_case_variant, test: test_case_variant }),
            Box::new(Prop { name: "c18.posix_print", quick: 600_000, thorough: 6_000_000, strategy: strat_posix_print, test: test_posix_print }),
            Box::new(Prop { name: "c18.fatten_generated", quick: 60_000, thorough: 2_000_000, strategy: strat_fatten, test: test_fatten }),
            Box::new(Sweep { name: "c18.cross_build", run: run_cross_build, replay: replay_cross }),
            Box::new(Sweep { name: "c18.cleanup", run: run_cleanup, replay: replay_cross }),
        ],
        floors: |rec| {
            rec.floor("c18.posix_print:printed-differs-from-input", "c18.posix_print:cases", 0.05);
        },
    }
}
