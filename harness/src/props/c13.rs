//! C13 Every Zoned value is internally consistent with its time zone.
//!
//! Stateful check: a start value and a generated history of public operations
//! are interpreted step by step; the invariant is evaluated after every step,
//! both through jiff's own lookups and through the reference zone reader.

use std::hash::{Hash, Hasher};
use std::sync::Arc;

use jiff::civil::Weekday;
use jiff::tz::{Disambiguation, Offset, OffsetConflict};
use jiff::{RoundMode, SignedDuration, Unit, Zoned, ZonedRound};
use proptest::prelude::*;
use serde::{Deserialize, Serialize};

use crate::engine::*;
use crate::gen::{self, SpanSpec};
use crate::props::c03::{resolve_probe, strat_zone_probe, ZoneProbe};
use crate::props::c07::UNITS;
use crate::refmodel::reftz::Civil;
use crate::refmodel::refzoned as rz;
use crate::refmodel::wide::*;
use crate::zones::{self, Zone};
use crate::{ensure, fail};

/// zones: every name reachable through the global database (so that printing
/// and re-parsing resolves to the same data), fixed offsets and UTC
fn zone_list() -> &'static Vec<Arc<Zone>> {
    static U: std::sync::OnceLock<Vec<Arc<Zone>>> = std::sync::OnceLock::new();
    U.get_or_init(|| {
        let db = jiff::tz::db();
        let mut v = vec![];
        for name in db.available() {
            let name = name.as_str().to_string();
            // right/ and posix/ copies print a name that re-resolves to
            // themselves, fine; keep all
            let Ok(tz) = db.get(&name) else { continue };
            let Ok(bytes) = std::fs::read(format!("{}/{}", zones::ZONEINFO, name)) else { continue };
            let Some(rzone) = crate::refmodel::reftz::parse_tzif(&bytes) else { continue };
            if !rzone.footer_consistent() {
                continue;
            }
            let probes = zones::make_probes(&rzone, 2045);
            v.push(Arc::new(Zone { label: format!("db:{name}"), tz, has_footer: rzone.footer.is_some(), explicit: rzone.trans.len(), rz: rzone, bytes: None, probes }));
        }
        for o in [0, 3600, -34200, 20700, 93540, -93540] {
            v.push(zones::by_label(&format!("fixed:{o}")).unwrap());
        }
        v.push(zones::by_label("utc").unwrap());
        // rule-only POSIX zones (no IANA name: print->parse is skipped for them), listed
        // several times so that they get a fair share next to ~1200 database names
        for _ in 0..12 {
            v.extend(zones::posix_zones().iter().cloned());
        }
        // hostile rules (a gap that reaches past the next transition): only the internal
        // consistency clauses apply to them (see `invariant`)
        for _ in 0..20 {
            v.extend(zones::posix_adversarial_zones().iter().cloned());
        }
        v
    })
}

#[derive(Serialize, Deserialize, Debug, Clone)]
enum Op {
    AddSpan(SpanSpec),
    SubSpan(SpanSpec),
    SaturatingAdd(SpanSpec),
    AddDuration(i64, i32),
    Round(u8, i64, u8),
    WithDate((i16, i8, i8)),
    WithTime(i64),
    WithYear(i16),
    WithMonth(i8),
    WithDay(i8),
    WithHour(i8),
    WithMinute(i8),
    WithSecond(i8),
    WithSubsec(i32),
    /// offset seconds, conflict strategy 0..4, disambiguation 0..4
    WithOffset(i32, u8, u8),
    /// only disambiguation/conflict settings plus a time change
    WithTimeStrategies(i64, u8, u8),
    WithTimeZone(u16),
    InTz(u16),
    StartOfDay,
    EndOfDay,
    Tomorrow,
    Yesterday,
    FirstOfMonth,
    LastOfMonth,
    FirstOfYear,
    LastOfYear,
    NthWeekday(i32, u8),
    NthWeekdayOfMonth(i8, u8),
    PrintParse,
    StrfStrp,
    CivilToZoned(u8),
    SeriesNth(SpanSpec, u8),
    UntilAddBack(ZoneProbe, u8),
    ToZonedViaTimestamp,
    /// Timestamp near the Unix epoch (ns) placed in the current zone
    EpochNeighbourhood(i64),
}

#[derive(Serialize, Deserialize, Debug, Clone)]
struct History {
    start: ZoneProbe,
    ops: Vec<Op>,
}

fn small_span() -> BoxedStrategy<SpanSpec> {
    (any::<bool>(), proptest::collection::vec(prop_oneof![5 => Just(0i64), 3 => 0i64..4, 2 => 0i64..40, 1 => 0i64..3000], 10))
        .prop_map(|(neg, v)| {
            let mut u = [0i64; 10];
            u.copy_from_slice(&v);
            SpanSpec { neg, u }
        })
        .boxed()
}

fn strat_op() -> BoxedStrategy<Op> {
    prop_oneof![
        4 => small_span().prop_map(Op::AddSpan),
        2 => small_span().prop_map(Op::SubSpan),
        1 => gen::span_spec().prop_map(Op::SaturatingAdd),
        2 => (gen::biased(-400_000, 400_000), 0i32..1_000_000_000).prop_map(|(s, n)| Op::AddDuration(s, if s < 0 { -n } else { n })),
        2 => gen::biased(-400_000, 400_000).prop_map(|s| Op::AddDuration(s, 0)),
        1 => (-20_000_000_000i64..20_000_000_000).prop_map(Op::EpochNeighbourhood),
        3 => (3u8..10, prop_oneof![Just(1i64), Just(2), Just(5), Just(10), Just(15), Just(30), Just(6), Just(12), Just(500)], 0u8..9).prop_map(|(u, i, m)| Op::Round(u, i, m)),
        2 => gen::ymd().prop_map(Op::WithDate),
        3 => gen::tod_ns().prop_map(Op::WithTime),
        1 => (-9999i16..=9999).prop_map(Op::WithYear),
        2 => (1i8..=12).prop_map(Op::WithMonth),
        2 => (1i8..=31).prop_map(Op::WithDay),
        3 => (0i8..=23).prop_map(Op::WithHour),
        2 => (0i8..=59).prop_map(Op::WithMinute),
        1 => (0i8..=59).prop_map(Op::WithSecond),
        1 => (0i32..1_000_000_000).prop_map(Op::WithSubsec),
        3 => (gen::offset_secs(), 0u8..4, 0u8..4).prop_map(|(o, c, d)| Op::WithOffset(o, c, d)),
        3 => (gen::tod_ns(), 0u8..4, 0u8..4).prop_map(|(t, c, d)| Op::WithTimeStrategies(t, c, d)),
        3 => any::<u16>().prop_map(Op::WithTimeZone),
        1 => any::<u16>().prop_map(Op::InTz),
        2 => Just(Op::StartOfDay),
        2 => Just(Op::EndOfDay),
        2 => Just(Op::Tomorrow),
        2 => Just(Op::Yesterday),
        1 => Just(Op::FirstOfMonth),
        1 => Just(Op::LastOfMonth),
        1 => Just(Op::FirstOfYear),
        1 => Just(Op::LastOfYear),
        1 => (-5i32..=5, 0u8..7).prop_map(|(n, w)| Op::NthWeekday(n, w)),
        1 => (-5i8..=5, 0u8..7).prop_map(|(n, w)| Op::NthWeekdayOfMonth(n, w)),
        3 => Just(Op::PrintParse),
        2 => Just(Op::StrfStrp),
        3 => (0u8..3).prop_map(Op::CivilToZoned),
        1 => (small_span(), 0u8..6).prop_map(|(s, k)| Op::SeriesNth(s, k)),
        2 => (strat_zone_probe(), 0u8..10).prop_map(|(p, u)| Op::UntilAddBack(p, u)),
        1 => Just(Op::ToZonedViaTimestamp),
    ]
    .boxed()
}

fn strat_history() -> BoxedStrategy<History> {
    (strat_zone_probe(), proptest::collection::vec(strat_op(), 1..12)).prop_map(|(start, ops)| History { start, ops }).boxed()
}

fn h<T: Hash>(v: &T) -> u64 {
    let mut s = std::collections::hash_map::DefaultHasher::new();
    v.hash(&mut s);
    s.finish()
}

/// The invariant of C13, through jiff's own lookups and through the reference.
fn invariant(z: &Zoned, zone: &Zone, step: &str) -> CaseResult {
    let ts = z.timestamp();
    if let Err(e) = gen::ts_sane(ts) {
        fail!("incoherent-timestamp", "{step}: {z:?}: {e}");
    }
    let own = z.time_zone().to_offset(ts);
    ensure!(z.offset() == own, "offset-vs-own-lookup", "{step}: {z} stores offset {} but its time zone assigns {own} to its instant", z.offset());
    let shown = z.offset().to_datetime(ts);
    ensure!(z.datetime() == shown, "civil-vs-offset", "{step}: {z} stores civil {} but instant+offset gives {shown}", z.datetime());
    ensure!(z.time_zone() == &zone.tz, "zone-tracking", "{step}: the value's time zone is not the one the history expects ({})", zone.label);
    if zones::POSIX_ADVERSARIAL.iter().any(|s| zone.label.strip_prefix("posix:") == Some(*s)) {
        return Ok(());
    }
    // reference
    let ns = ts.as_nanosecond();
    let (loc, off) = rz::local_of(&zone.rz, ns);
    ensure!(z.offset().seconds() == off, "offset-vs-reference", "{step}: [{}] {z} stores offset {} but the zone data says {off}", zone.label, z.offset());
    ensure!(crate::props::c04::dt_to_civil(z.datetime()) == loc, "civil-vs-reference", "{step}: [{}] {z} stores civil {} but the zone data gives local ns {loc}", zone.label, z.datetime());
    ensure!(z.time_zone() == &zone.tz, "zone-tracking", "{step}: the value's time zone is not the one the history expects ({})", zone.label);
    // accessors delegate consistently
    ensure!(z.date() == z.datetime().date() && z.time() == z.datetime().time() && z.year() == z.datetime().year() && z.subsec_nanosecond() == z.datetime().subsec_nanosecond(), "accessors", "{step}: accessors disagree with datetime()");
    // every field accessor of the Zoned itself, against the reference civil reading
    {
        use crate::refmodel::refcal as rc;
        let (y, m, d, tod) = rz::civil_parts(loc);
        let sub = (tod % NS_PER_SEC) as i64;
        let dn = rc::to_days(y, m, d);
        let got = (
            (z.year() as i64, z.month() as i64, z.day() as i64),
            (z.hour() as i64, z.minute() as i64, z.second() as i64),
            (z.millisecond() as i64, z.microsecond() as i64, z.nanosecond() as i64, z.subsec_nanosecond() as i64),
            (z.weekday().to_monday_zero_offset() as i64, z.day_of_year() as i64, z.days_in_month() as i64, z.days_in_year() as i64, z.in_leap_year()),
        );
        let want = (
            (y, m, d),
            ((tod / (3600 * NS_PER_SEC)) as i64, (tod / (60 * NS_PER_SEC) % 60) as i64, (tod / NS_PER_SEC % 60) as i64),
            (sub / 1_000_000, sub / 1000 % 1000, sub % 1000, sub),
            (rc::weekday_mon0(dn), rc::day_of_year(y, m, d), rc::days_in_month(y, m), if rc::is_leap(y) { 366 } else { 365 }, rc::is_leap(y)),
        );
        ensure!(got == want, "zoned-field-accessors", "{step}: [{}] {z}: field accessors read {got:?}, the instant shifted by the offset has {want:?}", zone.label);
        let (ey, era) = z.era_year();
        ensure!(if y >= 1 { ey as i64 == y && era == jiff::civil::Era::CE } else { ey as i64 == 1 - y && era == jiff::civil::Era::BCE }, "zoned-field-accessors", "{step}: {z}: era_year() = {:?}", z.era_year());
        let iso = z.clone().iso_week_date();
        let (iy, iw, iwd) = rc::iso_week(dn);
        ensure!((iso.year() as i64, iso.week() as i64, iso.weekday().to_monday_zero_offset() as i64) == (iy, iw, iwd), "zoned-field-accessors", "{step}: {z}: iso_week_date() = {iso:?}");
        let want_dnl = if rc::is_leap(y) && m == 2 && d == 29 { None } else if rc::is_leap(y) && m > 2 { Some(rc::day_of_year(y, m, d) - 1) } else { Some(rc::day_of_year(y, m, d)) };
        ensure!(z.day_of_year_no_leap().map(i64::from) == want_dnl, "zoned-field-accessors", "{step}: {z}: day_of_year_no_leap() = {:?}", z.day_of_year_no_leap());
    }
    Ok(())
}

fn conflict(c: u8) -> OffsetConflict {
    [OffsetConflict::AlwaysOffset, OffsetConflict::AlwaysTimeZone, OffsetConflict::PreferOffset, OffsetConflict::Reject][c as usize % 4]
}
fn disamb(d: u8) -> Disambiguation {
    [Disambiguation::Compatible, Disambiguation::Earlier, Disambiguation::Later, Disambiguation::Reject][d as usize % 4]
}

fn test_history(hist: &History, cx: &mut Cx) -> CaseResult {
    let zs = zone_list();
    let (mut zone, ns) = resolve_probe(zs, &hist.start);
    let mut z: Zoned = crate::props::c06::mk_zoned(&zone, ns);
    invariant(&z, &zone, "start")?;
    // the Default value is a zoned datetime like any other (the epoch in UTC)
    {
        let dflt = Zoned::default();
        let utc = zones::by_label("utc").unwrap();
        ensure!(dflt.timestamp().as_nanosecond() == 0, "default-not-epoch", "Zoned::default() = {dflt}");
        invariant(&dflt, &utc, "Zoned::default()")?;
    }
    let mut ok_ops = 0usize;
    let mut window_hits = 0usize;
    let mut direct_assembly = 0usize;
    for (i, op) in hist.ops.iter().enumerate() {
        let step = format!("step {i} {op:?} on {z}");
        let mut new_zone = zone.clone();
        let r: Result<Zoned, jiff::Error> = match op {
            Op::AddSpan(s) => z.checked_add(s.to_span()),
            Op::SubSpan(s) => z.checked_sub(s.to_span()),
            Op::SaturatingAdd(s) => Ok(z.saturating_add(s.to_span())),
            Op::AddDuration(s, n) => z.checked_add(SignedDuration::new(*s, *n)),
            Op::Round(u, inc, m) => {
                let modes = [RoundMode::Ceil, RoundMode::Floor, RoundMode::Expand, RoundMode::Trunc, RoundMode::HalfCeil, RoundMode::HalfFloor, RoundMode::HalfExpand, RoundMode::HalfTrunc, RoundMode::HalfEven];
                z.round(ZonedRound::new().smallest(UNITS[*u as usize]).increment(*inc).mode(modes[*m as usize % 9]))
            }
            Op::WithDate(d) => z.with().date(gen::mk_date(d.0, d.1, d.2)).build(),
            Op::WithTime(t) => z.with().time(gen::mk_time(*t)).build(),
            Op::WithYear(y) => z.with().year(*y).build(),
            Op::WithMonth(m) => z.with().month(*m).build(),
            Op::WithDay(d) => z.with().day(*d).build(),
            Op::WithHour(x) => z.with().hour(*x).build(),
            Op::WithMinute(x) => z.with().minute(*x).build(),
            Op::WithSecond(x) => z.with().second(*x).build(),
            Op::WithSubsec(x) => z.with().subsec_nanosecond(*x).build(),
            Op::WithOffset(o, c, d) => {
                direct_assembly += 1;
                z.with().offset(Offset::from_seconds(*o).unwrap()).offset_conflict(conflict(*c)).disambiguation(disamb(*d)).build()
            }
            Op::WithTimeStrategies(t, c, d) => {
                direct_assembly += 1;
                z.with().time(gen::mk_time(*t)).offset_conflict(conflict(*c)).disambiguation(disamb(*d)).build()
            }
            Op::WithTimeZone(sel) => {
                new_zone = zs[zones::pick(*sel, zs.len())].clone();
                let before = z.timestamp();
                let w = z.with_time_zone(new_zone.tz.clone());
                ensure!(w.timestamp() == before, "with-time-zone-changes-instant", "{step}: with_time_zone moved the instant from {before} to {}", w.timestamp());
                Ok(w)
            }
            Op::InTz(sel) => {
                let cand = zs[zones::pick(*sel, zs.len())].clone();
                match cand.label.strip_prefix("db:") {
                    Some(name) => {
                        new_zone = cand.clone();
                        let before = z.timestamp();
                        let w = z.in_tz(name);
                        if let Ok(w) = &w {
                            ensure!(w.timestamp() == before, "in-tz-changes-instant", "{step}: in_tz moved the instant");
                        }
                        w
                    }
                    None => Ok(z.clone()),
                }
            }
            Op::StartOfDay => z.start_of_day(),
            Op::EndOfDay => z.end_of_day(),
            Op::Tomorrow => z.tomorrow(),
            Op::Yesterday => z.yesterday(),
            Op::FirstOfMonth => z.first_of_month(),
            Op::LastOfMonth => z.last_of_month(),
            Op::FirstOfYear => z.first_of_year(),
            Op::LastOfYear => z.last_of_year(),
            Op::NthWeekday(n, w) => z.nth_weekday(*n, Weekday::from_monday_zero_offset(*w as i8).unwrap()),
            Op::NthWeekdayOfMonth(n, w) => z.nth_weekday_of_month(*n, Weekday::from_monday_zero_offset(*w as i8).unwrap()),
            Op::PrintParse => {
                // round trip through the RFC 9557 text (named zones and whole-minute fixed offsets)
                let named = zone.label.starts_with("db:") || zone.label == "utc";
                let whole_minute_fixed = zone.label.starts_with("fixed:") && z.offset().seconds() % 60 == 0;
                if named || whole_minute_fixed {
                    let text = z.to_string();
                    match text.parse::<Zoned>() {
                        Ok(p) => Ok(p),
                        Err(e) => fail!("print-parse-err", "{step}: {text:?} does not parse: {e}"),
                    }
                } else {
                    Ok(z.clone())
                }
            }
            Op::StrfStrp => {
                if zone.label.starts_with("db:") {
                    let f = "%Y-%m-%dT%H:%M:%S%.f%:z[%Q]";
                    let text = z.strftime(f).to_string();
                    match Zoned::strptime(f, &text) {
                        Ok(p) => Ok(p),
                        Err(e) => {
                            // offsets with seconds in a fold etc. may be rejected: counted as a failed op
                            Err(e)
                        }
                    }
                } else {
                    Ok(z.clone())
                }
            }
            Op::CivilToZoned(k) => {
                direct_assembly += 1;
                let dt = z.datetime();
                match k {
                    0 => dt.to_zoned(zone.tz.clone()),
                    1 => zone.tz.to_ambiguous_zoned(dt).earlier(),
                    _ => zone.tz.to_ambiguous_zoned(dt).later(),
                }
            }
            // Zoned has no series() (it is commented out upstream): the k-th
            // item of the series is start + k * period
            Op::SeriesNth(s, k) => match s.to_span().checked_mul(*k as i64) {
                Ok(sp) => z.checked_add(sp),
                Err(e) => Err(e),
            },
            Op::UntilAddBack(p, u) => {
                let (_, other_ns) = resolve_probe(std::slice::from_ref(&zone), p);
                let other = crate::props::c06::mk_zoned(&zone, other_ns);
                match z.until((UNITS[*u as usize], &other)) {
                    Ok(s) => z.checked_add(s),
                    Err(e) => Err(e),
                }
            }
            Op::ToZonedViaTimestamp => Ok(z.timestamp().to_zoned(zone.tz.clone())),
            Op::EpochNeighbourhood(ns) => Ok(gen::mk_ts(*ns as i128).to_zoned(zone.tz.clone())),
        };
        match r {
            Ok(nz) => {
                invariant(&nz, &new_zone, &step)?;
                let (loc, _) = rz::local_of(&new_zone.rz, nz.timestamp().as_nanosecond());
                let c = loc.div_euclid(NS_PER_SEC) as i64;
                if (-1..=1).any(|d| matches!(new_zone.rz.resolve(c + d * 1800), Civil::Gap(..) | Civil::Fold(..))) {
                    window_hits += 1;
                }
                z = nz;
                zone = new_zone;
                ok_ops += 1;
            }
            Err(_) => {
                cx.class("op-failed(state-unchanged)");
            }
        }
    }
    // Eq/Ord/Hash depend on the instant only
    let other_zone = zs[(zones::pick(hist.start.zone_sel, zs.len()) + 7) % zs.len()].clone();
    let twin = z.with_time_zone(other_zone.tz.clone());
    ensure!(twin.timestamp() == z.timestamp(), "with-time-zone-changes-instant", "final: twin in {} has a different instant", other_zone.label);
    ensure!(twin == z && twin.cmp(&z) == std::cmp::Ordering::Equal && h(&twin) == h(&z), "eq-ord-hash-not-instant-only", "final: {z} and {twin} are the same instant but compare/hash differently");
    {
        // ... in every spelling: values, references, and the mixed reference/value forms
        use std::cmp::Ordering::Equal;
        let (a, b) = (&twin, &z);
        let eqs = [*a == *b, a == b, &a == &b, a == *b, !(a != *b), !(*a != *b), !(a != b), *b == *a, b == *a];
        let ords = [a.partial_cmp(&b) == Some(Equal), (*a).partial_cmp(&*b) == Some(Equal), a.partial_cmp(&*b) == Some(Equal), !(a < *b), !(a > *b), a <= *b, a >= *b, !(*a < *b), *a <= *b, !(a < b), a >= b];
        ensure!(eqs.iter().all(|x| *x) && ords.iter().all(|x| *x), "eq-ord-hash-not-instant-only", "final: {z} and {twin} are the same instant but some spelling of ==/!=/</<=/partial_cmp (values, references, reference vs value) disagrees: == forms {eqs:?}, order forms {ords:?}");
    }
    if z.timestamp().as_nanosecond() < TS_MAX_NS {
        let later = z.timestamp().checked_add(SignedDuration::new(0, 1)).map(|t| t.to_zoned(other_zone.tz.clone()));
        if let Ok(l) = later {
            ensure!(l > z && l != z, "ord-not-by-instant", "final: {l} is 1ns later than {z} but does not compare greater");
        }
    }
    cx.class_if(window_hits > 0, "landed-near-gap-or-fold");
    cx.class_if(direct_assembly > 0, "direct-assembly-path");
    cx.nt_if(ok_ops >= 3 && (window_hits > 0 || direct_assembly > 0));
    let _ = Unit::Day;
    Ok(())
}

pub fn property() -> Property {
    Property {
        id: "C13",
        level: "exploration",
        rule: "Stateful proptest: a start Zoned (any database zone, fixed offset or UTC; instant around a transition 70% of the time) and a history of 1..12 operations drawn from 34 operation kinds (add/sub span, saturating add, absolute duration, round, with-builders for every field incl. offset with all offset-conflict x disambiguation strategies, with_time_zone/in_tz, start/end of day, tomorrow/yesterday, first/last of month/year, nth weekday, print->parse, strftime->strptime, civil->zoned with compatible/earlier/later, series nth, until-then-add-back, timestamp->zoned), interpreted step by step; operations that return Err leave the state unchanged (counted). After every successful step the invariant is evaluated through jiff's own lookups and through the reference reader; at the end Eq/Ord/Hash are compared against a twin in another zone and a neighbour 1ns later. Whole histories shrink as one value. Non-trivial: >= 3 successful operations of which at least one lands within 30 minutes of a gap/fold or uses a direct-assembly path.",
        assumptions: &["reftz.rs (C03)", "the history tracks which zone the value should be in; zones are those reachable by name through the global database"],
        checks: vec![Box::new(Prop { name: "c13.history", quick: 4_500_000, thorough: 40_000_000, strategy: strat_history, test: test_history })],
        floors: |rec| {
            rec.floor("c13.history:landed-near-gap-or-fold", "c13.history:cases", 0.10);
            rec.floor("c13.history:direct-assembly-path", "c13.history:cases", 0.30);
        },
    }
}
