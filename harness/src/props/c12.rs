//! C12 Span and SignedDuration are faithful value types with enforced limits.

use std::time::Duration as StdDuration;

use jiff::{SignedDuration, Span};
use proptest::prelude::*;
use serde::{Deserialize, Serialize};

use crate::engine::*;
use crate::gen::{self, SpanSpec, SPAN_LIMITS, UNIT_NS};
use crate::refmodel::wide::*;
use crate::{ensure, fail};

// --- Span: histories of setters / negate / abs / mul -------------------------------------------------

#[derive(Serialize, Deserialize, Debug, Clone)]
enum SpanOp {
    Set(u8, i64),
    Negate,
    Abs,
    Mul(i64),
    /// multiply by the largest factor that still fits every unit, plus a small delta
    MulFit(i8, bool),
}

#[derive(Serialize, Deserialize, Debug, Clone)]
struct SpanHistory {
    ops: Vec<SpanOp>,
}

fn set_unit(s: Span, unit: u8, v: i64) -> Result<Span, jiff::Error> {
    match unit {
        0 => s.try_years(v),
        1 => s.try_months(v),
        2 => s.try_weeks(v),
        3 => s.try_days(v),
        4 => s.try_hours(v),
        5 => s.try_minutes(v),
        6 => s.try_seconds(v),
        7 => s.try_milliseconds(v),
        8 => s.try_microseconds(v),
        _ => s.try_nanoseconds(v),
    }
}

fn getters(s: &Span) -> [i64; 10] {
    [
        s.get_years() as i64,
        s.get_months() as i64,
        s.get_weeks() as i64,
        s.get_days() as i64,
        s.get_hours() as i64,
        s.get_minutes(),
        s.get_seconds(),
        s.get_milliseconds(),
        s.get_microseconds(),
        s.get_nanoseconds(),
    ]
}

/// model: ten magnitudes and one sign
#[derive(Clone, Debug, PartialEq)]
struct Model {
    mag: [i64; 10],
    sign: i64,
}

fn check_span_against(s: &Span, m: &Model, ctx: &str) -> CaseResult {
    let g = getters(s);
    for i in 0..10 {
        let want = m.sign * m.mag[i];
        ensure!(g[i] == want, "span-getter", "{ctx}: unit {i} reads {} want {want} (model {m:?}, span {s:?})", g[i]);
    }
    ensure!(s.signum() as i64 == m.sign, "span-signum", "{ctx}: signum {} want {}", s.signum(), m.sign);
    ensure!(s.is_zero() == (m.sign == 0) && s.is_negative() == (m.sign < 0) && s.is_positive() == (m.sign > 0), "span-predicates", "{ctx}: is_zero/is_negative/is_positive inconsistent with sign {}", m.sign);
    // every non-zero unit shares one sign
    let signs: Vec<i64> = g.iter().filter(|&&x| x != 0).map(|x| x.signum()).collect();
    ensure!(signs.windows(2).all(|w| w[0] == w[1]), "span-mixed-signs", "{ctx}: units have mixed signs: {g:?}");
    Ok(())
}

fn test_span_history(h: &SpanHistory, cx: &mut Cx) -> CaseResult {
    let mut s = Span::new();
    let mut m = Model { mag: [0; 10], sign: 0 };
    let mut refused = 0;
    let mut limit_vals = 0;
    for (step, op) in h.ops.iter().enumerate() {
        let ctx = format!("step {step} {op:?}");
        match op {
            SpanOp::Set(u, v) => {
                let u = *u;
                let lim = SPAN_LIMITS[u as usize];
                let ok = (v.unsigned_abs() as u128) <= lim as u128;
                if v.unsigned_abs() as u128 >= lim as u128 - (lim > 1) as u128 {
                    limit_vals += 1;
                }
                // the panicking setters and the ToSpan constructors hold/refuse the same integers
                {
                    use jiff::ToSpan;
                    use std::panic::AssertUnwindSafe;
                    let (s0, v0) = (s, *v);
                    let infallible = crate::engine::guard("op", AssertUnwindSafe(|| match u {
                        0 => s0.years(v0),
                        1 => s0.months(v0),
                        2 => s0.weeks(v0),
                        3 => s0.days(v0),
                        4 => s0.hours(v0),
                        5 => s0.minutes(v0),
                        6 => s0.seconds(v0),
                        7 => s0.milliseconds(v0),
                        8 => s0.microseconds(v0),
                        _ => s0.nanoseconds(v0),
                    }))
                    .ok();
                    let fresh = crate::engine::guard("op", AssertUnwindSafe(|| match u {
                        0 => v0.years(),
                        1 => v0.months(),
                        2 => v0.weeks(),
                        3 => v0.days(),
                        4 => v0.hours(),
                        5 => v0.minutes(),
                        6 => v0.seconds(),
                        7 => v0.milliseconds(),
                        8 => v0.microseconds(),
                        _ => v0.nanoseconds(),
                    }))
                    .ok();
                    let tried = set_unit(s, u, *v).ok();
                    ensure!(infallible.map(|x| getters(&x)) == tried.map(|x| getters(&x)), "span-setter-forms-differ", "{ctx}: the panicking setter gives {infallible:?}, the try-setter {tried:?}");
                    let fresh_want = set_unit(Span::new(), u, *v).ok();
                    ensure!(fresh.map(|x| getters(&x)) == fresh_want.map(|x| getters(&x)), "span-setter-forms-differ", "{ctx}: ToSpan gives {fresh:?}, Span::new().try-setter {fresh_want:?}");
                }
                match set_unit(s, u, *v) {
                    Ok(ns) => {
                        ensure!(ok, "span-setter-accepts-over-limit", "{ctx}: try-setter accepted {v} for unit {u} (limit {lim})");
                        // documented sign rule
                        let was_zero = m.sign == 0;
                        m.mag[u as usize] = v.abs();
                        let all_zero = m.mag.iter().all(|&x| x == 0);
                        m.sign = if *v < 0 {
                            -1
                        } else if all_zero {
                            0
                        } else if was_zero {
                            1
                        } else {
                            m.sign
                        };
                        s = ns;
                    }
                    Err(e) => {
                        ensure!(!ok, "span-setter-rejects-in-limit", "{ctx}: try-setter rejected {v} for unit {u} (limit {lim}): {e}");
                        refused += 1;
                    }
                }
            }
            SpanOp::Negate => {
                s = s.negate();
                m.sign = -m.sign;
                let viaop = -s;
                ensure!(getters(&viaop) == getters(&s.negate()), "span-neg-operator", "{ctx}: -span differs from negate()");
            }
            SpanOp::Abs => {
                s = s.abs();
                m.sign = m.sign.abs();
            }
            SpanOp::Mul(_) | SpanOp::MulFit(..) => {
                let k_eff: i64 = match op {
                    SpanOp::Mul(k) => *k,
                    SpanOp::MulFit(d, neg) => {
                        let fit = (0..10).filter(|&i| m.mag[i] != 0).map(|i| SPAN_LIMITS[i] / m.mag[i]).min().unwrap_or(3);
                        let k = fit.saturating_add(*d as i64);
                        if *neg { -k } else { k }
                    }
                    _ => unreachable!(),
                };
                let k = &k_eff;
                let mut nm = m.clone();
                let mut overflow = false;
                for i in 0..10 {
                    let p = m.mag[i] as i128 * (*k as i128).abs();
                    if p > SPAN_LIMITS[i] as i128 {
                        overflow = true;
                    } else {
                        nm.mag[i] = p as i64;
                    }
                }
                nm.sign = if nm.mag.iter().all(|&x| x == 0) { 0 } else { m.sign * k.signum() };
                match s.checked_mul(*k) {
                    Ok(ns) => {
                        ensure!(!overflow, "span-mul-accepts-overflow", "{ctx}: checked_mul({k}) = Ok({ns:?}) but a unit exceeds its limit (model {m:?})");
                        // operator forms (documented to panic on overflow: only when in range)
                        let viaop = s * *k;
                        ensure!(getters(&viaop) == getters(&ns), "span-mul-operator", "{ctx}: span * {k} differs from checked_mul");
                        let viaop2 = *k * s;
                        ensure!(getters(&viaop2) == getters(&ns), "span-mul-operator", "{ctx}: {k} * span differs from checked_mul");
                        m = nm;
                        s = ns;
                    }
                    Err(e) => {
                        ensure!(overflow, "span-mul-rejects", "{ctx}: checked_mul({k}) = Err({e}) but no unit overflows (model {m:?})");
                        refused += 1;
                    }
                }
            }
        }
        check_span_against(&s, &m, &ctx)?;
        // fieldwise view acts unit by unit
        let spec = SpanSpec { neg: m.sign < 0, u: m.mag };
        let rebuilt = spec.to_span();
        ensure!(s.fieldwise() == rebuilt.fieldwise(), "span-fieldwise", "{ctx}: fieldwise view differs from a span rebuilt from the same units: {s:?} vs {rebuilt:?}");
        {
            // (Eq/Hash agreement of the fieldwise view is not part of C12's statement and is not
            // judged: with debug assertions jiff's ranged integers hash their tracked bounds too,
            // so equal values built in different ways can hash differently - see DESIGN.md 10.6)
            // ... and unit by unit the other way round: a span that differs in exactly one unit
            // is a different fieldwise value (every unit in turn)
            for i in 0..10 {
                let mut other = spec.clone();
                other.u[i] = if other.u[i] < SPAN_LIMITS[i] { other.u[i] + 1 } else { other.u[i] - 1 };
                let o = other.to_span();
                ensure!(s.fieldwise() != o.fieldwise() && o.fieldwise() != s.fieldwise() && s.fieldwise() != o && o != s.fieldwise(), "span-fieldwise-ignores-a-unit", "{ctx}: {s:?} and {o:?} differ in unit {i} but compare equal fieldwise");
            }
        }
    }
    cx.class_if(refused > 0, "refusal");
    cx.class_if(limit_vals > 0, "limit-value");
    cx.nt_if(refused > 0 || limit_vals > 0 || h.ops.len() >= 3);
    Ok(())
}

fn strat_span_history() -> BoxedStrategy<SpanHistory> {
    let setv = (0u8..10).prop_flat_map(|u| {
        let lim = SPAN_LIMITS[u as usize];
        let v = prop_oneof![
            3 => prop_oneof![Just(lim), Just(-lim), Just(lim.saturating_add(1)), Just((-lim).saturating_sub(1)), Just(lim - 1), Just(0i64), Just(1), Just(-1)],
            3 => -100i64..=100,
            2 => gen::biased(-lim, lim),
            1 => gen::biased(i64::MIN, i64::MAX),
        ];
        (Just(u), v)
    });
    let op = prop_oneof![
        6 => setv.prop_map(|(u, v)| SpanOp::Set(u, v)),
        1 => Just(SpanOp::Negate),
        1 => Just(SpanOp::Abs),
        2 => prop_oneof![Just(0i64), Just(1), Just(-1), Just(2), Just(-2), -1000i64..=1000, gen::biased(i64::MIN, i64::MAX)].prop_map(SpanOp::Mul),
        1 => (prop_oneof![3 => -2i8..=2, 1 => any::<i8>()], any::<bool>()).prop_map(|(d, n)| SpanOp::MulFit(d, n)),
    ];
    proptest::collection::vec(op, 1..10).prop_map(|ops| SpanHistory { ops }).boxed()
}

// --- Span <-> SignedDuration / std Duration ----------------------------------------------------------

#[derive(Serialize, Deserialize, Debug, Clone)]
struct ConvCase {
    span: SpanSpec,
    secs: i64,
    nanos: i32,
}

fn test_conversions(c: &ConvCase, cx: &mut Cx) -> CaseResult {
    let span = c.span.to_span();
    let has_big = c.span.u[..4].iter().any(|&x| x != 0);
    cx.nt_if(has_big || c.span.u[4..].iter().any(|&x| x >= (1 << 40)));
    match SignedDuration::try_from(span) {
        Ok(d) => {
            ensure!(!has_big, "span-to-duration-accepts-calendar", "SignedDuration::try_from({span:?}) accepted units above hours");
            ensure!(d.as_nanos() == c.span.time_ns(), "span-to-duration-wrong", "SignedDuration::try_from({span:?}) = {d:?} ({}) want {}", d.as_nanos(), c.span.time_ns());
        }
        Err(e) => ensure!(has_big, "span-to-duration-rejects", "SignedDuration::try_from({span:?}) = Err({e})"),
    }
    match StdDuration::try_from(span) {
        Ok(d) => {
            ensure!(!has_big && c.span.sign() >= 0, "span-to-std-accepts", "std Duration::try_from({span:?}) accepted");
            ensure!(d.as_nanos() as i128 == c.span.time_ns(), "span-to-std-wrong", "std Duration::try_from({span:?}) = {d:?}");
        }
        Err(e) => ensure!(has_big || c.span.sign() < 0, "span-to-std-rejects", "std Duration::try_from({span:?}) = Err({e})"),
    }
    // duration -> span: seconds and smaller only; fails exactly on the seconds limit
    // negative durations with zero whole seconds are generated too
    let nanos = if c.secs < 0 || (c.secs == 0 && c.nanos % 2 == 1) { -c.nanos.abs() } else { c.nanos.abs() };
    let d = SignedDuration::new(c.secs, nanos);
    let ok = c.secs.unsigned_abs() <= SPAN_LIMITS[6] as u64;
    cx.nt_if(!ok);
    match Span::try_from(d) {
        Ok(s) => {
            ensure!(ok, "duration-to-span-accepts", "Span::try_from({d:?}) accepted seconds beyond the limit");
            let spec = SpanSpec::from_span(&s);
            ensure!(spec.u[..6].iter().all(|&x| x == 0), "duration-to-span-units", "Span::try_from({d:?}) = {s:?} has units above seconds");
            ensure!(spec.time_ns() == d.as_nanos(), "duration-to-span-wrong", "Span::try_from({d:?}) = {s:?} denotes {} want {}", spec.time_ns(), d.as_nanos());
            ensure!(spec.u[7] < 1000 && spec.u[8] < 1000 && spec.u[9] < 1000, "duration-to-span-unbalanced", "Span::try_from({d:?}) = {s:?}");
        }
        Err(e) => ensure!(!ok, "duration-to-span-rejects", "Span::try_from({d:?}) = Err({e})"),
    }
    if d.as_nanos() >= 0 {
        let u = StdDuration::new(c.secs as u64, c.nanos.unsigned_abs());
        match Span::try_from(u) {
            Ok(s) => ensure!(ok && SpanSpec::from_span(&s).time_ns() == u.as_nanos() as i128, "std-to-span-wrong", "Span::try_from({u:?}) = {s:?}"),
            Err(e) => ensure!(!ok, "std-to-span-rejects", "Span::try_from({u:?}) = Err({e})"),
        }
        // std <-> signed
        let sd = SignedDuration::try_from(u);
        ensure!(sd.as_ref().ok().map(|x| x.as_nanos()) == Some(u.as_nanos() as i128), "std-to-signed", "SignedDuration::try_from({u:?}) = {sd:?}");
        let back = StdDuration::try_from(d);
        ensure!(back.as_ref().ok() == Some(&u), "signed-to-std", "std Duration::try_from({d:?}) = {back:?}");
    } else {
        ensure!(StdDuration::try_from(d).is_err(), "signed-to-std-accepts-negative", "std Duration::try_from({d:?}) accepted a negative duration");
    }
    Ok(())
}

fn strat_conv() -> BoxedStrategy<ConvCase> {
    let span = prop_oneof![3 => gen::span_spec_masked([false, false, false, false, true, true, true, true, true, true]), 1 => gen::span_spec()];
    (span, prop_oneof![2 => gen::biased(-631_107_417_602, 631_107_417_602), 1 => gen::biased(i64::MIN + 1, i64::MAX)], 0i32..1_000_000_000).prop_map(|(span, secs, nanos)| ConvCase { span, secs, nanos }).boxed()
}

// --- SignedDuration arithmetic -------------------------------------------------------------------------

const SD_MAX: i128 = i64::MAX as i128 * NS_PER_SEC + 999_999_999;
const SD_MIN: i128 = i64::MIN as i128 * NS_PER_SEC - 999_999_999;

#[derive(Serialize, Deserialize, Debug, Clone)]
struct SdCase {
    a: (i64, i32),
    b: (i64, i32),
    k: i32,
}

fn invariant(d: SignedDuration, what: &str) -> CaseResult {
    let (s, n) = (d.as_secs(), d.subsec_nanos());
    ensure!(n.abs() < 1_000_000_000, format!("{what}-nanos-range"), "{what}: nanos {n} out of range in {d:?}");
    ensure!(s == 0 || n == 0 || (s.signum() as i32) == n.signum(), format!("{what}-mixed-sign"), "{what}: secs {s} and nanos {n} have opposite signs");
    Ok(())
}

fn model_ns(v: (i64, i32)) -> Option<i128> {
    // SignedDuration::new carries |nanos| >= 1s and panics on overflow (documented)
    let t = v.0 as i128 * NS_PER_SEC + v.1 as i128;
    let carried = v.0 as i128 + (v.1 as i128 / NS_PER_SEC);
    if carried < i64::MIN as i128 || carried > i64::MAX as i128 {
        return None;
    }
    if (SD_MIN..=SD_MAX).contains(&t) {
        Some(t)
    } else {
        None
    }
}

fn cmp_opt(what: &str, got: Option<SignedDuration>, want: i128, ctx: &str) -> CaseResult {
    let in_range = (SD_MIN..=SD_MAX).contains(&want);
    match got {
        Some(g) => {
            ensure!(in_range, format!("{what}-accepts-overflow"), "{ctx}: {what} = Some({g:?}) but the true result {want} is unrepresentable");
            invariant(g, what)?;
            ensure!(g.as_nanos() == want, format!("{what}-wrong"), "{ctx}: {what} = {g:?} ({}) want {want}", g.as_nanos());
        }
        None => ensure!(!in_range, format!("{what}-reports-overflow"), "{ctx}: {what} = None but the true result {want} is representable"),
    }
    Ok(())
}

fn test_sd(c: &SdCase, cx: &mut Cx) -> CaseResult {
    let (Some(an), Some(bn)) = (model_ns(c.a), model_ns(c.b)) else {
        cx.tolerate("constructor-would-panic(documented)");
        return Ok(());
    };
    let a = SignedDuration::new(c.a.0, c.a.1);
    let b = SignedDuration::new(c.b.0, c.b.1);
    invariant(a, "new")?;
    ensure!(a.as_nanos() == an && b.as_nanos() == bn, "new-wrong", "SignedDuration::new{:?} = {a:?} ({}) want {an}", c.a, a.as_nanos());
    let ctx = format!("a={a:?} b={b:?} k={}", c.k);
    let carry = (c.a.0 != 0 && c.a.1 != 0 && (c.a.0.signum() as i32) != c.a.1.signum()) || c.a.1.abs() >= 1_000_000_000;
    cx.class_if(carry, "carry-or-mixed-sign-input");
    let any_over = !(SD_MIN..=SD_MAX).contains(&(an + bn)) || !(SD_MIN..=SD_MAX).contains(&(an - bn)) || !(SD_MIN..=SD_MAX).contains(&(an * c.k as i128));
    cx.class_if(any_over, "overflow-outcome");
    cx.nt_if(carry || any_over || c.a.0 == i64::MIN || c.a.0 == i64::MAX);
    // views
    ensure!(a.as_secs() as i128 == an / NS_PER_SEC && a.subsec_nanos() as i128 == an % NS_PER_SEC, "views-secs", "{ctx}: as_secs/subsec_nanos");
    ensure!(a.as_millis() == an / 1_000_000 && a.as_micros() == an / 1000, "views-ms-us", "{ctx}: as_millis/as_micros");
    ensure!(a.subsec_millis() as i128 == (an % NS_PER_SEC) / 1_000_000 && a.subsec_micros() as i128 == (an % NS_PER_SEC) / 1000, "views-subsec", "{ctx}: subsec_millis/micros");
    ensure!(a.as_hours() as i128 == an / (3600 * NS_PER_SEC) && a.as_mins() as i128 == an / (60 * NS_PER_SEC), "views-hours-mins", "{ctx}: as_hours/as_mins");
    ensure!(a.signum() as i128 == an.signum() && a.is_zero() == (an == 0) && a.is_positive() == (an > 0) && a.is_negative() == (an < 0), "views-sign", "{ctx}: signum/is_*");
    // arithmetic
    cmp_opt("checked_add", a.checked_add(b), an + bn, &ctx)?;
    cmp_opt("checked_sub", a.checked_sub(b), an - bn, &ctx)?;
    cmp_opt("checked_mul", a.checked_mul(c.k), an * c.k as i128, &ctx)?;
    if c.k != 0 {
        // integer division truncating toward zero
        cmp_opt("checked_div", a.checked_div(c.k), an / c.k as i128, &ctx)?;
    } else {
        ensure!(a.checked_div(0).is_none(), "checked_div-by-zero", "{ctx}: checked_div(0) is Some");
    }
    cmp_opt("checked_neg", a.checked_neg(), -an, &ctx)?;
    // operator forms: the same exact arithmetic; they panic exactly when the checked form
    // reports overflow (documented)
    {
        use std::panic::{catch_unwind, AssertUnwindSafe};
        let in_range = |v: i128| (SD_MIN..=SD_MAX).contains(&v);
        let quiet = |f: &mut dyn FnMut() -> SignedDuration| -> Option<SignedDuration> { crate::engine::guard("op", AssertUnwindSafe(|| f())).ok() };
        let _ = catch_unwind(|| ());
        let ops: [(&str, i128, Option<SignedDuration>); 7] = [
            ("a + b", an + bn, quiet(&mut || a + b)),
            ("a - b", an - bn, quiet(&mut || a - b)),
            ("a += b", an + bn, quiet(&mut || { let mut x = a; x += b; x })),
            ("a -= b", an - bn, quiet(&mut || { let mut x = a; x -= b; x })),
            ("-a", -an, quiet(&mut || -a)),
            ("a * k", an * c.k as i128, quiet(&mut || a * c.k)),
            ("a *= k", an * c.k as i128, quiet(&mut || { let mut x = a; x *= c.k; x })),
        ];
        // iterator sums (by value and by reference): the same exact arithmetic
        {
            let list = [a, b, SignedDuration::ZERO];
            let by_val = quiet(&mut || list.iter().copied().sum::<SignedDuration>());
            let by_ref = quiet(&mut || list.iter().sum::<SignedDuration>());
            for (name, got) in [("sum(values)", by_val), ("sum(references)", by_ref)] {
                let want = an + bn;
                match got {
                    Some(v) => {
                        ensure!(in_range(want) && v.as_nanos() == want, format!("operator-wrong:{name}"), "{ctx}: {name} = {v:?} ({}), exact value {want}", v.as_nanos());
                        invariant(v, name)?;
                    }
                    None => ensure!(!in_range(want), format!("operator-panics-in-range:{name}"), "{ctx}: {name} panics although the exact value {want} is representable"),
                }
            }
            // a single element sums to itself
            let single = quiet(&mut || [a].iter().sum::<SignedDuration>());
            ensure!(single.map(|v| (v.as_secs(), v.subsec_nanos())) == Some((a.as_secs(), a.subsec_nanos())), "operator-wrong:sum(single)", "{ctx}: [a].iter().sum() = {single:?}");
        }
        for (name, want, got) in ops {
            match got {
                Some(v) => ensure!(in_range(want) && v.as_nanos() == want, format!("operator-wrong:{name}"), "{ctx}: `{name}` = {v:?} ({}), exact value {want}", v.as_nanos()),
                None => ensure!(!in_range(want), format!("operator-panics-in-range:{name}"), "{ctx}: `{name}` panics although the exact value {want} is representable"),
            }
        }
        if c.k != 0 {
            let want = an / c.k as i128;
            for (name, got) in [("a / k", quiet(&mut || a / c.k)), ("a /= k", quiet(&mut || { let mut x = a; x /= c.k; x }))] {
                match got {
                    Some(v) => ensure!(in_range(want) && v.as_nanos() == want, format!("operator-wrong:{name}"), "{ctx}: `{name}` = {v:?}, exact value {want}"),
                    None => ensure!(!in_range(want), format!("operator-panics-in-range:{name}"), "{ctx}: `{name}` panics although the exact value {want} is representable"),
                }
            }
        }
    }
    let clamp = |v: i128| v.clamp(SD_MIN, SD_MAX);
    ensure!(a.saturating_add(b).as_nanos() == clamp(an + bn), "saturating_add-wrong", "{ctx}: saturating_add = {:?}", a.saturating_add(b));
    ensure!(a.saturating_sub(b).as_nanos() == clamp(an - bn), "saturating_sub-wrong", "{ctx}: saturating_sub = {:?}", a.saturating_sub(b));
    ensure!(a.saturating_mul(c.k).as_nanos() == clamp(an * c.k as i128), "saturating_mul-wrong", "{ctx}: saturating_mul = {:?}", a.saturating_mul(c.k));
    if a.as_secs() != i64::MIN {
        let ab = a.abs();
        invariant(ab, "abs")?;
        ensure!(ab.as_nanos() == an.abs(), "abs-wrong", "{ctx}: abs = {ab:?}");
    }
    ensure!(a.unsigned_abs().as_nanos() as i128 == an.abs(), "unsigned_abs-wrong", "{ctx}: unsigned_abs = {:?}", a.unsigned_abs());
    match StdDuration::try_from(a) {
        Ok(u) => ensure!(an >= 0 && u.as_nanos() as i128 == an, "signed-to-std-wrong", "{ctx}: std Duration::try_from(a) = {u:?}"),
        Err(_) => ensure!(an < 0, "signed-to-std-rejects", "{ctx}: std Duration::try_from(a) failed for a non-negative duration"),
    }
    // unit constructors
    let s = c.a.0;
    ensure!(SignedDuration::from_secs(s).as_nanos() == s as i128 * NS_PER_SEC, "from_secs", "from_secs({s})");
    ensure!(SignedDuration::from_millis(s).as_nanos() == s as i128 * 1_000_000, "from_millis", "from_millis({s})");
    ensure!(SignedDuration::from_micros(s).as_nanos() == s as i128 * 1000, "from_micros", "from_micros({s})");
    ensure!(SignedDuration::from_nanos(s).as_nanos() == s as i128, "from_nanos", "from_nanos({s})");
    if (s as i128 * 3600).abs() <= i64::MAX as i128 {
        ensure!(SignedDuration::from_hours(s).as_nanos() == s as i128 * 3600 * NS_PER_SEC, "from_hours", "from_hours({s})");
    }
    if (s as i128 * 60).abs() <= i64::MAX as i128 {
        ensure!(SignedDuration::from_mins(s).as_nanos() == s as i128 * 60 * NS_PER_SEC, "from_mins", "from_mins({s})");
    }
    // float views (stated tolerance: 1e-15 relative)
    let f = a.as_secs_f64();
    let exact = an as f64 / 1e9;
    ensure!((f - exact).abs() <= exact.abs() * 4e-16 + 1e-300, "as_secs_f64", "{ctx}: as_secs_f64 = {f:e} want ~{exact:e}");
    if bn != 0 {
        let r = a.div_duration_f64(b);
        let want = an as f64 / bn as f64;
        ensure!((r - want).abs() <= want.abs() * 1e-14 + 1e-300, "div_duration_f64", "{ctx}: div_duration_f64 = {r:e} want ~{want:e}");
        let r = a.div_duration_f32(b) as f64;
        ensure!((r - want).abs() <= want.abs() * 1e-6 + 1e-30, "div_duration_f32", "{ctx}: div_duration_f32 = {r:e} want ~{want:e}");
    }
    // the remaining float views (stated tolerance: a few units in the last place of the
    // float type: 1e-15 relative for f64, 5e-7 relative for f32)
    let f = a.as_secs_f32() as f64;
    ensure!((f - exact).abs() <= exact.abs() * 5e-7 + 1e-30, "as_secs_f32", "{ctx}: as_secs_f32 = {f:e} want ~{exact:e}");
    let exact_ms = an as f64 / 1e6;
    let f = a.as_millis_f64();
    ensure!((f - exact_ms).abs() <= exact_ms.abs() * 1e-15 + 1e-300, "as_millis_f64", "{ctx}: as_millis_f64 = {f:e} want ~{exact_ms:e}");
    let f = a.as_millis_f32() as f64;
    ensure!((f - exact_ms).abs() <= exact_ms.abs() * 5e-7 + 1e-30, "as_millis_f32", "{ctx}: as_millis_f32 = {f:e} want ~{exact_ms:e}");
    // float scaling by the dyadic rational k/16 (exactly representable in f32 and f64 for
    // |k| < 2^24): the true product/quotient is an exact rational; documented to panic
    // only when the result is not finite or overflows
    if c.k != 0 && c.k.unsigned_abs() < (1 << 24) {
        use std::panic::AssertUnwindSafe;
        let quiet = |f: &mut dyn FnMut() -> SignedDuration| -> Option<SignedDuration> { crate::engine::guard("op", AssertUnwindSafe(|| f())).ok() };
        let r64 = c.k as f64 / 16.0;
        let r32 = c.k as f32 / 16.0;
        let prod = an * c.k as i128 / 16; // truncated; off by < 1ns
        let quot = an * 16 / c.k as i128;
        let safe = |v: i128| v.abs() < SD_MAX / 2;
        let rows: [(&str, i128, f64, i128, Option<SignedDuration>); 4] = [
            ("mul_f64", prod, 1e-15, 3, quiet(&mut || a.mul_f64(r64))),
            ("div_f64", quot, 1e-15, 3, quiet(&mut || a.div_f64(r64))),
            ("mul_f32", prod, 1e-6, 200, quiet(&mut || a.mul_f32(r32))),
            ("div_f32", quot, 1e-6, 200, quiet(&mut || a.div_f32(r32))),
        ];
        for (name, want, rel, abs, got) in rows {
            match got {
                Some(v) => {
                    invariant(v, name)?;
                    let tol = (want.abs() as f64 * rel) as i128 + abs;
                    ensure!((v.as_nanos() - want).abs() <= tol, format!("float-scale-wrong:{name}"), "{ctx}: {name}({}/16) = {v:?} ({}ns), exact value {want}ns (tolerance {tol}ns)", c.k, v.as_nanos());
                }
                None => ensure!(!safe(want), format!("float-scale-panics-in-range:{name}"), "{ctx}: {name}({}/16) panics although the exact value {want}ns is far inside the range", c.k),
            }
        }
    }
    Ok(())
}

fn strat_sd() -> BoxedStrategy<SdCase> {
    let secs = || prop_oneof![3 => gen::biased(i64::MIN, i64::MAX), 2 => gen::biased(-100, 100), 1 => Just(i64::MIN), 1 => Just(i64::MAX), 1 => Just(0i64)];
    let nanos = || prop_oneof![2 => gen::biased(-999_999_999, 999_999_999).prop_map(|v| v as i32), 1 => any::<i32>(), 1 => Just(0i32)];
    let k = prop_oneof![2 => prop_oneof![Just(0i32), Just(1), Just(-1), Just(2), Just(-2), Just(i32::MIN), Just(i32::MAX), Just(1_000_000_000), Just(-1_000_000_000), Just(3), Just(7)], 2 => -1000i32..=1000, 1 => any::<i32>()];
    ((secs(), nanos()), (secs(), nanos()), k).prop_map(|(a, b, k)| SdCase { a, b, k }).boxed()
}

// --- float constructors ----------------------------------------------------------------------------------

#[derive(Serialize, Deserialize, Debug, Clone)]
struct FloatCase {
    bits: u64,
    f32bits: u32,
}

/// exact value of a finite f64 times 10^9, as (numerator, shift) with
/// value = num * 2^shift
fn exact_ns_f64(x: f64) -> Option<(i128, i32)> {
    if !x.is_finite() {
        return None;
    }
    let bits = x.to_bits();
    let sign = if bits >> 63 == 1 { -1i128 } else { 1 };
    let exp = ((bits >> 52) & 0x7ff) as i32;
    let frac = (bits & ((1u64 << 52) - 1)) as i128;
    let (mant, e) = if exp == 0 { (frac, -1074) } else { (frac | (1i128 << 52), exp - 1075) };
    Some((sign * mant * 1_000_000_000, e))
}

/// floor and ceil of num * 2^shift, None when astronomically large
fn floor_ceil(num: i128, shift: i32) -> Option<(i128, i128)> {
    if shift >= 0 {
        if shift > 20 {
            return None;
        }
        let v = num.checked_mul(1i128 << shift)?;
        Some((v, v))
    } else {
        let s = (-shift) as u32;
        if s >= 127 {
            return Some(if num < 0 { (-1, 0) } else if num > 0 { (0, 1) } else { (0, 0) });
        }
        let fl = num >> s; // arithmetic shift = floor
        let exact = fl << s == num;
        Some((fl, if exact { fl } else { fl + 1 }))
    }
}

/// `tol` = stated tolerance in ns: 1 for f64; 64 for f32, whose conversion
/// is documented (rustdoc example `12.123456789f32 -> 123_456_952`) to lose
/// precision because the fraction is scaled in f32 arithmetic (2^-24 * 1e9).
fn check_float(what: &str, x: f64, tol: i128, got: Result<SignedDuration, jiff::Error>, cx: &mut Cx) -> CaseResult {
    if !x.is_finite() {
        cx.class("non-finite");
        cx.nt();
        ensure!(got.is_err(), format!("{what}-accepts-non-finite"), "{what}({x:?}) = {got:?}");
        return Ok(());
    }
    let (num, shift) = exact_ns_f64(x).unwrap();
    match floor_ceil(num, shift) {
        None => {
            cx.class("huge");
            ensure!(got.is_err(), format!("{what}-accepts-huge"), "{what}({x:e}) = {got:?}");
        }
        Some((fl, ce)) => {
            // representable iff the exact value lies within [MIN, MAX]
            let inside = fl >= SD_MIN && ce <= SD_MAX;
            let outside = ce < SD_MIN || fl > SD_MAX;
            let near = (fl - SD_MAX).abs() < 4_000_000_000_000 || (fl - SD_MIN).abs() < 4_000_000_000_000;
            cx.class_if(near, "near-limit");
            cx.nt_if(near || x.abs() < 1e-9 || x.abs() >= 9.0e15);
            match got {
                Ok(d) if outside && x == 9.223372036854775808e18 => {
                    // listed finding: exactly 2^63 seconds
                    cx.soft_fail(format!("{what}-accepts-out-of-range:x=2^63"), format!("{what}(2^63) = Ok({d:?}) but 2^63 seconds is unrepresentable"));
                }
                Ok(d) => {
                    ensure!(!outside, format!("{what}-accepts-out-of-range"), "{what}({x:e}) = Ok({d:?}) but the exact value {fl}ns is unrepresentable");
                    invariant(d, what)?;
                    // stated tolerance +-1ns around [floor, ceil]
                    let g = d.as_nanos();
                    ensure!(g >= fl - tol && g <= ce + tol, format!("{what}-wrong"), "{what}({x:e}) = {d:?} ({g}ns) but the exact value lies in [{fl}, {ce}]");
                }
                Err(e) => ensure!(!inside, format!("{what}-rejects-in-range"), "{what}({x:e}) = Err({e}) but the exact value {fl}ns is representable"),
            }
        }
    }
    Ok(())
}

fn test_float(c: &FloatCase, cx: &mut Cx) -> CaseResult {
    let x = f64::from_bits(c.bits);
    check_float("try_from_secs_f64", x, 1, SignedDuration::try_from_secs_f64(x), cx)?;
    let y = f32::from_bits(c.f32bits);
    check_float("try_from_secs_f32", y as f64, 64, SignedDuration::try_from_secs_f32(y), cx)?;
    // the panicking constructors are the try_ forms plus a documented panic
    {
        use std::panic::AssertUnwindSafe;
        let p64 = crate::engine::guard("op", AssertUnwindSafe(|| SignedDuration::from_secs_f64(x))).ok();
        let t64 = SignedDuration::try_from_secs_f64(x).ok();
        ensure!(p64.map(|d| d.as_nanos()) == t64.map(|d| d.as_nanos()), "from_secs_f64-differs-from-try", "from_secs_f64({x:e}) = {p64:?} but try_from_secs_f64 = {t64:?}");
        let p32 = crate::engine::guard("op", AssertUnwindSafe(|| SignedDuration::from_secs_f32(y))).ok();
        let t32 = SignedDuration::try_from_secs_f32(y).ok();
        ensure!(p32.map(|d| d.as_nanos()) == t32.map(|d| d.as_nanos()), "from_secs_f32-differs-from-try", "from_secs_f32({y:e}) = {p32:?} but try_from_secs_f32 = {t32:?}");
    }
    Ok(())
}

fn strat_float() -> BoxedStrategy<FloatCase> {
    let p63 = 9.223372036854775808e18f64;
    let specials: Vec<f64> = vec![
        0.0, -0.0, f64::NAN, f64::INFINITY, f64::NEG_INFINITY, f64::MIN, f64::MAX, f64::MIN_POSITIVE, 5e-324, -5e-324, p63, -p63,
        f64::from_bits(p63.to_bits() - 1), f64::from_bits(p63.to_bits() + 1), -f64::from_bits(p63.to_bits() - 1), -f64::from_bits(p63.to_bits() + 1),
        12.123456789, -12.123456789, 0.999999999, 0.9999999995, 0.9999999994, -0.9999999995, 1e-9, 0.5e-9, 0.49e-9, 1.5e-9, 4503599627370496.5, 9007199254740993.0,
    ];
    let f64s = prop_oneof![
        3 => proptest::sample::select(specials).prop_map(|f| f.to_bits()),
        3 => any::<u64>(),
        3 => (-1.0e4f64..1.0e4).prop_map(|f| f.to_bits()),
        2 => (any::<bool>(), 0u64..64, any::<u64>()).prop_map(|(neg, e, m)| {
            // around 2^e with random mantissa
            let f = f64::from_bits(((1023 + e) << 52) | (m >> 12));
            (if neg { -f } else { f }).to_bits()
        }),
    ];
    let p63f = 9.223372036854775808e18f32;
    let f32specials: Vec<f32> = vec![0.0, f32::NAN, f32::INFINITY, f32::NEG_INFINITY, f32::MAX, f32::MIN, p63f, -p63f, f32::from_bits(p63f.to_bits() - 1), f32::from_bits(p63f.to_bits() + 1), 12.123456789, 1e-9, 0.5];
    let f32s = prop_oneof![2 => proptest::sample::select(f32specials).prop_map(|f| f.to_bits()), 3 => any::<u32>(), 2 => (-1.0e4f32..1.0e4).prop_map(|f| f.to_bits())];
    (f64s, f32s).prop_map(|(bits, f32bits)| FloatCase { bits, f32bits }).boxed()
}

pub fn property() -> Property {
    let _ = UNIT_NS;
    Property {
        id: "C12",
        level: "exploration",
        rule: "proptest: (a) histories of 1..10 Span operations (try-setters with values in, at and just over each unit limit, negate, abs, checked_mul with limit-biased factors) interpreted step by step against a (ten magnitudes, one sign) model implementing the documented sign rule; (b) Span <-> SignedDuration <-> std Duration conversions; (c) SignedDuration constructor/arithmetic/view cases over (secs, nanos) incl. i64::MIN/MAX, mixed signs and carries against one i128 nanosecond count with truncating division; (d) float constructors on special values, raw bit patterns and values around 2^e against the exact decomposition of the IEEE value (stated tolerance +-1ns). Non-trivial: a refusal/limit value/>=3 ops; a carry or mixed-sign input or overflow outcome; a non-finite, huge, tiny or limit-adjacent float.",
        assumptions: &[
            "Span sign rule as documented ('Negative spans'): a negative argument makes the span negative, a non-negative argument keeps the sign of a non-zero span",
            "SignedDuration::new is documented to panic when the nanosecond carry overflows: such inputs are not called (counted)",
            "float constructors: round-to-nearest is implied by the rustdoc example, hence +-1ns tolerance; float views within 4e-16 relative",
        ],
        checks: vec![
            Box::new(Prop { name: "c12.span_history", quick: 2_400_000, thorough: 30_000_000, strategy: strat_span_history, test: test_span_history }),
            Box::new(Prop { name: "c12.conversions", quick: 2_400_000, thorough: 20_000_000, strategy: strat_conv, test: test_conversions }),
            Box::new(Prop { name: "c12.signed_duration", quick: 6_000_000, thorough: 60_000_000, strategy: strat_sd, test: test_sd }),
            Box::new(Prop { name: "c12.floats", quick: 4_000_000, thorough: 40_000_000, strategy: strat_float, test: test_float }),
        ],
        floors: |rec| {
            rec.floor("c12.span_history:refusal", "c12.span_history:cases", 0.15);
            rec.floor("c12.signed_duration:overflow-outcome", "c12.signed_duration:cases", 0.10);
            rec.floor("c12.floats:near-limit", "c12.floats:cases", 0.01);
        },
    }
}
