//! C17 Parsers are total: arbitrary input gives Ok or Err, and Ok values are sane.
//!
//! Deterministic proptest mutation engine (quick tier). The same target
//! functions (harness/src/targets.rs) are the libFuzzer targets in /verif/fuzz
//! (thorough tier, see tools/fuzz_campaign.sh).

use std::sync::Arc;

use proptest::prelude::*;
use serde::{Deserialize, Serialize};

use crate::engine::*;
use crate::gen::{self, SpanSpec};
use crate::targets;
use crate::zones;
use crate::{ensure, fail};

#[derive(Serialize, Deserialize, Debug, Clone)]
enum Mutation {
    Truncate(u16),
    Insert(u16, u8),
    Replace(u16, u8),
    Delete(u16, u8),
    Duplicate(u16, u8),
    DigitOverflow(u16),
    SignSwap(u16),
    CaseFlip(u16),
    LongRun(u16, u8, u16),
    SeparatorSwap(u16, u8),
    Utf8(u16, u8),
}

fn pos(sel: u16, len: usize) -> usize {
    zones::pick(sel, len + 1).min(len)
}

fn apply(mut v: Vec<u8>, m: &Mutation) -> Vec<u8> {
    match *m {
        Mutation::Truncate(p) => {
            let k = pos(p, v.len());
            v.truncate(k);
        }
        Mutation::Insert(p, b) => {
            let k = pos(p, v.len());
            v.insert(k, b);
        }
        Mutation::Replace(p, b) => {
            if !v.is_empty() {
                let k = pos(p, v.len() - 1);
                v[k] = b;
            }
        }
        Mutation::Delete(p, n) => {
            let k = pos(p, v.len());
            let e = (k + 1 + (n % 8) as usize).min(v.len());
            v.drain(k..e);
        }
        Mutation::Duplicate(p, n) => {
            let k = pos(p, v.len());
            let e = (k + 1 + (n % 16) as usize).min(v.len());
            let chunk: Vec<u8> = v[k..e].to_vec();
            for (i, b) in chunk.into_iter().enumerate() {
                v.insert(e + i, b);
            }
        }
        Mutation::DigitOverflow(p) => {
            // replace the digit run at/after p with a very long digit run
            let k = pos(p, v.len());
            if let Some(st) = (k..v.len()).find(|&i| v[i].is_ascii_digit()) {
                let en = (st..v.len()).find(|&i| !v[i].is_ascii_digit()).unwrap_or(v.len());
                v.splice(st..en, std::iter::repeat(b'9').take(25));
            }
        }
        Mutation::SignSwap(p) => {
            let k = pos(p, v.len());
            if let Some(i) = (k..v.len()).find(|&i| v[i] == b'+' || v[i] == b'-') {
                v[i] = if v[i] == b'+' { b'-' } else { b'+' };
            } else {
                v.insert(k, b'-');
            }
        }
        Mutation::CaseFlip(p) => {
            let k = pos(p, v.len());
            if let Some(i) = (k..v.len()).find(|&i| v[i].is_ascii_alphabetic()) {
                v[i] ^= 0x20;
            }
        }
        Mutation::LongRun(p, b, n) => {
            let k = pos(p, v.len());
            let n = 1 + (n as usize % 3000);
            v.splice(k..k, std::iter::repeat(b).take(n));
        }
        Mutation::SeparatorSwap(p, which) => {
            let k = pos(p, v.len());
            let seps = b"-:T. ,+[]/Z";
            if let Some(i) = (k..v.len()).find(|&i| seps.contains(&v[i])) {
                v[i] = seps[which as usize % seps.len()];
            }
        }
        Mutation::Utf8(p, which) => {
            let k = pos(p, v.len());
            let s: &[u8] = match which % 5 {
                0 => "\u{2212}".as_bytes(), // unicode minus
                1 => "é".as_bytes(),
                2 => &[0xF0, 0x9F, 0x92, 0xA9],
                3 => &[0xC0, 0x80], // overlong / invalid
                _ => &[0xFF],
            };
            v.splice(k..k, s.iter().copied());
        }
    }
    v
}

fn strat_mutation() -> BoxedStrategy<Mutation> {
    let byte = prop_oneof![3 => any::<u8>(), 2 => proptest::sample::select(b"0123456789+-:.TZ[]/,PpDdHhMmSs %\x00\xff".to_vec())];
    prop_oneof![
        2 => any::<u16>().prop_map(Mutation::Truncate),
        3 => (any::<u16>(), byte.clone()).prop_map(|(p, b)| Mutation::Insert(p, b)),
        3 => (any::<u16>(), byte.clone()).prop_map(|(p, b)| Mutation::Replace(p, b)),
        2 => (any::<u16>(), any::<u8>()).prop_map(|(p, n)| Mutation::Delete(p, n)),
        2 => (any::<u16>(), any::<u8>()).prop_map(|(p, n)| Mutation::Duplicate(p, n)),
        2 => any::<u16>().prop_map(Mutation::DigitOverflow),
        2 => any::<u16>().prop_map(Mutation::SignSwap),
        1 => any::<u16>().prop_map(Mutation::CaseFlip),
        1 => (any::<u16>(), byte, any::<u16>()).prop_map(|(p, b, n)| Mutation::LongRun(p, b, n)),
        2 => (any::<u16>(), any::<u8>()).prop_map(|(p, w)| Mutation::SeparatorSwap(p, w)),
        1 => (any::<u16>(), any::<u8>()).prop_map(|(p, w)| Mutation::Utf8(p, w)),
    ]
    .boxed()
}

#[derive(Serialize, Deserialize, Debug, Clone)]
struct TextCase {
    target: u8,
    base: Vec<u8>,
    muts: Vec<Mutation>,
}

/// Valid strings to mutate, per target.
fn strat_base(target: u8) -> BoxedStrategy<Vec<u8>> {
    use jiff::fmt::friendly;
    let zoned_names = ["America/New_York", "Europe/London", "Asia/Kathmandu", "Australia/Lord_Howe", "Africa/Monrovia", "UTC"];
    match target {
        0 => prop_oneof![
            3 => gen::ts_ns().prop_map(|ns| gen::mk_ts(ns).to_string().into_bytes()),
            3 => (gen::ts_ns(), 0usize..6).prop_map(move |(ns, z)| match jiff::tz::TimeZone::get(zoned_names[z]) {
                Ok(tz) => gen::mk_ts(ns).to_zoned(tz).to_string().into_bytes(),
                Err(_) => gen::mk_ts(ns).to_string().into_bytes(),
            }),
            2 => (gen::ymd(), gen::tod_ns()).prop_map(|(d, t)| gen::mk_date(d.0, d.1, d.2).to_datetime(gen::mk_time(t)).to_string().into_bytes()),
            1 => gen::ymd().prop_map(|d| gen::mk_date(d.0, d.1, d.2).to_string().into_bytes()),
            1 => gen::tod_ns().prop_map(|t| gen::mk_time(t).to_string().into_bytes()),
            1 => (gen::ts_ns(), gen::offset_secs()).prop_map(|(ns, o)| format!("{}[{}][u-ca=iso8601][!foo=bar]", gen::mk_ts(ns).display_with_offset(jiff::tz::Offset::from_seconds(o / 60 * 60).unwrap()), "Europe/Paris").into_bytes()),
            1 => Just(b"2024-06-30T23:59:60-04:00[America/New_York]".to_vec()),
            1 => Just(b"20240630T235959.123456789+0530".to_vec()),
            1 => Just(b"+002024-W27-4T12".to_vec()),
        ]
        .boxed(),
        1 => prop_oneof![
            3 => gen::span_spec().prop_map(|s| s.to_span().to_string().into_bytes()),
            3 => (gen::span_spec(), crate::props::c15::strat_config()).prop_map(|(s, _c)| format!("{:#}", s.to_span()).into_bytes()),
            2 => gen::signed_duration().prop_map(|(s, n)| jiff::SignedDuration::new(s, if s < 0 { -n.abs() } else { n.abs() }).to_string().into_bytes()),
            2 => (gen::span_spec(), 0u8..4).prop_map(|(s, d)| {
                let p = friendly::SpanPrinter::new().designator([friendly::Designator::Verbose, friendly::Designator::Short, friendly::Designator::Compact, friendly::Designator::HumanTime][d as usize]).hours_minutes_seconds(d % 2 == 0);
                p.span_to_string(&s.to_span().abs()).into_bytes()
            }),
            1 => Just(b"P1Y2M3W4DT5H6M7.123456789S".to_vec()),
            1 => Just(b"-PT1.5H".to_vec()),
            1 => Just(b"1 year, 2 months, 3 days 04:05:06.789 ago".to_vec()),
        ]
        .boxed(),
        2 => prop_oneof![
            4 => (-62135596800i64..253402207200, gen::offset_secs()).prop_map(|(s, o)| {
                let z = jiff::Timestamp::from_second(s).unwrap().to_zoned(jiff::tz::TimeZone::fixed(jiff::tz::Offset::from_seconds(o / 60 * 60).unwrap()));
                jiff::fmt::rfc2822::to_string(&z).unwrap_or_default().into_bytes()
            }),
            1 => Just(b"Wed, 10 Jan 2024 05:34:45 EST".to_vec()),
            1 => Just(b"10 Jan 24 05:34 (comment (nested)) +0000".to_vec()),
            1 => Just(b"Thu,\r\n 13 Feb 1969 23:32 -0330 (Newfoundland Time)".to_vec()),
        ]
        .boxed(),
        3 => {
            let fmts: Vec<&'static str> = vec!["%Y-%m-%d %H:%M:%S%.f %z", "%A, %d %B %Y %I:%M:%S %p %:z", "%s", "%G-W%V-%u", "%Y %j", "%D %T", "%c", "%5Y%_3m%-d", "%F %T %Q", "%Y %U %w", "%y%m%d%H%M%S%z", "%%%n%t%C%g%e%k%l%P%h%R%b%a%Z", "%Y-%m-%d%n", "%H:%M:%S%t", "%F%n%T%t%z%n", "%Y %j %n%t"];
            (proptest::sample::select(fmts), gen::ts_ns(), 0usize..6)
                .prop_map(move |(f, ns, z)| {
                    let tz = jiff::tz::TimeZone::get(zoned_names[z]).unwrap_or(jiff::tz::TimeZone::UTC);
                    let zdt = gen::mk_ts(ns).to_zoned(tz);
                    let text = jiff::fmt::strtime::format(f, &zdt).unwrap_or_default();
                    let mut v = f.as_bytes().to_vec();
                    v.push(0xFF);
                    v.extend_from_slice(text.as_bytes());
                    v
                })
                .boxed()
        }
        _ => prop_oneof![
            4 => crate::props::c03::strat_posix_string().prop_map(|s| s.into_bytes()),
            1 => Just(b"".to_vec()),
            1 => Just(b"EST5EDT,M3.2.0,M11.1.0".to_vec()),
            1 => Just(b"<+0330>-3:30<+0430>,J79/24,J263/24".to_vec()),
            1 => Just(b"ABCDEFGHIJKLMNOPQRSTUVWXYZABCDEFGH5ABCDEFGHIJKLMNOPQRSTUVWXYZABCDEFGHIJ,M3.2.0,M11.1.0".to_vec()),
        ]
        .boxed(),
    }
}

fn strat_text() -> BoxedStrategy<TextCase> {
    (0u8..5)
        .prop_flat_map(|t| {
            let base = prop_oneof![6 => strat_base(t), 1 => proptest::collection::vec(any::<u8>(), 0..64)];
            (Just(t), base, proptest::collection::vec(strat_mutation(), 0..5))
        })
        .prop_map(|(target, base, muts)| TextCase { target, base, muts })
        .boxed()
}

fn run_target(idx: usize, data: &[u8], cx: &mut Cx) -> CaseResult {
    targets::ACCEPTED.with(|a| a.set(0));
    let (name, f) = targets::TARGETS[idx];
    let r = f(data);
    let acc = targets::ACCEPTED.with(|a| a.get());
    cx.class_if(acc > 0, "accepted-by-a-parser");
    cx.class_if(acc == 0, "rejected-by-all");
    match r {
        Ok(()) => Ok(()),
        Err(e) => {
            let (sig, msg) = e.split_once(": ").unwrap_or((&e, ""));
            fail!(format!("{name}/{sig}"), "{name}: {msg}; input = {:?}", String::from_utf8_lossy(&data[..data.len().min(200)]))
        }
    }
}

fn test_text(c: &TextCase, cx: &mut Cx) -> CaseResult {
    let mut data = c.base.clone();
    for m in &c.muts {
        data = apply(data, m);
    }
    let idx = match c.target {
        0 => 0,
        1 => 1,
        2 => 2,
        3 => 3,
        _ => 4,
    };
    cx.nt_if(!c.muts.is_empty());
    cx.class_if(c.muts.is_empty(), "unmutated-valid");
    run_target(idx, &data, cx)
}

// --- strptime/strftime: every specifier x flag x width x digit-heavy inputs -----------------------

#[derive(Serialize, Deserialize, Debug, Clone)]
struct SpecCase {
    spec: char,
    colon: bool,
    dot: bool,
    flag: Option<char>,
    width: Option<u16>,
    input: Vec<u8>,
    prefix_literal: bool,
}

fn strat_spec_case() -> BoxedStrategy<SpecCase> {
    let spec = proptest::sample::select("%AaBbCcDdeFfGgHhIjklMmNnPpQRrSsTtUuVvWwXxYyZz+".chars().collect::<Vec<_>>());
    let flag = prop_oneof![3 => Just(None), 1 => Just(Some('_')), 1 => Just(Some('-')), 1 => Just(Some('0')), 1 => Just(Some('^')), 1 => Just(Some('#'))];
    let width = prop_oneof![3 => Just(None), 3 => (0u16..=30).prop_map(Some), 1 => prop_oneof![Just(255u16), Just(256), Just(999), Just(65535)].prop_map(Some)];
    let input = prop_oneof![
        3 => (1usize..30, proptest::sample::select(b"0123456789".to_vec())).prop_map(|(n, d)| vec![d; n]),
        2 => proptest::collection::vec(proptest::sample::select(b"0123456789".to_vec()), 0..30),
        1 => (any::<bool>(), proptest::collection::vec(proptest::sample::select(b"0123456789:".to_vec()), 0..20)).prop_map(|(neg, mut v)| { v.insert(0, if neg { b'-' } else { b'+' }); v }),
        1 => proptest::sample::select(vec![&b"Monday"[..], b"tue", b"December", b"dec", b"AM", b"pm", b"America/New_York", b"UTC", b"+05:30:15", b"-0000", b"Z", b""]).prop_map(|s| s.to_vec()),
        1 => proptest::collection::vec(any::<u8>(), 0..12),
    ];
    (spec, any::<bool>(), any::<bool>(), flag, width, input, any::<bool>())
        .prop_map(|(spec, colon, dot, flag, width, input, prefix_literal)| SpecCase { spec, colon: colon && "zQ".contains(spec), dot: dot && spec == 'f', flag, width, input, prefix_literal })
        .boxed()
}

fn test_spec_case(c: &SpecCase, cx: &mut Cx) -> CaseResult {
    let mut fmt = String::new();
    if c.prefix_literal {
        fmt.push_str("x ");
    }
    fmt.push('%');
    if let Some(f) = c.flag {
        fmt.push(f);
    }
    if let Some(w) = c.width {
        fmt.push_str(&w.to_string());
    }
    if c.colon {
        fmt.push(':');
    }
    if c.dot {
        fmt.push('.');
    }
    fmt.push(c.spec);
    let mut data = fmt.clone().into_bytes();
    data.push(0xFF);
    if c.prefix_literal {
        data.extend_from_slice(b"x ");
    }
    data.extend_from_slice(&c.input);
    cx.nt_if(c.width.is_some() || c.flag.is_some());
    cx.class_if(c.width.map_or(false, |w| w >= 10), "width>=10");
    run_target(3, &data, cx)
}

// --- TZif: structure-aware mutation --------------------------------------------------------------

#[derive(Serialize, Deserialize, Debug, Clone)]
enum TzMut {
    /// header (0 = v1, 1 = v2), count field 0..6, new value
    SetCount(u8, u8, u32),
    SetTime(u16, i64),
    SetTypeIndex(u16, u8),
    SetOffset(u8, i32),
    SetIsDst(u8, u8),
    SetDesigIdx(u8, u8),
    SetVersion(u8),
    Footer(Vec<u8>),
    Truncate(u16),
    Bytes(Mutation),
}

#[derive(Serialize, Deserialize, Debug, Clone)]
struct TzifCase {
    file_sel: u16,
    muts: Vec<TzMut>,
}

fn tzif_corpus() -> &'static Vec<(String, Arc<Vec<u8>>)> {
    static C: std::sync::OnceLock<Vec<(String, Arc<Vec<u8>>)>> = std::sync::OnceLock::new();
    C.get_or_init(|| {
        let mut v = vec![];
        for z in zones::synthetic().zones.iter() {
            v.push((z.label.clone(), z.bytes.clone().unwrap()));
        }
        for l in ["file:Africa/Abidjan", "file:America/New_York", "file:Europe/Dublin", "file:Australia/Lord_Howe", "file:Pacific/Apia", "file:Asia/Gaza", "file:right/UTC", "file:Etc/GMT+12", "file:America/Sao_Paulo", "file:Asia/Kolkata", "file:right/Europe/Paris"] {
            if let Some(z) = zones::by_label(l) {
                v.push((z.label.clone(), z.bytes.clone().unwrap()));
            }
        }
        // a v1-only file built by hand (header version 0)
        if let Some(z) = zones::by_label("file:Africa/Abidjan") {
            let b = z.bytes.clone().unwrap();
            let h = |o: usize| u32::from_be_bytes([b[o], b[o + 1], b[o + 2], b[o + 3]]) as usize;
            let v1len = 44 + h(32) * 5 + h(36) * 6 + h(40) + h(28) * 8 + h(24) + h(20);
            let mut v1 = b[..v1len.min(b.len())].to_vec();
            v1[4] = 0;
            v.push(("handmade:v1-only".into(), Arc::new(v1)));
        }
        v
    })
}

struct Layout {
    h2: usize,
    times: usize,
    idx: usize,
    types: usize,
    timecnt: usize,
    typecnt: usize,
    footer: usize,
}

fn layout(b: &[u8]) -> Option<Layout> {
    if b.len() < 44 {
        return None;
    }
    let h = |o: usize| -> Option<usize> { Some(u32::from_be_bytes([*b.get(o)?, *b.get(o + 1)?, *b.get(o + 2)?, *b.get(o + 3)?]) as usize) };
    let v1 = 44 + h(32)? * 5 + h(36)? * 6 + h(40)? + h(28)? * 8 + h(24)? + h(20)?;
    if b[4] == 0 {
        let timecnt = h(32)?;
        return Some(Layout { h2: 0, times: 44, idx: 44 + timecnt * 4, types: 44 + timecnt * 5, timecnt, typecnt: h(36)?, footer: b.len() });
    }
    let h2 = v1;
    let timecnt = h(h2 + 32)?;
    let typecnt = h(h2 + 36)?;
    let times = h2 + 44;
    let idx = times + timecnt * 8;
    let types = idx + timecnt;
    let footer = types + typecnt * 6 + h(h2 + 40)? + h(h2 + 28)? * 12 + h(h2 + 24)? + h(h2 + 20)?;
    Some(Layout { h2, times, idx, types, timecnt, typecnt, footer })
}

fn apply_tz(mut b: Vec<u8>, m: &TzMut) -> Vec<u8> {
    let Some(l) = layout(&b) else { return b };
    let put = |b: &mut Vec<u8>, o: usize, bytes: &[u8]| {
        if o + bytes.len() <= b.len() {
            b[o..o + bytes.len()].copy_from_slice(bytes);
        }
    };
    let v1only = b[4] == 0;
    match m {
        TzMut::SetCount(hdr, field, val) => {
            let base = if *hdr == 0 || v1only { 0 } else { l.h2 };
            put(&mut b, base + 20 + 4 * (*field as usize % 6), &val.to_be_bytes());
        }
        TzMut::SetTime(i, t) => {
            if l.timecnt > 0 {
                let k = zones::pick(*i, l.timecnt);
                if v1only {
                    put(&mut b, l.times + 4 * k, &(*t as i32).to_be_bytes());
                } else {
                    put(&mut b, l.times + 8 * k, &t.to_be_bytes());
                }
            }
        }
        TzMut::SetTypeIndex(i, v) => {
            if l.timecnt > 0 {
                put(&mut b, l.idx + zones::pick(*i, l.timecnt), &[*v]);
            }
        }
        TzMut::SetOffset(i, v) => {
            if l.typecnt > 0 {
                put(&mut b, l.types + 6 * (*i as usize % l.typecnt), &v.to_be_bytes());
            }
        }
        TzMut::SetIsDst(i, v) => {
            if l.typecnt > 0 {
                put(&mut b, l.types + 6 * (*i as usize % l.typecnt) + 4, &[*v]);
            }
        }
        TzMut::SetDesigIdx(i, v) => {
            if l.typecnt > 0 {
                put(&mut b, l.types + 6 * (*i as usize % l.typecnt) + 5, &[*v]);
            }
        }
        TzMut::SetVersion(v) => {
            b[4] = *v;
            if !v1only && l.h2 + 4 < b.len() {
                b[l.h2 + 4] = *v;
            }
        }
        TzMut::Footer(f) => {
            if !v1only && l.footer <= b.len() {
                b.truncate(l.footer);
                b.push(b'\n');
                b.extend_from_slice(f);
                b.push(b'\n');
            }
        }
        TzMut::Truncate(p) => {
            let k = pos(*p, b.len());
            b.truncate(k);
        }
        TzMut::Bytes(m) => b = apply(b, m),
    }
    b
}

fn strat_tzmut() -> BoxedStrategy<TzMut> {
    let count = prop_oneof![Just(0u32), Just(1), Just(2), Just(255), Just(256), Just(65535), Just(0x7fffffff), Just(0xffffffff), 0u32..2000];
    let time = prop_oneof![Just(i64::MIN), Just(i64::MAX), Just(0i64), Just(-377705023201), Just(253402207200), Just(-377705023202), Just(253402207201), any::<i64>(), -4_000_000_000i64..4_000_000_000];
    let off = prop_oneof![Just(i32::MIN), Just(i32::MAX), Just(93599), Just(-93599), Just(93600), Just(-93600), Just(0), any::<i32>(), -90000i32..90000];
    let footer = prop_oneof![
        3 => crate::props::c03::strat_posix_string().prop_map(|s| s.into_bytes()),
        1 => Just(vec![]),
        1 => proptest::collection::vec(any::<u8>(), 0..40),
        1 => Just(b"EST5EDT,M3.2.0,M11.1.0\nextra".to_vec()),
        1 => Just(vec![b'A'; 300]),
    ];
    prop_oneof![
        3 => (0u8..2, 0u8..6, count).prop_map(|(h, f, v)| TzMut::SetCount(h, f, v)),
        3 => (any::<u16>(), time).prop_map(|(i, t)| TzMut::SetTime(i, t)),
        2 => (any::<u16>(), any::<u8>()).prop_map(|(i, v)| TzMut::SetTypeIndex(i, v)),
        3 => (any::<u8>(), off).prop_map(|(i, v)| TzMut::SetOffset(i, v)),
        1 => (any::<u8>(), any::<u8>()).prop_map(|(i, v)| TzMut::SetIsDst(i, v)),
        2 => (any::<u8>(), any::<u8>()).prop_map(|(i, v)| TzMut::SetDesigIdx(i, v)),
        1 => prop_oneof![Just(0u8), Just(b'1'), Just(b'2'), Just(b'3'), Just(b'4'), Just(b'9'), any::<u8>()].prop_map(TzMut::SetVersion),
        2 => footer.prop_map(TzMut::Footer),
        2 => any::<u16>().prop_map(TzMut::Truncate),
        2 => strat_mutation().prop_map(TzMut::Bytes),
    ]
    .boxed()
}

fn strat_tzif() -> BoxedStrategy<TzifCase> {
    (any::<u16>(), proptest::collection::vec(strat_tzmut(), 0..5)).prop_map(|(file_sel, muts)| TzifCase { file_sel, muts }).boxed()
}

fn test_tzif(c: &TzifCase, cx: &mut Cx) -> CaseResult {
    let corpus = tzif_corpus();
    let (label, bytes) = &corpus[zones::pick(c.file_sel, corpus.len())];
    let mut data: Vec<u8> = bytes.as_ref().clone();
    for m in &c.muts {
        data = apply_tz(data, m);
    }
    cx.nt_if(!c.muts.is_empty());
    // resource proportionality: peak heap while parsing is bounded by a
    // multiple of the input size (fattening adds a bounded constant)
    let before = crate::heap::reset_peak();
    let parsed = jiff::tz::TimeZone::tzif("Fuzz/Zone", &data);
    let peak = crate::heap::peak() - before;
    let bound = 64 * data.len() as isize + 512 * 1024;
    ensure!(peak <= bound, "tzif/heap-not-proportional", "[{label}] parsing {} bytes used a peak of {peak} heap bytes (> 64*len + 512KiB)", data.len());
    cx.class_if(parsed.is_ok(), "accepted");
    drop(parsed);
    run_target(5, &data, cx).map_err(|mut f| {
        f.msg = format!("[{label}] {}", f.msg);
        f
    })
}


// --- the Android concatenated tzdata reader -----------------------------------------------------------

#[derive(Serialize, Deserialize, Debug, Clone)]
enum CMut {
    /// header word 0..3 (index offset, data offset, final offset) := value
    Header(u8, u32),
    /// index entry e, field 0..3 (start, length, raw offset) := value
    Entry(u8, u8, u32),
    /// overwrite one byte of the name of index entry e
    NameByte(u8, u8, u8),
    Truncate(u16),
    SetByte(u16, u8),
    Append(u8, u8),
    /// remove a slice (start, len) anywhere
    Cut(u16, u8),
}

#[derive(Serialize, Deserialize, Debug, Clone)]
struct ConcatCase {
    nzones: u8,
    muts: Vec<CMut>,
}

const CONCAT_NAMES: [&str; 5] = ["Alpha/One", "Beta", "Mixed/CaSe_Zone", "Zeta", "aLPHA/two"];

fn concat_base(n: usize) -> Vec<u8> {
    let zones: Vec<(String, Vec<u8>)> = (0..n.clamp(1, 5)).map(|i| (CONCAT_NAMES[i].to_string(), crate::tzfiles::fixed_tzif(&format!("Z{}X", i + 1), (i as i32 + 1) * 1800))).collect();
    crate::tzfiles::concatenated("2024a", &zones)
}

fn apply_concat(mut b: Vec<u8>, m: &CMut, n: usize) -> Vec<u8> {
    match *m {
        CMut::Header(w, v) => {
            let at = 12 + 4 * (w as usize % 3);
            if b.len() >= at + 4 {
                b[at..at + 4].copy_from_slice(&v.to_be_bytes());
            }
        }
        CMut::Entry(e, f, v) => {
            let at = 24 + 52 * (e as usize % n.max(1)) + 40 + 4 * (f as usize % 3);
            if b.len() >= at + 4 {
                b[at..at + 4].copy_from_slice(&v.to_be_bytes());
            }
        }
        CMut::NameByte(e, k, v) => {
            let at = 24 + 52 * (e as usize % n.max(1)) + (k as usize % 40);
            if at < b.len() {
                b[at] = v;
            }
        }
        CMut::Truncate(sel) => {
            let to = pos(sel, b.len() + 1).min(b.len());
            b.truncate(to);
        }
        CMut::SetByte(sel, v) => {
            if !b.is_empty() {
                let at = pos(sel, b.len()).min(b.len() - 1);
                b[at] = v;
            }
        }
        CMut::Append(k, v) => b.extend(std::iter::repeat(v).take(k as usize)),
        CMut::Cut(sel, len) => {
            if !b.is_empty() {
                let at = pos(sel, b.len()).min(b.len() - 1);
                let end = (at + len as usize).min(b.len());
                b.drain(at..end);
            }
        }
    }
    b
}

fn strat_concat() -> BoxedStrategy<ConcatCase> {
    // values that matter for offsets and lengths: around the real layout (24-byte header, 52-byte
    // entries), small, huge
    let word = prop_oneof![
        3 => (0u32..600),
        2 => proptest::sample::select(vec![0u32, 1, 11, 12, 23, 24, 25, 51, 52, 53, 75, 76, 77, 103, 104, 128, 129, 180, 232, 284, u32::MAX, u32::MAX - 1, 1 << 31, (1 << 31) - 1, 0x0100_0000, 65535, 65536]),
        1 => any::<u32>(),
    ];
    let m = prop_oneof![
        4 => (0u8..3, word.clone()).prop_map(|(w, v)| CMut::Header(w, v)),
        4 => (any::<u8>(), 0u8..3, word).prop_map(|(e, f, v)| CMut::Entry(e, f, v)),
        2 => (any::<u8>(), any::<u8>(), any::<u8>()).prop_map(|(e, k, v)| CMut::NameByte(e, k, v)),
        2 => any::<u16>().prop_map(CMut::Truncate),
        2 => (any::<u16>(), any::<u8>()).prop_map(|(p, v)| CMut::SetByte(p, v)),
        1 => (any::<u8>(), any::<u8>()).prop_map(|(k, v)| CMut::Append(k, v)),
        1 => (any::<u16>(), any::<u8>()).prop_map(|(p, l)| CMut::Cut(p, l)),
    ];
    (1u8..=5, proptest::collection::vec(m, 0..4)).prop_map(|(nzones, muts)| ConcatCase { nzones, muts }).boxed()
}

static CONCAT_COUNTER: std::sync::atomic::AtomicU64 = std::sync::atomic::AtomicU64::new(0);

fn test_concat(c: &ConcatCase, cx: &mut Cx) -> CaseResult {
    use jiff::tz::TimeZoneDatabase;
    let n = c.nzones as usize;
    let mut data = concat_base(n);
    for m in &c.muts {
        data = apply_concat(data, m, n);
    }
    cx.nt_if(!c.muts.is_empty());
    thread_local! {
        static DIR: std::path::PathBuf = {
            let d = std::path::PathBuf::from(format!("{}/.work/c17-concat/{}-{}", VERIF_DIR, std::process::id(), CONCAT_COUNTER.fetch_add(1, std::sync::atomic::Ordering::Relaxed)));
            let _ = std::fs::create_dir_all(&d);
            d
        };
    }
    let path = DIR.with(|d| d.join("tzdata"));
    std::fs::write(&path, &data).map_err(|e| Failure::new("HARNESS-PANIC", format!("cannot write {}: {e}", path.display())))?;
    // Ok or Err, never a panic (a panic is caught by the engine and reported with its location);
    // whatever is accepted must answer lookups without panicking, and a zone it hands out must be
    // a usable zone
    match TimeZoneDatabase::from_concatenated_path(&path) {
        Err(_) => cx.class("concat: rejected when opened"),
        Ok(db) => {
            cx.class("concat: opened");
            let names: Vec<String> = db.available().take(8).map(|n| n.as_str().to_string()).collect();
            let mut got_zone = false;
            for q in names.iter().map(|s| s.as_str()).chain(CONCAT_NAMES.iter().copied()).chain(["zeta", "No/Such", ""]) {
                if let Ok(tz) = db.get(q) {
                    got_zone = true;
                    targets::tz_battery("concat", &tz, &[0, -1_000_000_000, 1_700_000_000]).map_err(|e| Failure::new("concat-zone-unusable", format!("get({q:?}): {e}")))?;
                }
            }
            cx.class_if(got_zone, "concat: handed out a zone");
            if c.muts.is_empty() {
                ensure!(names.len() == n.min(8), "concat-valid-file-not-listed", "a well-formed file with {n} zones lists {names:?}");
                for i in 0..n {
                    let tz = db.get(CONCAT_NAMES[i]).map_err(|e| Failure::new("concat-valid-file-lookup", format!("{}: {e}", CONCAT_NAMES[i])))?;
                    ensure!(tz.to_offset(jiff::Timestamp::UNIX_EPOCH).seconds() == (i as i32 + 1) * 1800, "concat-valid-file-wrong-zone", "{} answers like another zone", CONCAT_NAMES[i]);
                }
            }
        }
    }
    Ok(())
}

fn run_concat_cleanup(_rec: &Recorder, _check: &'static str) {
    let _ = std::fs::remove_dir_all(format!("{}/.work/c17-concat", VERIF_DIR));
}

fn replay_nothing(_: serde_json::Value) -> CaseResult {
    Ok(())
}

// --- time proportionality (coarse scaling test) ---------------------------------------------------

fn run_scaling(rec: &Recorder, check: &'static str) {
    // Inputs built from a repeated unit at sizes 4K..1M per target; a
    // violation needs three successive 4x steps each > 12x slower *and* more
    // than 0.5 s for the largest input. A single slow run is never judged.
    let units: [(&str, usize, &[u8]); 8] = [
        ("digits", 0, b"9"),
        ("date-prefix-then-digits", 0, b"2024-01-01T00:00:00."),
        ("iso-span-units", 1, b"1H"),
        ("friendly-units", 1, b"1 hour "),
        ("rfc2822-comments", 2, b"(a"),
        ("strtime-percent", 3, b"%Y"),
        ("posix-letters", 4, b"A"),
        ("annotations", 0, b"[a=b]"),
    ];
    let mut evals = 0u64;
    for (name, target, unit) in units {
        let mut times = vec![];
        for size in [4usize << 10, 16 << 10, 64 << 10, 256 << 10, 1 << 20] {
            let mut data = if name == "annotations" { b"2024-01-01T00:00:00Z".to_vec() } else if name == "iso-span-units" { b"PT".to_vec() } else { vec![] };
            while data.len() < size {
                data.extend_from_slice(unit);
            }
            let t0 = std::time::Instant::now();
            let _ = guard(check, || {
                let _ = (targets::TARGETS[target].1)(&data);
            });
            times.push(t0.elapsed().as_secs_f64());
            evals += 1;
        }
        let superlinear = times.windows(2).rev().take(3).all(|w| w[1] > 12.0 * w[0].max(1e-5)) && *times.last().unwrap() > 0.5;
        rec.add_sample(serde_json::json!({"check": check, "unit": name, "seconds_at_4K_16K_64K_256K_1M": times}));
        if superlinear {
            let f = Failure::new(format!("superlinear-time:{name}"), format!("parser time grows super-linearly on repeated {name:?}: {times:?}"));
            rec.fail(check, &f, &serde_json::json!({"unit": name}));
        }
    }
    rec.add_evaluations(evals);
    rec.add_distinct_nontrivial(evals);
}

fn replay_scaling(_: serde_json::Value) -> CaseResult {
    Ok(())
}

pub fn property() -> Property {
    let _ = SpanSpec::zero();
    Property {
        id: "C17",
        level: "exploration",
        rule: "Deterministic mutation engine (proptest): valid strings printed from generated values (temporal datetimes/zoned with annotations, ISO and friendly durations under printer configurations, RFC 2822, strptime format+input pairs, generated POSIX TZ strings) or random bytes, with 0..4 grammar-aware mutations (truncate at any prefix, insert/replace/delete/duplicate, 25-digit overflow of a digit run, sign swap, case flip, runs of up to 3000 bytes, separator swap, multi-byte/invalid UTF-8); real and synthetic TZif files (v1-only, slim, fat, right/) with 0..4 structure-aware mutations (header counts, extreme/unsorted transition times, type index, extreme offsets, designation index, version byte, hostile footers, truncation). Oracle inside every target (harness/src/targets.rs, shared with the libFuzzer targets): no panic; Ok => value within its type's range and print->parse equal; accepted time zones answer a battery of lookups (own transitions, limits, 16 input-derived instants, civil resolution, iterators monotone and bounded); peak heap while parsing TZif <= 64*len + 512KiB (counting allocator); coarse time-scaling test on repeated units. Non-trivial: at least one mutation applied; evidence reports accepted vs rejected counts.",
        assumptions: &["the coarse time-scaling test can only flag three concordant super-linear steps above 0.5s; it is not a complexity proof", "thorough tier adds libFuzzer campaigns on the same targets (tools/fuzz_campaign.sh)"],
        checks: vec![
            Box::new(Prop { name: "c17.text", quick: 1_500_000, thorough: 60_000_000, strategy: strat_text, test: test_text }),
            Box::new(Prop { name: "c17.strtime_spec", quick: 600_000, thorough: 20_000_000, strategy: strat_spec_case, test: test_spec_case }),
            Box::new(Prop { name: "c17.tzif", quick: 200_000, thorough: 8_000_000, strategy: strat_tzif, test: test_tzif }),
            Box::new(Prop { name: "c17.concat", quick: 150_000, thorough: 6_000_000, strategy: strat_concat, test: test_concat }),
            Box::new(Sweep { name: "c17.concat_cleanup", run: run_concat_cleanup, replay: replay_nothing }),
            Box::new(Sweep { name: "c17.scaling", run: run_scaling, replay: replay_scaling }),
        ],
        floors: |rec| {
            rec.floor("c17.text:accepted-by-a-parser", "c17.text:cases", 0.15);
            rec.floor("c17.text:rejected-by-all", "c17.text:cases", 0.15);
            rec.floor("c17.tzif:accepted", "c17.tzif:cases", 0.10);
            rec.floor("c17.concat:concat: opened", "c17.concat:cases", 0.10);
            rec.floor("c17.concat:concat: rejected when opened", "c17.concat:cases", 0.05);
        },
    }
}
