//! C19 Time zone database lookups are coherent under caching, refresh and concurrency.

use std::path::{Path, PathBuf};
use std::sync::atomic::{AtomicBool, AtomicU32, AtomicU64, Ordering};
use std::sync::Arc;
use std::time::{Duration, SystemTime};

use jiff::tz::{TimeZone, TimeZoneDatabase};
use jiff::Timestamp;
use proptest::prelude::*;
use serde::{Deserialize, Serialize};
use serde_json::{json, Value};

use crate::engine::*;
use crate::tzfiles;
use crate::{ensure, fail};

/// mixed case, nested, and two pairs whose lowercase order differs from byte order
const NAMES: [&str; 6] = ["Zeta", "alpha/One", "Mixed/CaSe_Zone", "Nested/Deep/Er/Zone", "Beta", "aLPHA/two"];

fn variant(name: &str, v: u8) -> String {
    match v % 4 {
        0 => name.to_string(),
        1 => name.to_ascii_uppercase(),
        2 => name.to_ascii_lowercase(),
        _ => name.chars().enumerate().map(|(i, c)| if i % 2 == 0 { c.to_ascii_uppercase() } else { c.to_ascii_lowercase() }).collect(),
    }
}

static DIR_COUNTER: AtomicU64 = AtomicU64::new(0);

struct Tree {
    root: PathBuf,
    tmp: PathBuf,
}

impl Tree {
    fn new() -> Tree {
        let n = DIR_COUNTER.fetch_add(1, Ordering::Relaxed);
        let base = PathBuf::from(format!("{}/.work/c19/{}-{}", VERIF_DIR, std::process::id(), n));
        let _ = std::fs::remove_dir_all(&base);
        let root = base.join("zoneinfo");
        let tmp = base.join("tmp");
        std::fs::create_dir_all(&root).unwrap();
        std::fs::create_dir_all(&tmp).unwrap();
        Tree { root, tmp }
    }
    /// atomically publish version `ver` of zone `i` with a distinct mtime
    fn publish(&self, i: usize, ver: u32) {
        let data = tzfiles::fixed_tzif(&format!("N{}V{}", i + 1, ver), (i as i32 + 1) * 1000 + ver as i32);
        let tmp = self.tmp.join(format!("z{i}-{ver}-{}", DIR_COUNTER.fetch_add(1, Ordering::Relaxed)));
        std::fs::write(&tmp, &data).unwrap();
        let f = std::fs::OpenOptions::new().write(true).open(&tmp).unwrap();
        f.set_modified(SystemTime::UNIX_EPOCH + Duration::from_secs(1_600_000_000 + 10 * ver as u64 + i as u64)).unwrap();
        drop(f);
        let dest = self.root.join(NAMES[i]);
        std::fs::create_dir_all(dest.parent().unwrap()).unwrap();
        std::fs::rename(&tmp, &dest).unwrap();
    }
    fn remove(&self, i: usize) {
        let _ = std::fs::remove_file(self.root.join(NAMES[i]));
    }
}

impl Drop for Tree {
    fn drop(&mut self) {
        if let Some(base) = self.root.parent() {
            let _ = std::fs::remove_dir_all(base);
        }
    }
}

/// (name id 1..=6, version) encoded in the zone's behaviour
fn decode(tz: &TimeZone) -> (i32, u32) {
    let off = tz.to_offset(Timestamp::UNIX_EPOCH).seconds();
    (off / 1000, (off % 1000) as u32)
}

#[derive(Serialize, Deserialize, Debug, Clone)]
enum Op {
    Get(u8, u8),
    GetUnknown(u8),
    Reset,
    Available,
    Replace(u8),
    Remove(u8),
    Add(u8),
    /// (zones ttl is long, names ttl is long); false = 0 = expires immediately
    SetTtl(bool, bool),
}

#[derive(Serialize, Deserialize, Debug, Clone)]
struct History {
    /// which names exist initially (bit i)
    initial: u8,
    ops: Vec<Op>,
}

fn strat_history() -> BoxedStrategy<History> {
    let name = 0u8..6;
    let op = prop_oneof![
        8 => (name.clone(), 0u8..4).prop_map(|(n, v)| Op::Get(n, v)),
        1 => (0u8..3).prop_map(Op::GetUnknown),
        1 => Just(Op::Reset),
        1 => Just(Op::Available),
        3 => name.clone().prop_map(Op::Replace),
        1 => name.clone().prop_map(Op::Remove),
        1 => name.prop_map(Op::Add),
        2 => (any::<bool>(), any::<bool>()).prop_map(|(a, b)| Op::SetTtl(a, b)),
    ];
    (prop_oneof![3 => Just(0x3fu8), 1 => 1u8..0x40], proptest::collection::vec(op, 1..30)).prop_map(|(initial, ops)| History { initial: initial | 1, ops }).boxed()
}

struct Model {
    disk: [Option<u32>; 6],
    next_ver: [u32; 6],
    indexed: [bool; 6],
    index_fresh: bool,
    cached: [Option<u32>; 6],
    cached_fresh: [bool; 6],
    zones_long: bool,
    names_long: bool,
}

impl Model {
    fn refresh_index_if_expired(&mut self) {
        if !self.index_fresh {
            for i in 0..6 {
                self.indexed[i] = self.disk[i].is_some();
            }
            self.index_fresh = self.names_long;
        }
    }
}

fn test_history(h: &History, cx: &mut Cx) -> CaseResult {
    let tree = Tree::new();
    let mut m = Model { disk: [None; 6], next_ver: [1; 6], indexed: [false; 6], index_fresh: true, cached: [None; 6], cached_fresh: [false; 6], zones_long: true, names_long: true };
    for i in 0..6 {
        if h.initial & (1 << i) != 0 {
            tree.publish(i, 1);
            m.disk[i] = Some(1);
            m.next_ver[i] = 2;
            m.indexed[i] = true;
        }
    }
    let db = TimeZoneDatabase::from_dir(&tree.root).map_err(|e| Failure::new("from-dir-err", format!("from_dir: {e}")))?;
    let mut changes_then_lookup = 0;
    let mut dirty = [false; 6];
    let mut resets = 0;
    for (step, op) in h.ops.iter().enumerate() {
        let ctx = format!("step {step} {op:?}");
        match *op {
            Op::Get(n, v) => {
                let i = n as usize;
                let q = variant(NAMES[i], v);
                let got = db.get(&q);
                let got_ver: Option<u32> = match &got {
                    Ok(tz) => {
                        let (id, ver) = decode(tz);
                        ensure!(id == i as i32 + 1, "wrong-zone-data", "{ctx}: get({q:?}) returned the data of zone #{id} (version {ver})");
                        ensure!(tz.iana_name() == Some(NAMES[i]), "not-canonical-spelling", "{ctx}: get({q:?}).iana_name() = {:?}, want {:?}", tz.iana_name(), NAMES[i]);
                        Some(ver)
                    }
                    Err(_) => None,
                };
                if dirty[i] {
                    changes_then_lookup += 1;
                    dirty[i] = false;
                }
                // allowed results
                let mut allowed: Vec<Option<u32>> = vec![];
                if m.cached[i].is_some() && m.cached_fresh[i] {
                    // inside the TTL: the cached version, or the current one
                    allowed.push(m.cached[i]);
                    allowed.push(m.disk[i]);
                } else {
                    if !m.indexed[i] {
                        let was_fresh = m.index_fresh;
                        m.refresh_index_if_expired();
                        if was_fresh {
                            // names index inside its TTL: an added file may still be invisible
                            allowed.push(None);
                            allowed.push(m.disk[i]);
                        }
                    }
                    if m.indexed[i] || allowed.is_empty() {
                        allowed.push(if m.indexed[i] { m.disk[i] } else { None });
                    }
                }
                ensure!(
                    allowed.contains(&got_ver),
                    if got_ver.is_none() { "lookup-failed" } else if m.disk[i].is_none() { "resurrected-removed-zone" } else if got_ver < m.disk[i] { "stale-after-ttl-or-reset" } else { "unexpected-version" },
                    "{ctx}: get({q:?}) = version {got_ver:?}; disk has {:?}, cache has {:?} (fresh={}), indexed={} index_fresh={}; allowed {allowed:?}",
                    m.disk[i], m.cached[i], m.cached_fresh[i], m.indexed[i], m.index_fresh
                );
                if let Some(v) = got_ver {
                    if m.cached[i] != Some(v) || !m.cached_fresh[i] {
                        m.cached[i] = Some(v);
                        m.cached_fresh[i] = m.zones_long;
                    }
                } else if m.cached[i].is_some() && !m.cached_fresh[i] {
                    // failed reload leaves a stale, expired entry behind (or none)
                    m.cached_fresh[i] = false;
                }
            }
            Op::GetUnknown(k) => {
                let q = ["Nope/Nowhere", "alpha", "Zeta/x"][k as usize % 3];
                ensure!(db.get(q).is_err(), "unknown-name-found", "{ctx}: get({q:?}) succeeded");
                m.refresh_index_if_expired();
            }
            Op::Reset => {
                db.reset();
                resets += 1;
                m.cached = [None; 6];
                m.cached_fresh = [false; 6];
                m.indexed = [false; 6];
                m.index_fresh = false;
            }
            Op::Available => {
                m.refresh_index_if_expired();
                let mut got: Vec<String> = db.available().map(|n| n.as_str().to_string()).collect();
                got.sort();
                let mut want: Vec<String> = (0..6).filter(|&i| m.indexed[i]).map(|i| NAMES[i].to_string()).collect();
                want.sort();
                ensure!(got == want, "available-differs", "{ctx}: available() = {got:?}, want {want:?} (index_fresh={})", m.index_fresh);
            }
            Op::Replace(n) => {
                let i = n as usize;
                if m.disk[i].is_some() {
                    let v = m.next_ver[i];
                    m.next_ver[i] += 1;
                    tree.publish(i, v);
                    m.disk[i] = Some(v);
                    dirty[i] = true;
                }
            }
            Op::Remove(n) => {
                let i = n as usize;
                // zone 0 is never removed: an *empty* tree makes the directory walk fail, in
                // which case jiff documents that the previous names are kept
                if i != 0 && m.disk[i].is_some() {
                    tree.remove(i);
                    m.disk[i] = None;
                    dirty[i] = true;
                }
            }
            Op::Add(n) => {
                let i = n as usize;
                if m.disk[i].is_none() {
                    let v = m.next_ver[i];
                    m.next_ver[i] += 1;
                    tree.publish(i, v);
                    m.disk[i] = Some(v);
                    dirty[i] = true;
                }
            }
            Op::SetTtl(z, n) => {
                let long = Duration::from_secs(3600);
                db.__verif_set_ttl(if z { long } else { Duration::ZERO }, if n { long } else { Duration::ZERO });
                m.zones_long = z;
                m.names_long = n;
                for i in 0..6 {
                    if m.cached[i].is_some() {
                        m.cached_fresh[i] = z;
                    }
                }
                m.index_fresh = n;
            }
        }
    }
    cx.class_if(changes_then_lookup > 0, "disk-change-then-lookup");
    cx.class_if(resets > 0, "has-reset");
    cx.nt_if(changes_then_lookup > 0 || resets > 0);
    Ok(())
}

// --- concurrency stress --------------------------------------------------------------------------

#[derive(Serialize, Deserialize, Debug, Clone)]
struct Round {
    threads: usize,
    seed: u64,
}

fn run_round(r: &Round) -> CaseResult {
    let tree = Arc::new(Tree::new());
    for i in 0..6 {
        tree.publish(i, 1);
    }
    let db = Arc::new(TimeZoneDatabase::from_dir(&tree.root).map_err(|e| Failure::new("from-dir-err", e.to_string()))?);
    db.__verif_set_ttl(Duration::ZERO, Duration::ZERO);
    let published: Arc<Vec<AtomicU32>> = Arc::new((0..6).map(|_| AtomicU32::new(1)).collect());
    let pending: Arc<Vec<AtomicU32>> = Arc::new((0..6).map(|_| AtomicU32::new(1)).collect());
    let stop = Arc::new(AtomicBool::new(false));
    let progress = Arc::new(AtomicU64::new(0));
    let failure: Arc<std::sync::Mutex<Option<Failure>>> = Arc::new(std::sync::Mutex::new(None));
    let barrier = Arc::new(std::sync::Barrier::new(r.threads + 2)); // workers + mutator + this thread
    let mut handles = vec![];
    // mutator
    {
        let (tree, published, pending, stop, barrier, progress) = (tree.clone(), published.clone(), pending.clone(), stop.clone(), barrier.clone(), progress.clone());
        let mut sm = SplitMix(r.seed ^ 0xabcdef);
        handles.push(std::thread::spawn(move || {
            barrier.wait();
            let mut n = 0;
            while !stop.load(Ordering::Relaxed) && n < 400 {
                let i = sm.below(6) as usize;
                let v = pending[i].load(Ordering::SeqCst) + 1;
                if v >= 990 {
                    break;
                }
                pending[i].store(v, Ordering::SeqCst);
                tree.publish(i, v);
                published[i].store(v, Ordering::SeqCst);
                progress.fetch_add(1, Ordering::Relaxed);
                n += 1;
                if sm.below(3) == 0 {
                    std::thread::yield_now();
                }
            }
        }));
    }
    for t in 0..r.threads {
        let (db, published, pending, barrier, progress, failure) = (db.clone(), published.clone(), pending.clone(), barrier.clone(), progress.clone(), failure.clone());
        let mut sm = SplitMix(r.seed.wrapping_mul(31).wrapping_add(t as u64));
        handles.push(std::thread::spawn(move || {
            barrier.wait();
            let mut last_seen = [0u32; 6];
            for k in 0..300 {
                let i = sm.below(6) as usize;
                let q = variant(NAMES[i], sm.below(4) as u8);
                let lo = published[i].load(Ordering::SeqCst);
                let got = guard("get", || db.get(&q));
                let hi = pending[i].load(Ordering::SeqCst);
                let bad = match got {
                    Err(f) => Some(Failure::new(format!("concurrent-{}", f.sig), f.msg)),
                    Ok(Err(e)) => Some(Failure::new("concurrent-lookup-failed", format!("thread {t} op {k}: get({q:?}) = Err({e}) although the file always exists"))),
                    Ok(Ok(tz)) => {
                        let (id, ver) = decode(&tz);
                        if id != i as i32 + 1 {
                            Some(Failure::new("concurrent-wrong-zone-data", format!("thread {t} op {k}: get({q:?}) returned zone #{id}")))
                        } else if tz.iana_name() != Some(NAMES[i]) {
                            Some(Failure::new("concurrent-not-canonical", format!("thread {t}: iana_name {:?}", tz.iana_name())))
                        } else if ver < lo || ver > hi {
                            Some(Failure::new("concurrent-version-out-of-window", format!("thread {t} op {k}: get({q:?}) = version {ver}, but versions {lo}..={hi} were on disk during the call (TTL 0)")))
                        } else if ver < last_seen[i] {
                            Some(Failure::new("concurrent-version-went-back", format!("thread {t} op {k}: {q:?} version {ver} after having seen {}", last_seen[i])))
                        } else {
                            last_seen[i] = ver;
                            None
                        }
                    }
                };
                if let Some(f) = bad {
                    let mut g = failure.lock().unwrap();
                    if g.is_none() {
                        *g = Some(f);
                    }
                    return;
                }
                progress.fetch_add(1, Ordering::Relaxed);
                match sm.below(40) {
                    0 => db.reset(),
                    1 => {
                        let _ = db.available().count();
                    }
                    2 | 3 => std::thread::yield_now(),
                    _ => {}
                }
            }
        }));
    }
    barrier.wait();
    // watchdog: a deadlock makes no progress at all for a long time
    let mut last = 0u64;
    let mut idle = 0;
    loop {
        std::thread::sleep(Duration::from_millis(50));
        if handles.iter().skip(1).all(|h| h.is_finished()) {
            break;
        }
        let p = progress.load(Ordering::Relaxed);
        if p == last {
            idle += 1;
        } else {
            idle = 0;
            last = p;
        }
        if idle > 2400 {
            // 120 s without a single completed operation on any thread
            return Err(Failure::new("deadlock-suspected", format!("no lookup completed for 120s with {} threads still running", handles.iter().filter(|h| !h.is_finished()).count())));
        }
    }
    stop.store(true, Ordering::Relaxed);
    for h in handles {
        if h.join().is_err() {
            return Err(Failure::new("thread-panicked", "a worker thread panicked"));
        }
    }
    if let Some(f) = failure.lock().unwrap().take() {
        return Err(f);
    }
    // quiescence: everybody reads the final version
    for i in 0..6 {
        let want = published[i].load(Ordering::SeqCst);
        let tz = db.get(NAMES[i]).map_err(|e| Failure::new("final-lookup-failed", e.to_string()))?;
        let (_, ver) = decode(&tz);
        ensure!(ver == want, "final-version-stale", "after quiescence with TTL 0, {} is version {ver}, disk has {want}", NAMES[i]);
    }
    Ok(())
}

fn run_concurrent(rec: &Recorder, check: &'static str) {
    let rounds = rec.tier().pick(120, 6000);
    let mut sm = SplitMix::from(rec.opts.seed, check, 0);
    let mut n = 0u64;
    for k in 0..rounds {
        let r = Round { threads: [2usize, 4, 16][(k % 3) as usize], seed: sm.next() };
        sweep_case(rec, check, &r, || run_round(&r));
        n += 1;
        if rec.violation_count() > 0 {
            break;
        }
    }
    rec.add_evaluations(n);
    rec.add_distinct_nontrivial(n);
    rec.add_class("concurrent:rounds", n);
    rec.add_sample(json!({"check": check, "case": {"threads": 16, "lookups_per_thread": 300, "mutator": "up to 400 atomic replacements", "ttl": 0}}));
}

fn replay_round(v: Value) -> CaseResult {
    let r: Round = serde_json::from_value(v).map_err(|e| Failure::new("decode", e.to_string()))?;
    run_round(&r)
}



// --- reset storms: lookups racing with reset() under a long TTL, nothing changes on disk ---------

#[derive(Serialize, Deserialize, Debug, Clone)]
struct Storm {
    threads: usize,
    resets: u32,
    seed: u64,
}

fn run_storm(r: &Storm) -> CaseResult {
    let tree = Arc::new(Tree::new());
    for i in 0..6 {
        tree.publish(i, 1);
    }
    let db = Arc::new(TimeZoneDatabase::from_dir(&tree.root).map_err(|e| Failure::new("from-dir-err", e.to_string()))?);
    // long TTLs: after a reset the first refresh re-arms the expiry, the racing lookups must
    // still see the refreshed index
    db.__verif_set_ttl(Duration::from_secs(3600), Duration::from_secs(3600));
    let stop = Arc::new(AtomicBool::new(false));
    let failure: Arc<std::sync::Mutex<Option<Failure>>> = Arc::new(std::sync::Mutex::new(None));
    let lookups = Arc::new(AtomicU64::new(0));
    let mut handles = vec![];
    for w in 0..r.threads {
        let (db, stop, failure, lookups) = (db.clone(), stop.clone(), failure.clone(), lookups.clone());
        let mut sm = SplitMix(r.seed ^ (w as u64 + 1).wrapping_mul(0x9E3779B97F4A7C15));
        handles.push(std::thread::spawn(move || {
            while !stop.load(Ordering::Relaxed) {
                let i = sm.below(6) as usize;
                let q = variant(NAMES[i], sm.below(4) as u8);
                let res = crate::engine::guard("storm", || db.get(&q));
                lookups.fetch_add(1, Ordering::Relaxed);
                let bad = match res {
                    Err(f) => Some(Failure::new(format!("concurrent-get/{}", f.sig.rsplit('/').next().unwrap_or("panic")), f.msg)),
                    Ok(Err(e)) => Some(Failure::new("storm-lookup-fails", format!("get({q:?}) failed while another thread only called reset() (the file never changed): {e}"))),
                    Ok(Ok(tz)) => {
                        let (id, ver) = decode(&tz);
                        if id != i as i32 + 1 || ver != 1 {
                            Some(Failure::new("storm-wrong-zone", format!("get({q:?}) returned the data of zone #{id} version {ver}")))
                        } else if tz.iana_name() != Some(NAMES[i]) {
                            Some(Failure::new("storm-not-canonical", format!("get({q:?}) returned a zone named {:?}", tz.iana_name())))
                        } else {
                            None
                        }
                    }
                };
                if let Some(f) = bad {
                    let mut g = failure.lock().unwrap();
                    if g.is_none() {
                        *g = Some(f);
                    }
                    stop.store(true, Ordering::Relaxed);
                }
            }
        }));
    }
    // progress-based pacing (independent of machine load): the next reset is issued once at
    // least one lookup has completed since the previous one; a lookup that makes no progress
    // for 60 s is a hang (harness health, never a violation)
    let mut stalled = false;
    for _ in 0..r.resets {
        if stop.load(Ordering::Relaxed) {
            break;
        }
        let before = lookups.load(Ordering::Relaxed);
        db.reset();
        let t0 = std::time::Instant::now();
        while lookups.load(Ordering::Relaxed) == before && !stop.load(Ordering::Relaxed) {
            std::thread::yield_now();
            if t0.elapsed() > Duration::from_secs(60) {
                stalled = true;
                break;
            }
        }
        if stalled {
            break;
        }
    }
    stop.store(true, Ordering::Relaxed);
    if stalled {
        // the workers may be stuck: do not join them
        return Err(Failure::new("HARNESS-PANIC", "no lookup completed for 60 s during the storm (hang or starved machine)"));
    }
    for h in handles {
        let _ = h.join();
    }
    if let Some(f) = failure.lock().unwrap().take() {
        return Err(f);
    }
    if lookups.load(Ordering::Relaxed) == 0 {
        return Err(Failure::new("HARNESS-PANIC", "no lookup ran during the storm"));
    }
    Ok(())
}

fn run_storms(rec: &Recorder, check: &'static str) {
    let rounds = rec.tier().pick(24, 200);
    let mut sm = SplitMix::from(rec.opts.seed, check, 0);
    let mut n = 0u64;
    for k in 0..rounds {
        let r = Storm { threads: [2usize, 4, 8, 16][(k % 4) as usize], resets: 1500, seed: sm.next() };
        sweep_case(rec, check, &r, || run_storm(&r));
        n += 1;
        if rec.violation_count() > 0 {
            break;
        }
    }
    rec.add_evaluations(n);
    rec.add_distinct_nontrivial(n);
    rec.add_class("storm:rounds", n);
    rec.add_sample(json!({"check": check, "case": {"threads": 8, "resets": 1500, "ttl": "1h", "disk": "unchanged"}}));
}

fn replay_storm(v: Value) -> CaseResult {
    let r: Storm = serde_json::from_value(v).map_err(|e| Failure::new("decode", e.to_string()))?;
    run_storm(&r)
}

// --- the concatenated (Android tzdata) back-end: histories of lookups, resets, file replacement ---

#[derive(Serialize, Deserialize, Debug, Clone)]
enum COp {
    Get(u8, u8),
    Reset,
    Replace(u8),
    /// true = long TTL, false = expires immediately
    SetTtl(bool),
    Available,
    /// remove the zone from the file, or put it back (at least one zone always stays)
    Toggle(u8),
}

#[derive(Serialize, Deserialize, Debug, Clone)]
struct CHistory {
    ops: Vec<COp>,
}

fn strat_chistory() -> BoxedStrategy<CHistory> {
    let name = 0u8..6;
    let op = prop_oneof![
        8 => (name.clone(), 0u8..4).prop_map(|(n, v)| COp::Get(n, v)),
        1 => Just(COp::Reset),
        2 => name.prop_map(COp::Replace),
        2 => any::<bool>().prop_map(COp::SetTtl),
        2 => Just(COp::Available),
        2 => (0u8..6).prop_map(COp::Toggle),
    ];
    proptest::collection::vec(op, 1..25).prop_map(|ops| CHistory { ops }).boxed()
}

fn zone_bytes(i: usize, ver: u32) -> Vec<u8> {
    tzfiles::fixed_tzif(&format!("N{}V{}", i + 1, ver), (i as i32 + 1) * 1000 + ver as i32)
}

fn write_tzdata(dir: &std::path::Path, versions: &[u32; 6], present: &[bool; 6], serial: u64) {
    let zones: Vec<(String, Vec<u8>)> = (0..6).filter(|&i| present[i]).map(|i| (NAMES[i].to_string(), zone_bytes(i, versions[i]))).collect();
    let data = tzfiles::concatenated("2024a", &zones);
    let tmp = dir.join(format!("tzdata.tmp{serial}"));
    std::fs::write(&tmp, &data).unwrap();
    let f = std::fs::OpenOptions::new().write(true).open(&tmp).unwrap();
    f.set_modified(SystemTime::UNIX_EPOCH + Duration::from_secs(1_600_000_000 + 10 * serial)).unwrap();
    drop(f);
    std::fs::rename(&tmp, dir.join("tzdata")).unwrap();
}

fn test_chistory(h: &CHistory, cx: &mut Cx) -> CaseResult {
    let n = DIR_COUNTER.fetch_add(1, Ordering::Relaxed);
    let base = PathBuf::from(format!("{}/.work/c19/{}-{}-concat", VERIF_DIR, std::process::id(), n));
    let _ = std::fs::remove_dir_all(&base);
    std::fs::create_dir_all(&base).unwrap();
    struct Cleanup(PathBuf);
    impl Drop for Cleanup {
        fn drop(&mut self) {
            let _ = std::fs::remove_dir_all(&self.0);
        }
    }
    let _cleanup = Cleanup(base.clone());
    let mut versions = [1u32; 6];
    let mut present = [true; 6];
    // every set of names the file has held since the name index was last known to be rebuilt
    let mut sets_since_refresh: Vec<[bool; 6]> = vec![present];
    let mut index_must_be_current = false;
    let mut serial = 1u64;
    write_tzdata(&base, &versions, &present, serial);
    let db = TimeZoneDatabase::from_concatenated_path(base.join("tzdata")).map_err(|e| Failure::new("from-concatenated-err", e.to_string()))?;
    let long = Duration::from_secs(3600);
    db.__verif_set_ttl(long, long);
    let mut ttl_long = true;
    // oldest version a cached entry may still hold (None = nothing cached)
    let mut floor: [Option<u32>; 6] = [None; 6];
    let mut seen_replace_then_get = false;
    // the TTL hook re-arms the expiry of the (emptied) name index, which a real database can
    // never do: a TTL change right after a reset is not applied
    let mut reset_pending = false;
    for (step, op) in h.ops.iter().enumerate() {
        match op {
            COp::Get(i, v) => {
                // (this back-end answers lookups from the file without consulting the name index,
                // so only available() refreshes the index after a reset)
                let i = *i as usize;
                let q = variant(NAMES[i], *v);
                let ctx = format!("step {step}: get({q:?})");
                if !present[i] {
                    // not in the file any more: only an entry cached inside its TTL may be served
                    match db.get(&q) {
                        Err(_) => {
                            // (a failed lookup leaves an expired entry physically in the cache; the
                            // TTL hook can revive it by lengthening the TTL, which a real database
                            // with its constant TTL cannot - `floor` keeps describing that entry)
                            cx.class("concat: lookup of a removed zone fails");
                        }
                        Ok(tz) => {
                            let (id, ver) = decode(&tz);
                            let cached = ttl_long && floor[i].is_some();
                            ensure!(cached && id == i as i32 + 1 && (floor[i].unwrap()..=versions[i]).contains(&ver), "concat-serves-removed-zone", "{ctx}: the file no longer contains this zone and nothing may be cached (ttl_long={ttl_long}, cached floor {:?}), yet the lookup returned zone #{id} version {ver} (history: {:?})", floor[i], &h.ops[..step]);
                            cx.class("concat: served from cache inside the TTL");
                        }
                    }
                    continue;
                }
                let tz = db.get(&q).map_err(|e| Failure::new("concat-lookup-fails", format!("{ctx}: {e}")))?;
                let (id, ver) = decode(&tz);
                ensure!(id == i as i32 + 1, "concat-other-zones-data", "{ctx}: returned the data of zone #{id}");
                ensure!(tz.iana_name() == Some(NAMES[i]), "concat-not-canonical", "{ctx}: the zone calls itself {:?}, canonical spelling is {:?} (history: {:?})", tz.iana_name(), NAMES[i], &h.ops[..step]);
                let lo = if ttl_long { floor[i].unwrap_or(versions[i]) } else { versions[i] };
                ensure!((lo..=versions[i]).contains(&ver), "concat-stale-or-future-version", "{ctx}: returned version {ver}, allowed {lo}..={} (ttl_long={ttl_long})", versions[i]);
                let fresh = TimeZone::tzif(NAMES[i], &zone_bytes(i, ver)).map_err(|e| Failure::new("harness-tzif", e.to_string()))?;
                ensure!(tz == fresh, "concat-differs-from-bytes", "{ctx}: the zone is not equal to the same bytes loaded directly");
                if ver != versions[i] {
                    cx.class("concat: served from cache inside the TTL");
                } else if floor[i].is_some() && versions[i] > floor[i].unwrap() {
                    seen_replace_then_get = true;
                }
                floor[i] = Some(ver);
                cx.class_if(*v != 0, "concat: lookup in a non-canonical spelling");
            }
            COp::Reset => {
                db.reset();
                floor = [None; 6];
                reset_pending = true;
                index_must_be_current = true;
            }
            COp::Replace(i) => {
                versions[*i as usize] += 1;
                serial += 1;
                write_tzdata(&base, &versions, &present, serial);
            }
            COp::Toggle(i) => {
                let i = *i as usize;
                if present[i] && present.iter().filter(|&&p| p).count() == 1 {
                    continue;
                }
                present[i] = !present[i];
                if present[i] {
                    versions[i] += 1;
                }
                serial += 1;
                write_tzdata(&base, &versions, &present, serial);
                sets_since_refresh.push(present);
                cx.class("concat: set of names in the file changes");
            }
            COp::SetTtl(l) => {
                if !reset_pending {
                    db.__verif_set_ttl(if *l { long } else { Duration::ZERO }, if *l { long } else { Duration::ZERO });
                    ttl_long = *l;
                }
            }
            COp::Available => {
                reset_pending = false;
                let mut got: Vec<String> = db.available().map(|n| n.as_str().to_string()).collect();
                got.sort();
                let names_of = |mask: &[bool; 6]| -> Vec<String> {
                    let mut v: Vec<String> = (0..6).filter(|&i| mask[i]).map(|i| NAMES[i].to_string()).collect();
                    v.sort();
                    v
                };
                let current = names_of(&present);
                if index_must_be_current || !ttl_long {
                    // after reset() or with an expired index: exactly what the file holds now
                    ensure!(got == current, "concat-available-differs", "step {step}: available() = {got:?} but the file holds {current:?} and the index cannot be cached (reset or zero TTL; history: {:?})", &h.ops[..step]);
                    cx.class_if(sets_since_refresh.len() > 1, "concat: available() after the set of names changed and a reset/expiry");
                    sets_since_refresh = vec![present];
                    index_must_be_current = false;
                } else {
                    // inside the TTL: a list the file held at some point since the last rebuild
                    ensure!(sets_since_refresh.iter().any(|m| names_of(m) == got), "concat-available-differs", "step {step}: available() = {got:?} is none of the lists the file has held since the index was last rebuilt ({:?})", sets_since_refresh.iter().map(names_of).collect::<Vec<_>>());
                }
            }
        }
    }
    cx.nt_if(h.ops.iter().any(|o| matches!(o, COp::Replace(_) | COp::Reset | COp::SetTtl(_) | COp::Toggle(_))));
    cx.class_if(seen_replace_then_get, "concat: re-read after replacement");
    Ok(())
}

// --- concatenated back-end: cold lookups racing with file replacement + reset ------------------------

#[derive(Serialize, Deserialize, Debug, Clone)]
struct ConcatRace {
    threads: usize,
    versions: u32,
    /// dummy index entries, so that a cold lookup (index read + scan) takes long enough to overlap
    padding: u32,
    seed: u64,
}

fn write_padded_tzdata(dir: &std::path::Path, ver: u32, padding: u32, serial: u64) {
    let mut zones: Vec<(String, Vec<u8>)> = (0..6).map(|i| (NAMES[i].to_string(), zone_bytes(i, ver))).collect();
    let pad = tzfiles::fixed_tzif("PAD", 0);
    for k in 0..padding {
        zones.push((format!("Pad/P{k:07}"), pad.clone()));
    }
    let data = tzfiles::concatenated("2024a", &zones);
    let tmp = dir.join(format!("tzdata.tmp{serial}"));
    std::fs::write(&tmp, &data).unwrap();
    let f = std::fs::OpenOptions::new().write(true).open(&tmp).unwrap();
    f.set_modified(SystemTime::UNIX_EPOCH + Duration::from_secs(1_600_000_000 + 10 * serial)).unwrap();
    drop(f);
    std::fs::rename(&tmp, dir.join("tzdata")).unwrap();
}

/// Once `reset()` has returned after the file was replaced, a lookup that *starts* afterwards
/// must see the new data - also when other lookups were in flight during the replacement.
fn run_concat_race(r: &ConcatRace) -> CaseResult {
    let n = DIR_COUNTER.fetch_add(1, Ordering::Relaxed);
    let base = PathBuf::from(format!("{}/.work/c19/{}-{}-race", VERIF_DIR, std::process::id(), n));
    let _ = std::fs::remove_dir_all(&base);
    std::fs::create_dir_all(&base).unwrap();
    struct Cleanup(PathBuf);
    impl Drop for Cleanup {
        fn drop(&mut self) {
            let _ = std::fs::remove_dir_all(&self.0);
        }
    }
    let _cleanup = Cleanup(base.clone());
    write_padded_tzdata(&base, 1, r.padding, 1);
    let db = Arc::new(TimeZoneDatabase::from_concatenated_path(base.join("tzdata")).map_err(|e| Failure::new("from-concatenated-err", e.to_string()))?);
    db.__verif_set_ttl(Duration::from_secs(3600), Duration::from_secs(3600));
    let visible = Arc::new(AtomicU32::new(1)); // replaced + reset() returned
    let pending = Arc::new(AtomicU32::new(1)); // being written
    let stop = Arc::new(AtomicBool::new(false));
    let lookups = Arc::new(AtomicU64::new(0));
    let failure: Arc<std::sync::Mutex<Option<Failure>>> = Arc::new(std::sync::Mutex::new(None));
    let mut handles = vec![];
    for w in 0..r.threads {
        let (db, visible, pending, stop, lookups, failure) = (db.clone(), visible.clone(), pending.clone(), stop.clone(), lookups.clone(), failure.clone());
        let mut sm = SplitMix(r.seed ^ (w as u64 + 1).wrapping_mul(0x9E3779B97F4A7C15));
        handles.push(std::thread::spawn(move || {
            while !stop.load(Ordering::Relaxed) {
                let i = sm.below(6) as usize;
                let q = variant(NAMES[i], sm.below(4) as u8);
                let lo = visible.load(Ordering::SeqCst);
                let res = crate::engine::guard("race", || db.get(&q));
                let hi = pending.load(Ordering::SeqCst);
                lookups.fetch_add(1, Ordering::Relaxed);
                let bad = match res {
                    Err(f) => Some(Failure::new(format!("concurrent-get/{}", f.sig.rsplit('/').next().unwrap_or("panic")), f.msg)),
                    Ok(Err(e)) => Some(Failure::new("race-lookup-fails", format!("get({q:?}) failed although every version of the file contains the zone: {e}"))),
                    Ok(Ok(tz)) => {
                        let (id, ver) = decode(&tz);
                        if id != i as i32 + 1 {
                            Some(Failure::new("race-wrong-zone", format!("get({q:?}) returned the data of zone #{id}")))
                        } else if ver < lo {
                            Some(Failure::new("race-stale-after-reset", format!("get({q:?}) started after reset() had returned with version {lo} on disk, but returned version {ver} (a lookup that was in flight during the replacement put old data back into the cache?)")))
                        } else if ver > hi {
                            Some(Failure::new("race-version-from-the-future", format!("get({q:?}) returned version {ver}, newest written {hi}")))
                        } else {
                            None
                        }
                    }
                };
                if let Some(f) = bad {
                    let mut g = failure.lock().unwrap();
                    if g.is_none() {
                        *g = Some(f);
                    }
                    stop.store(true, Ordering::Relaxed);
                }
            }
        }));
    }
    let mut sm = SplitMix(r.seed ^ 0x5151);
    let mut stalled = false;
    for k in 2..=r.versions {
        if stop.load(Ordering::Relaxed) {
            break;
        }
        // let a few lookups (cold ones, right after the previous reset) get under way
        let before = lookups.load(Ordering::Relaxed);
        let want = sm.below(3);
        let t0 = std::time::Instant::now();
        while lookups.load(Ordering::Relaxed) < before + want && !stop.load(Ordering::Relaxed) {
            std::thread::yield_now();
            if t0.elapsed() > Duration::from_secs(60) {
                stalled = true;
                break;
            }
        }
        if stalled {
            break;
        }
        pending.store(k, Ordering::SeqCst);
        write_padded_tzdata(&base, k, r.padding, k as u64);
        db.reset();
        visible.store(k, Ordering::SeqCst);
    }
    // everybody must end up on the final version
    let t0 = std::time::Instant::now();
    let target = lookups.load(Ordering::Relaxed) + 4 * r.threads as u64;
    while lookups.load(Ordering::Relaxed) < target && !stop.load(Ordering::Relaxed) && t0.elapsed() < Duration::from_secs(60) {
        std::thread::yield_now();
    }
    stop.store(true, Ordering::Relaxed);
    if stalled {
        return Err(Failure::new("HARNESS-PANIC", "no lookup completed for 60 s during the race round (hang or starved machine)"));
    }
    for h in handles {
        let _ = h.join();
    }
    if let Some(f) = failure.lock().unwrap().take() {
        return Err(f);
    }
    Ok(())
}

fn run_concat_races(rec: &Recorder, check: &'static str) {
    let rounds = rec.tier().pick(10, 60);
    let mut sm = SplitMix::from(rec.opts.seed, check, 0);
    let mut n = 0u64;
    for k in 0..rounds {
        let r = ConcatRace { threads: [2usize, 4, 8, 16][(k % 4) as usize], versions: 40, padding: [4000u32, 20000, 60000][(k % 3) as usize], seed: sm.next() };
        sweep_case(rec, check, &r, || run_concat_race(&r));
        n += 1;
        if rec.violation_count() > 0 {
            break;
        }
    }
    rec.add_evaluations(n);
    rec.add_distinct_nontrivial(n);
    rec.add_class("concat-race:rounds", n);
    rec.add_sample(json!({"check": check, "case": {"threads": 8, "versions": 40, "padding_index_entries": 20000, "ttl": "1h"}}));
}

fn replay_concat_race(v: Value) -> CaseResult {
    let r: ConcatRace = serde_json::from_value(v).map_err(|e| Failure::new("decode", e.to_string()))?;
    run_concat_race(&r)
}

pub fn property() -> Property {
    let _ = Path::new("/");
    Property {
        id: "C19",
        level: "exploration",
        rule: "(a) Stateful proptest over histories of 1..30 operations {get(name in one of 4 case variants), get(unknown), reset, available, replace/remove/add a file on disk (atomic rename, distinct mtime), set TTL (hook) to 0 or 1h for zones and names} against a private zoneinfo tree of 6 names (mixed case, nested, pairs whose lowercase and byte order differ); every file version encodes (name, version) in its behaviour so any returned zone identifies what was read. Reference model: disk map, names index view and freshness, per-entry cached version and freshness; allowed results per the statement: TTL 0 or after reset => exactly the current disk version (None if removed / not indexed); inside the TTL => cached or current version; never another name's data; canonical spelling; available() == index view. (b) Stress: 2/4/16 threads x 300 lookups (with occasional reset/available) against one database while a mutator thread atomically replaces files; every result must be a complete version that was on disk during the call (window from atomics), monotone per thread, no panic, no deadlock (watchdog: zero progress for 120s), and after quiescence everybody reads the final version. Non-trivial: a disk change followed by a lookup of that name, or a reset.",
        assumptions: &[
            "thread interleavings are sampled by stress, not enumerated (std::sync::RwLock cannot be intercepted without non-additive changes)",
            "the names index is refreshed only on a miss after its TTL (documented); an added file may stay invisible inside that TTL",
            "hook: TimeZoneDatabase::__verif_set_ttl (cfg jiff_verif)",
        ],
        checks: vec![
            Box::new(Prop { name: "c19.history", quick: 30_000, thorough: 600_000, strategy: strat_history, test: test_history }),
            Box::new(Prop { name: "c19.concat_history", quick: 20_000, thorough: 400_000, strategy: strat_chistory, test: test_chistory }),
            Box::new(Sweep { name: "c19.concurrent", run: run_concurrent, replay: replay_round }),
            Box::new(Sweep { name: "c19.reset_storm", run: run_storms, replay: replay_storm }),
            Box::new(Sweep { name: "c19.concat_race", run: run_concat_races, replay: replay_concat_race }),
        ],
        floors: |rec| {
            rec.floor("c19.history:disk-change-then-lookup", "c19.history:cases", 0.40);
        },
    }
}
