//! C08 Civil date/time arithmetic follows the documented calendar rules.

use std::time::Duration as StdDuration;

use jiff::civil::{Date, DateTime, Time};
use jiff::SignedDuration;
use proptest::prelude::*;
use serde::{Deserialize, Serialize};

use crate::engine::*;
use crate::gen::{self, SpanSpec};
use crate::props::c02::dt_fields;
use crate::refmodel::refarith as ra;
use crate::refmodel::refcal as rc;
use crate::refmodel::wide::*;
use crate::{ensure, fail};

fn ymd_of(d: Date) -> ra::Ymd {
    (d.year() as i64, d.month() as i64, d.day() as i64)
}

fn cmp_date(what: &str, got: Result<Date, jiff::Error>, want: Option<ra::Ymd>, ctx: &str) -> CaseResult {
    match (got, want) {
        (Ok(g), Some(w)) => {
            ensure!(ymd_of(g) == w, format!("{what}-wrong"), "{ctx}: {what} = {g} want {w:?}");
            Ok(())
        }
        (Err(_), None) => Ok(()),
        (Ok(g), None) => fail!(format!("{what}-accepts-out-of-range"), "{ctx}: {what} = Ok({g}) but the result is outside the supported range"),
        (Err(e), Some(w)) => fail!(format!("{what}-rejects-in-range"), "{ctx}: {what} = Err({e}) but the result {w:?} is in range"),
    }
}

fn cmp_dt(what: &str, got: Result<DateTime, jiff::Error>, want: Option<ra::Civil>, ctx: &str) -> CaseResult {
    match (got, want) {
        (Ok(g), Some(w)) => {
            ensure!(dt_fields(g) == w, format!("{what}-wrong"), "{ctx}: {what} = {g} want {w:?}");
            Ok(())
        }
        (Err(_), None) => Ok(()),
        (Ok(g), None) => fail!(format!("{what}-accepts-out-of-range"), "{ctx}: {what} = Ok({g}) but the result is outside the supported range"),
        (Err(e), Some(w)) => fail!(format!("{what}-rejects-in-range"), "{ctx}: {what} = Err({e}) but the result {w:?} is in range"),
    }
}

// --- Date/DateTime + Span -----------------------------------------------------------

#[derive(Serialize, Deserialize, Debug, Clone)]
struct DtSpan {
    ymd: (i16, i8, i8),
    tod: i64,
    span: SpanSpec,
}

fn span_nontrivial(s: &SpanSpec, cx: &mut Cx) {
    let big_unit = s.u.iter().any(|&x| x >= (1 << 31));
    let big_total = s.time_ns().abs() >= (1i128 << 63);
    cx.class_if(big_unit, "unit>=2^31");
    cx.class_if(big_total, "time-total>=2^63ns");
    cx.class_if(s.neg, "negative");
    cx.nt_if(big_unit || big_total);
}

fn test_date_span(c: &DtSpan, cx: &mut Cx) -> CaseResult {
    let date = gen::mk_date(c.ymd.0, c.ymd.1, c.ymd.2);
    let span = c.span.to_span();
    let base = ymd_of(date);
    let ctx = format!("{date} + {span:?}");
    let want = ra::date_add(base, &c.span);
    span_nontrivial(&c.span, cx);
    if let Some(w) = ra::add_months(base.0, base.1, base.2, c.span.months()) {
        cx.class_if(w.2 != base.2, "day-clamped");
        cx.nt_if(w.2 != base.2);
    }
    cx.class_if(want.is_none(), "out-of-range");
    cx.nt_if(want.is_none() || want.map_or(false, |w| rc::to_days(w.0, w.1, w.2) > rc::DAY_MAX - 2 || rc::to_days(w.0, w.1, w.2) < rc::DAY_MIN + 2));
    cmp_date("date.checked_add(span)", date.checked_add(span), want, &ctx)?;
    let wsub = ra::date_add(base, &c.span.negated());
    cmp_date("date.checked_sub(span)", date.checked_sub(span), wsub, &ctx)?;
    // saturating: clamp in the direction of the operand
    let sat = date.saturating_add(span);
    let wsat = want.unwrap_or(if c.span.sign() < 0 { ymd_of(Date::MIN) } else { ymd_of(Date::MAX) });
    ensure!(ymd_of(sat) == wsat, "date.saturating_add(span)-wrong", "{ctx}: saturating_add = {sat} want {wsat:?}");
    let sat = date.saturating_sub(span);
    let wsat = wsub.unwrap_or(if c.span.sign() < 0 { ymd_of(Date::MAX) } else { ymd_of(Date::MIN) });
    ensure!(ymd_of(sat) == wsat, "date.saturating_sub(span)-wrong", "{ctx}: saturating_sub = {sat} want {wsat:?}");
    if let Some(w) = want {
        let g = date + span;
        ensure!(ymd_of(g) == w, "date+span-wrong", "{ctx}: operator + = {g} want {w:?}");
        let mut g = date;
        g += span;
        ensure!(ymd_of(g) == w, "date+=span-wrong", "{ctx}: operator += gives {g} want {w:?}");
    }
    if let Some(w) = wsub {
        let g = date - span;
        ensure!(ymd_of(g) == w, "date-span-wrong", "{ctx}: operator - = {g} want {w:?}");
        let mut g = date;
        g -= span;
        ensure!(ymd_of(g) == w, "date-=span-wrong", "{ctx}: operator -= gives {g} want {w:?}");
    }
    Ok(())
}

fn test_datetime_span(c: &DtSpan, cx: &mut Cx) -> CaseResult {
    let dt = gen::mk_date(c.ymd.0, c.ymd.1, c.ymd.2).to_datetime(gen::mk_time(c.tod));
    let span = c.span.to_span();
    let base = dt_fields(dt);
    let ctx = format!("{dt} + {span:?}");
    let want = ra::datetime_add(base, &c.span);
    span_nontrivial(&c.span, cx);
    let crosses = {
        let t = base.3 + c.span.time_ns();
        t < 0 || t >= NS_PER_DAY
    };
    cx.class_if(crosses, "crosses-midnight");
    cx.class_if(want.is_none(), "out-of-range");
    cx.nt_if(crosses || want.is_none());
    cmp_dt("datetime.checked_add(span)", dt.checked_add(span), want, &ctx)?;
    let wsub = ra::datetime_add(base, &c.span.negated());
    cmp_dt("datetime.checked_sub(span)", dt.checked_sub(span), wsub, &ctx)?;
    let sat = dt.saturating_add(span);
    let wsat = want.unwrap_or(if c.span.sign() < 0 { dt_fields(DateTime::MIN) } else { dt_fields(DateTime::MAX) });
    ensure!(dt_fields(sat) == wsat, "datetime.saturating_add(span)-wrong", "{ctx}: saturating_add = {sat} want {wsat:?}");
    let sat = dt.saturating_sub(span);
    let wsat = wsub.unwrap_or(if c.span.sign() < 0 { dt_fields(DateTime::MAX) } else { dt_fields(DateTime::MIN) });
    ensure!(dt_fields(sat) == wsat, "datetime.saturating_sub(span)-wrong", "{ctx}: saturating_sub = {sat} want {wsat:?}");
    if let Some(w) = want {
        let g = dt + span;
        ensure!(dt_fields(g) == w, "datetime+span-wrong", "{ctx}: operator + = {g} want {w:?}");
        let mut g = dt;
        g += span;
        ensure!(dt_fields(g) == w, "datetime+=span-wrong", "{ctx}: operator += gives {g} want {w:?}");
    }
    if let Some(w) = wsub {
        let g = dt - span;
        ensure!(dt_fields(g) == w, "datetime-span-wrong", "{ctx}: operator - = {g} want {w:?}");
        let mut g = dt;
        g -= span;
        ensure!(dt_fields(g) == w, "datetime-=span-wrong", "{ctx}: operator -= gives {g} want {w:?}");
    }
    Ok(())
}

fn strat_dt_span() -> BoxedStrategy<DtSpan> {
    (gen::ymd(), gen::tod_ns(), gen::span_spec()).prop_map(|(ymd, tod, span)| DtSpan { ymd, tod, span }).boxed()
}

// --- Time + Span ------------------------------------------------------------------------

#[derive(Serialize, Deserialize, Debug, Clone)]
struct TimeSpan {
    tod: i64,
    span: SpanSpec,
}

fn tod_of(t: Time) -> i128 {
    t.hour() as i128 * 3600 * NS_PER_SEC + t.minute() as i128 * 60 * NS_PER_SEC + t.second() as i128 * NS_PER_SEC + t.subsec_nanosecond() as i128
}

fn test_time_span(c: &TimeSpan, cx: &mut Cx) -> CaseResult {
    let t = gen::mk_time(c.tod);
    let span = c.span.to_span();
    let ctx = format!("{t} + {span:?}");
    let base = c.tod as i128;
    span_nontrivial(&c.span, cx);
    // wrapping: exact arithmetic modulo 24h; whole days/weeks are multiples
    // of 24h; years/months carry no clock time (documented: ignored).
    let delta = c.span.time_ns() + c.span.days() * NS_PER_DAY;
    let wrap = (base + delta).rem_euclid(NS_PER_DAY);
    // Listed finding: Time::wrapping_add/sub(Span) accumulate in 64 bits.
    // Only cases whose exact accumulation leaves the 64-bit range get the
    // tagged signature; everything below 2^63 ns is judged normally.
    let mag: i128 = (4..10).map(|i| c.span.u[i] as i128 * gen::UNIT_NS[i]).sum::<i128>() + base;
    let tag = if mag >= (1i128 << 63) { ":exact-sum>=2^63ns" } else { "" };
    let g = t.wrapping_add(span);
    let wrap_sub = (base - delta).rem_euclid(NS_PER_DAY);
    let gs = t.wrapping_sub(span);
    if tag.is_empty() {
        ensure!(tod_of(g) == wrap, "time.wrapping_add(span)-wrong", "{ctx}: wrapping_add = {g} want tod {wrap}ns");
        ensure!(tod_of(gs) == wrap_sub, "time.wrapping_sub(span)-wrong", "{ctx}: wrapping_sub = {gs} want tod {wrap_sub}ns");
        ensure!(tod_of(t + span) == wrap && tod_of(t - span) == wrap_sub, "time-operators-wrong", "{ctx}: operators disagree with wrapping arithmetic");
        let (mut ta, mut ts) = (t, t);
        ta += span;
        ts -= span;
        ensure!(tod_of(ta) == wrap && tod_of(ts) == wrap_sub, "time-assign-operators-wrong", "{ctx}: += / -= disagree with wrapping arithmetic ({ta}, {ts})");
    } else {
        // soft: keep evaluating the checked/saturating clauses of this case
        if tod_of(g) != wrap {
            cx.soft_fail(format!("time.wrapping_add(span)-wrong{tag}"), format!("{ctx}: wrapping_add = {g} want tod {wrap}ns"));
        }
        if tod_of(gs) != wrap_sub {
            cx.soft_fail(format!("time.wrapping_sub(span)-wrong{tag}"), format!("{ctx}: wrapping_sub = {gs} want tod {wrap_sub}ns"));
        }
        if tod_of(t + span) != wrap || tod_of(t - span) != wrap_sub {
            cx.soft_fail(format!("time-operators-wrong{tag}"), format!("{ctx}: operators disagree with wrapping arithmetic"));
        }
    }
    // checked: units above hours are refused (documented); otherwise Err
    // exactly when the result leaves the day
    let has_big = c.span.u[..4].iter().any(|&x| x != 0);
    let exact = base + c.span.time_ns();
    let want = if has_big || !(0..NS_PER_DAY).contains(&exact) { None } else { Some(exact) };
    cx.class_if(want.is_none(), "leaves-day-or-refused");
    cx.nt_if(!has_big && (exact < 0 || exact >= NS_PER_DAY));
    match (t.checked_add(span), want) {
        (Ok(g), Some(w)) => ensure!(tod_of(g) == w, "time.checked_add(span)-wrong", "{ctx}: checked_add = {g} want {w}"),
        (Err(_), None) => {}
        (Ok(g), None) => fail!("time.checked_add(span)-accepts", "{ctx}: checked_add = Ok({g}) but the result leaves the day"),
        (Err(e), Some(w)) => fail!("time.checked_add(span)-rejects", "{ctx}: checked_add = Err({e}) but the result {w} is within the day"),
    }
    let exact_sub = base - c.span.time_ns();
    let want_sub = if has_big || !(0..NS_PER_DAY).contains(&exact_sub) { None } else { Some(exact_sub) };
    match (t.checked_sub(span), want_sub) {
        (Ok(g), Some(w)) => ensure!(tod_of(g) == w, "time.checked_sub(span)-wrong", "{ctx}: checked_sub = {g} want {w}"),
        (Err(_), None) => {}
        (Ok(g), None) => fail!("time.checked_sub(span)-accepts", "{ctx}: checked_sub = Ok({g}) but the result leaves the day"),
        (Err(e), Some(w)) => fail!("time.checked_sub(span)-rejects", "{ctx}: checked_sub = Err({e}) but the result {w} is within the day"),
    }
    // saturating: clamp in the direction of the operand
    let sat = t.saturating_add(span);
    let wsat = want.unwrap_or(if c.span.sign() < 0 { 0 } else { NS_PER_DAY - 1 });
    ensure!(tod_of(sat) == wsat, "time.saturating_add(span)-wrong", "{ctx}: saturating_add = {sat} want {wsat}");
    let sat = t.saturating_sub(span);
    let wsat = want_sub.unwrap_or(if c.span.sign() < 0 { NS_PER_DAY - 1 } else { 0 });
    ensure!(tod_of(sat) == wsat, "time.saturating_sub(span)-wrong", "{ctx}: saturating_sub = {sat} want {wsat}");
    Ok(())
}

fn strat_time_span() -> BoxedStrategy<TimeSpan> {
    let span = prop_oneof![
        4 => gen::span_spec_masked([false, false, false, false, true, true, true, true, true, true]),
        1 => gen::span_spec_masked([false, false, true, true, true, true, true, true, true, true]),
        1 => gen::span_spec(),
    ];
    (gen::tod_ns(), span).prop_map(|(tod, span)| TimeSpan { tod, span }).boxed()
}

// --- absolute durations -----------------------------------------------------------------

#[derive(Serialize, Deserialize, Debug, Clone)]
struct DtDur {
    ymd: (i16, i8, i8),
    tod: i64,
    secs: i64,
    nanos: i32,
}

/// Date + whole days of a duration (truncated toward zero), None when out of range.
fn wdate_pre(base: &(i64, i64, i64, i128), ns: i128) -> Option<(i64, i64, i64)> {
    let dn = rc::to_days(base.0, base.1, base.2) as i128 + ns / NS_PER_DAY;
    if ra::days_in_range(dn) {
        Some(rc::from_days(dn as i64))
    } else {
        None
    }
}

fn test_durations(c: &DtDur, cx: &mut Cx) -> CaseResult {
    let date = gen::mk_date(c.ymd.0, c.ymd.1, c.ymd.2);
    let time = gen::mk_time(c.tod);
    let dt = date.to_datetime(time);
    let d = SignedDuration::new(c.secs, c.nanos);
    let ns = d.as_nanos();
    let ctx = format!("{dt} + {d:?}");
    let base = dt_fields(dt);
    cx.class_if(ns < 0, "negative");
    cx.class_if(ns.abs() >= (1i128 << 63), "|ns|>=2^63");
    // DateTime: exact
    let want = ra::datetime_add_ns(base, ns);
    cx.class_if(want.is_none(), "out-of-range");
    cx.nt_if(want.is_none() || ns.abs() >= (1i128 << 63) || ns.abs() > 5_000_000 * NS_PER_DAY);
    cmp_dt("datetime.checked_add(duration)", dt.checked_add(d), want, &ctx)?;
    let wsub = ra::datetime_add_ns(base, -ns);
    cmp_dt("datetime.checked_sub(duration)", dt.checked_sub(d), wsub, &ctx)?;
    let sat = dt.saturating_add(d);
    let wsat = want.unwrap_or(if ns < 0 { dt_fields(DateTime::MIN) } else { dt_fields(DateTime::MAX) });
    ensure!(dt_fields(sat) == wsat, "datetime.saturating_add(duration)-wrong", "{ctx}: saturating_add = {sat} want {wsat:?}");
    if let Some(w) = want {
        let mut g = dt;
        g += d;
        ensure!(dt_fields(dt + d) == w && dt_fields(g) == w, "datetime+duration-operators-wrong", "{ctx}: + / += give {} / {g} want {w:?}", dt + d);
    }
    if let Some(w) = wsub {
        let mut g = dt;
        g -= d;
        ensure!(dt_fields(dt - d) == w && dt_fields(g) == w, "datetime-duration-operators-wrong", "{ctx}: - / -= give {} / {g} want {w:?}", dt - d);
    }
    if let Some(w) = wdate_pre(&base, ns) {
        let mut g = date;
        g += d;
        ensure!(ymd_of(date + d) == w && ymd_of(g) == w, "date+duration-operators-wrong", "{ctx}: date + / += give {} / {g} want {w:?}", date + d);
    }
    if let Some(w) = wdate_pre(&base, -ns) {
        let mut g = date;
        g -= d;
        ensure!(ymd_of(date - d) == w && ymd_of(g) == w, "date-duration-operators-wrong", "{ctx}: date - / -= give {} / {g} want {w:?}", date - d);
    }
    {
        let (mut ta, mut ts2) = (time, time);
        ta += d;
        ts2 -= d;
        let wrap = (base.3 + ns).rem_euclid(NS_PER_DAY);
        let wrap_sub = (base.3 - ns).rem_euclid(NS_PER_DAY);
        ensure!(tod_of(time + d) == wrap && tod_of(ta) == wrap && tod_of(time - d) == wrap_sub && tod_of(ts2) == wrap_sub, "time-duration-operators-wrong", "{ctx}: time operators with SignedDuration disagree with wrapping arithmetic");
    }
    // saturating_sub clamps in the direction of the *negated* operand
    let sat = dt.saturating_sub(d);
    let wsat = wsub.unwrap_or(if ns > 0 { dt_fields(DateTime::MIN) } else { dt_fields(DateTime::MAX) });
    ensure!(dt_fields(sat) == wsat, "datetime.saturating_sub(duration)-wrong", "{ctx}: saturating_sub = {sat} want {wsat:?}");
    // Date: only whole days (truncated toward zero) are considered
    let days = ns / NS_PER_DAY;
    let dn = rc::to_days(base.0, base.1, base.2) as i128 + days;
    let wdate = if ra::days_in_range(dn) { Some(rc::from_days(dn as i64)) } else { None };
    cmp_date("date.checked_add(duration)", date.checked_add(d), wdate, &ctx)?;
    let dn = rc::to_days(base.0, base.1, base.2) as i128 - days;
    let wdate_sub = if ra::days_in_range(dn) { Some(rc::from_days(dn as i64)) } else { None };
    cmp_date("date.checked_sub(duration)", date.checked_sub(d), wdate_sub, &ctx)?;
    let sat = date.saturating_add(d);
    let w = wdate.unwrap_or(if ns < 0 { (-9999, 1, 1) } else { (9999, 12, 31) });
    ensure!(ymd_of(sat) == w, "date.saturating_add(duration)-wrong", "{ctx}: date saturating_add = {sat} want {w:?}");
    let sat = date.saturating_sub(d);
    let w = wdate_sub.unwrap_or(if ns > 0 { (-9999, 1, 1) } else { (9999, 12, 31) });
    ensure!(ymd_of(sat) == w, "date.saturating_sub(duration)-wrong", "{ctx}: date saturating_sub = {sat} want {w:?}");
    // Time: wrapping exact mod 24h; checked fails exactly when leaving the day
    let wrap = (base.3 + ns).rem_euclid(NS_PER_DAY);
    let g = time.wrapping_add(d);
    ensure!(tod_of(g) == wrap, "time.wrapping_add(duration)-wrong", "{ctx}: time wrapping_add = {g} want {wrap}");
    let wrap_sub = (base.3 - ns).rem_euclid(NS_PER_DAY);
    let g = time.wrapping_sub(d);
    ensure!(tod_of(g) == wrap_sub, "time.wrapping_sub(duration)-wrong", "{ctx}: time wrapping_sub = {g} want {wrap_sub}");
    let exact = base.3 + ns;
    let wt = if (0..NS_PER_DAY).contains(&exact) { Some(exact) } else { None };
    match (time.checked_add(d), wt) {
        (Ok(g), Some(w)) => ensure!(tod_of(g) == w, "time.checked_add(duration)-wrong", "{ctx}: time checked_add = {g} want {w}"),
        (Err(_), None) => {}
        (Ok(g), None) => fail!("time.checked_add(duration)-accepts", "{ctx}: Ok({g}) but leaves the day"),
        (Err(e), Some(_)) => fail!("time.checked_add(duration)-rejects", "{ctx}: Err({e}) but stays in the day"),
    }
    let sat = time.saturating_add(d);
    let wsat = wt.unwrap_or(if ns < 0 { 0 } else { NS_PER_DAY - 1 });
    ensure!(tod_of(sat) == wsat, "time.saturating_add(duration)-wrong", "{ctx}: time saturating_add = {sat} want {wsat}");
    let exact_sub = base.3 - ns;
    let wt_sub = if (0..NS_PER_DAY).contains(&exact_sub) { Some(exact_sub) } else { None };
    let sat = time.saturating_sub(d);
    let wsat = wt_sub.unwrap_or(if ns > 0 { 0 } else { NS_PER_DAY - 1 });
    ensure!(tod_of(sat) == wsat, "time.saturating_sub(duration)-wrong", "{ctx}: time saturating_sub = {sat} want {wsat}");
    // unsigned std Duration
    if ns >= 0 {
        let u = StdDuration::new(c.secs as u64, c.nanos as u32);
        cmp_dt("datetime.checked_add(std)", dt.checked_add(u), want, &ctx)?;
        cmp_dt("datetime.checked_sub(std)", dt.checked_sub(u), wsub, &ctx)?;
        cmp_date("date.checked_add(std)", date.checked_add(u), wdate, &ctx)?;
        cmp_date("date.checked_sub(std)", date.checked_sub(u), wdate_sub, &ctx)?;
        ensure!(tod_of(time.wrapping_add(u)) == wrap, "time.wrapping_add(std)-wrong", "{ctx}: time wrapping_add(std)");
        ensure!(tod_of(time.wrapping_sub(u)) == wrap_sub, "time.wrapping_sub(std)-wrong", "{ctx}: time wrapping_sub(std)");
        let w = wt_sub.unwrap_or(if ns > 0 { 0 } else { NS_PER_DAY - 1 });
        ensure!(tod_of(time.saturating_sub(u)) == w, "time.saturating_sub(std)-wrong", "{ctx}: time saturating_sub(std) = {} want {w}", time.saturating_sub(u));
        let w = wsub.unwrap_or(if ns > 0 { dt_fields(DateTime::MIN) } else { dt_fields(DateTime::MAX) });
        ensure!(dt_fields(dt.saturating_sub(u)) == w, "datetime.saturating_sub(std)-wrong", "{ctx}: saturating_sub(std) = {} want {w:?}", dt.saturating_sub(u));
        let w = want.unwrap_or(dt_fields(DateTime::MAX));
        ensure!(dt_fields(dt.saturating_add(u)) == w, "datetime.saturating_add(std)-wrong", "{ctx}: saturating_add(std) = {} want {w:?}", dt.saturating_add(u));
        // operator forms with an unsigned duration (panic on overflow: only when in range)
        if let Some(w) = want {
            let mut g = dt;
            g += u;
            ensure!(dt_fields(dt + u) == w && dt_fields(g) == w, "datetime+std-operators-wrong", "{ctx}: + / += std give {} / {g} want {w:?}", dt + u);
        }
        if let Some(w) = wsub {
            let mut g = dt;
            g -= u;
            ensure!(dt_fields(dt - u) == w && dt_fields(g) == w, "datetime-std-operators-wrong", "{ctx}: - / -= std give {} / {g} want {w:?}", dt - u);
        }
        if let Some(w) = wdate {
            let mut g = date;
            g += u;
            ensure!(ymd_of(date + u) == w && ymd_of(g) == w, "date+std-operators-wrong", "{ctx}: date + / += std give {} / {g} want {w:?}", date + u);
        }
        if let Some(w) = wdate_sub {
            let mut g = date;
            g -= u;
            ensure!(ymd_of(date - u) == w && ymd_of(g) == w, "date-std-operators-wrong", "{ctx}: date - / -= std give {} / {g} want {w:?}", date - u);
        }
        {
            let (mut ta, mut ts2) = (time, time);
            ta += u;
            ts2 -= u;
            ensure!(tod_of(time + u) == wrap && tod_of(ta) == wrap && tod_of(time - u) == wrap_sub && tod_of(ts2) == wrap_sub, "time-std-operators-wrong", "{ctx}: time operators with std Duration disagree with wrapping arithmetic");
        }
    }
    Ok(())
}

fn strat_durations() -> BoxedStrategy<DtDur> {
    (gen::ymd(), gen::tod_ns(), gen::signed_duration())
        .prop_map(|(ymd, tod, (secs, nanos))| {
            // make the sign coherent so that StdDuration::new is well defined
            // (for secs == 0 the generated sign of the nanoseconds is kept: durations strictly
            // between -1s and 0 have zero seconds and negative nanoseconds)
            let nanos = if secs < 0 { -nanos.abs() } else if secs > 0 { nanos.abs() } else { nanos };
            DtDur { ymd, tod, secs, nanos }
        })
        .boxed()
}

// --- series -------------------------------------------------------------------------------

fn test_series(c: &DtSpan, cx: &mut Cx) -> CaseResult {
    let date = gen::mk_date(c.ymd.0, c.ymd.1, c.ymd.2);
    let dt = date.to_datetime(gen::mk_time(c.tod));
    let span = c.span.to_span();
    let base = dt_fields(dt);
    // item i = start + i*period, computed afresh (not cumulatively)
    let mut n = 0usize;
    let mut iter = dt.series(span);
    for i in 0..50i64 {
        let mut mult = c.span.clone();
        let mut overflow = false;
        for k in 0..10 {
            match mult.u[k].checked_mul(i) {
                Some(v) if v <= gen::SPAN_LIMITS[k] => mult.u[k] = v,
                _ => overflow = true,
            }
        }
        let want = if overflow { None } else { ra::datetime_add(base, &mult) };
        let got = iter.next();
        match (got, want) {
            (Some(g), Some(w)) => {
                ensure!(dt_fields(g) == w, "series-item-wrong", "{dt}.series({span:?}) item {i} = {g} want {w:?}");
                n += 1;
            }
            (None, None) => break,
            (Some(g), None) => fail!("series-item-beyond-range", "{dt}.series({span:?}) item {i} = {g} but start + {i}*period is out of range"),
            (None, Some(w)) => fail!("series-stops-early", "{dt}.series({span:?}) stops at item {i} but start + {i}*period = {w:?} is in range"),
        }
    }
    cx.nt_if(n >= 3 && (c.span.u[1] != 0 || c.span.u[0] != 0));
    cx.class_if(n < 50, "stops-at-range-end");
    // Date and Time series: item i = start + i*period (the additions themselves are judged by
    // c08.date_span / c08.time_span)
    let time = gen::mk_time(c.tod);
    for i in 0..12i64 {
        let Ok(mult) = span.checked_mul(i) else { break };
        let (gd, wd) = (date.series(span).nth(i as usize), date.checked_add(mult).ok());
        ensure!(gd == wd, "series-item-wrong:Date", "{date}.series({span:?}) item {i} = {gd:?} want {wd:?}");
        let (gt, wt) = (time.series(span).nth(i as usize), time.checked_add(mult).ok());
        ensure!(gt == wt, "series-item-wrong:Time", "{time}.series({span:?}) item {i} = {gt:?} want {wt:?}");
        if wd.is_none() && wt.is_none() {
            break;
        }
    }
    // the standard iterator adaptors see the same sequence as plain iteration
    fn adaptors<T: PartialEq + std::fmt::Debug + Clone, I: Iterator<Item = T>>(what: &str, mk: &dyn Fn() -> I, sel: u64) -> CaseResult {
        let plain: Vec<T> = mk().take(14).collect();
        let (a, b, k, st) = ((sel % 3) as usize, (sel / 3 % 3) as usize, (sel / 9 % 4) as usize, 1 + (sel / 36 % 4) as usize);
        let mut it = mk();
        let first = it.next();
        let after = it.nth(k);
        ensure!(first == plain.first().cloned() && after == plain.get(1 + k).cloned(), format!("series-adaptor-differs:{what}"), "{what}: next() then nth({k}) = {after:?}, plain iteration gives {:?}", plain.get(1 + k));
        let skipped = mk().skip(a).skip(b).next();
        ensure!(skipped == plain.get(a + b).cloned(), format!("series-adaptor-differs:{what}"), "{what}: skip({a}).skip({b}).next() = {skipped:?}, plain iteration gives {:?}", plain.get(a + b));
        let stepped: Vec<T> = mk().step_by(st).take(4).collect();
        let want: Vec<T> = plain.iter().step_by(st).take(4).cloned().collect();
        ensure!(stepped == want, format!("series-adaptor-differs:{what}"), "{what}: step_by({st}) = {stepped:?}, plain iteration gives {want:?}");
        let mut it = mk();
        let (x0, x1, x2) = (it.nth(a), it.nth(b), it.next());
        ensure!(x0 == plain.get(a).cloned() && x1 == plain.get(a + 1 + b).cloned() && x2 == plain.get(a + b + 2).cloned(), format!("series-adaptor-differs:{what}"), "{what}: nth({a}), nth({b}), next() = {x0:?}, {x1:?}, {x2:?}; plain iteration gives {:?}", &plain);
        Ok(())
    }
    let sel = (c.tod as u64) ^ (c.ymd.2 as u64) << 7;
    adaptors("DateTime::series", &|| dt.series(span), sel)?;
    adaptors("Date::series", &|| date.series(span), sel)?;
    adaptors("Time::series", &|| time.series(span), sel)?;
    Ok(())
}

fn strat_series() -> BoxedStrategy<DtSpan> {
    let small = (any::<bool>(), proptest::collection::vec(prop_oneof![3 => Just(0i64), 2 => 0i64..40, 1 => 0i64..4000], 10)).prop_map(|(neg, v)| {
        let mut u = [0i64; 10];
        u.copy_from_slice(&v);
        SpanSpec { neg, u }
    });
    (gen::ymd(), gen::tod_ns(), prop_oneof![3 => small, 1 => gen::span_spec()]).prop_map(|(ymd, tod, span)| DtSpan { ymd, tod, span }).boxed()
}

pub fn property() -> Property {
    Property {
        id: "C08",
        level: "exploration",
        rule: "proptest-generated (civil value, span | signed duration | std duration) pairs with per-unit magnitudes drawn up to the documented Span limits (limit, limit-1, powers of two, small, uniform), both signs, unit-mix classes; checked/saturating/wrapping/operator forms and *Series. Oracle: reference interpreter on day numbers and i128 nanoseconds-of-day (refarith.rs). Non-trivial: a unit >= 2^31 or time total >= 2^63 ns, a month-end clamp, a midnight crossing, an out-of-range outcome or a result within 2 days of a limit; counted via a fingerprint set.",
        assumptions: &["refarith.rs/refcal.rs", "years/months in a span added to a Time are ignored, days/weeks are whole multiples of 24h (documented)"],
        checks: vec![
            Box::new(Prop { name: "c08.date_span", quick: 2_400_000, thorough: 40_000_000, strategy: strat_dt_span, test: test_date_span }),
            Box::new(Prop { name: "c08.datetime_span", quick: 2_400_000, thorough: 40_000_000, strategy: strat_dt_span, test: test_datetime_span }),
            Box::new(Prop { name: "c08.time_span", quick: 2_400_000, thorough: 40_000_000, strategy: strat_time_span, test: test_time_span }),
            Box::new(Prop { name: "c08.durations", quick: 2_400_000, thorough: 40_000_000, strategy: strat_durations, test: test_durations }),
            Box::new(Prop { name: "c08.series", quick: 400_000, thorough: 5_000_000, strategy: strat_series, test: test_series }),
        ],
        floors: |rec| {
            rec.floor("c08.date_span:out-of-range", "c08.date_span:cases", 0.05);
            rec.floor("c08.datetime_span:crosses-midnight", "c08.datetime_span:cases", 0.20);
            rec.floor("c08.time_span:unit>=2^31", "c08.time_span:cases", 0.10);
            rec.floor("c08.durations:|ns|>=2^63", "c08.durations:cases", 0.05);
        },
    }
}
