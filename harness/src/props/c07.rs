//! C07 Differences are reversible, balanced and sign-consistent for every largest unit.

use jiff::civil::{Date, DateTime, Time};
use jiff::{Span, Timestamp, Unit, Zoned};
use proptest::prelude::*;
use serde::{Deserialize, Serialize};

use crate::engine::*;
use crate::gen::{self, SpanSpec, UNIT_NS};
use crate::props::c03::{strat_zone_probe, ZoneProbe};
use crate::props::c06::zone_universe;
use crate::refmodel::reftz::Civil;
use crate::refmodel::refzoned as rz;
use crate::refmodel::wide::*;
use crate::zones;
use crate::{ensure, fail};

pub const UNITS: [Unit; 10] = [
    Unit::Year,
    Unit::Month,
    Unit::Week,
    Unit::Day,
    Unit::Hour,
    Unit::Minute,
    Unit::Second,
    Unit::Millisecond,
    Unit::Microsecond,
    Unit::Nanosecond,
];

/// Structural checks shared by all types. `largest` is an index into UNITS.
/// `dir` = sign(b - a). `uniform_from` = first unit index from which units
/// are uniform (fixed length) for this type: 3 (days) for civil types, 4
/// (hours) for zoned.
fn check_structure(what: &str, s: &Span, largest: usize, dir: i128, uniform_from: usize) -> CaseResult {
    let sp = SpanSpec::from_span(s);
    // sign consistency
    let f = [
        s.get_years() as i128,
        s.get_months() as i128,
        s.get_weeks() as i128,
        s.get_days() as i128,
        s.get_hours() as i128,
        s.get_minutes() as i128,
        s.get_seconds() as i128,
        s.get_milliseconds() as i128,
        s.get_microseconds() as i128,
        s.get_nanoseconds() as i128,
    ];
    for (i, v) in f.iter().enumerate() {
        if *v != 0 {
            ensure!(v.signum() == dir, format!("{what}-sign"), "{what}: unit {:?} = {v} but sign(b-a) = {dir}; span {s:?}", UNITS[i]);
        }
        if i < largest {
            ensure!(*v == 0, format!("{what}-unit-above-largest"), "{what}: unit {:?} = {v} is above largest {:?}; span {s:?}", UNITS[i], UNITS[largest]);
        }
    }
    ensure!(s.signum() as i128 == dir || (dir == 0 && s.is_zero()), format!("{what}-signum"), "{what}: span signum {} but direction {dir}", s.signum());
    // uniform tail is balanced: each unit below one of the next larger
    // *permitted* unit (weeks are only permitted when largest == week)
    let start = largest.max(uniform_from);
    for i in (start + 1)..10 {
        let mut j = i - 1;
        if j == 2 && largest != 2 {
            continue;
        }
        while j > start && j == 2 && largest != 2 {
            j -= 1;
        }
        let per = UNIT_NS[j] / UNIT_NS[i];
        ensure!(
            (sp.u[i] as i128) < per,
            format!("{what}-unbalanced"),
            "{what}: {} {:?} could be carried into {:?} (largest {:?}); span {s:?}",
            sp.u[i],
            UNITS[i],
            UNITS[j],
            UNITS[largest]
        );
    }
    Ok(())
}

fn negated_fieldwise_eq(a: &Span, b: &Span) -> bool {
    a.fieldwise() == b.negate().fieldwise()
}

// --- Date -------------------------------------------------------------------------------

#[derive(Serialize, Deserialize, Debug, Clone)]
struct DatePair {
    a: (i16, i8, i8),
    b: (i16, i8, i8),
    largest: u8,
}

fn strat_date_pair() -> BoxedStrategy<DatePair> {
    let near = (gen::ymd(), -800i64..=800).prop_map(|(a, d)| {
        let dn = crate::refmodel::refcal::to_days(a.0 as i64, a.1 as i64, a.2 as i64) + d;
        let dn = dn.clamp(crate::refmodel::refcal::DAY_MIN, crate::refmodel::refcal::DAY_MAX);
        let (y, m, dd) = crate::refmodel::refcal::from_days(dn);
        (a, (y as i16, m as i8, dd as i8))
    });
    let pair = prop_oneof![3 => (gen::ymd(), gen::ymd()), 3 => near];
    (pair, 0u8..5).prop_map(|((a, b), largest)| DatePair { a, b, largest }).boxed()
}

/// Calendar balance: bumping unit `i` of the prefix (units >= i) by one in
/// direction `dir` must overshoot b. For year/month bumps the comparison is
/// made on the *unconstrained* target (year, month, original day, time) as
/// in Temporal's ISODateSurpasses: a day-of-month that had to be clamped
/// counts as overshooting within that month. Day/week bumps use real
/// addition. `a_civil`/`b_civil` are (y, m, d, tod) tuples of the wall clock.
fn calendar_overshoot<T: PartialOrd + Copy + std::fmt::Debug>(
    what: &str,
    s: &Span,
    largest: usize,
    dir: i128,
    a_civil: (i64, i64, i64, i128),
    b_civil: (i64, i64, i64, i128),
    add: impl Fn(Span) -> Option<T>,
    b: T,
) -> CaseResult {
    calendar_overshoot_eq(what, s, largest, dir, a_civil, b_civil, add, b, |_| false)
}

/// As `calendar_overshoot`; `eq_ok(prefix)` says whether not overshooting is
/// acceptable for this prefix (zoned: the civil intermediate fell into a gap
/// and was pushed forward by the compatible strategy; in wall-clock terms it
/// lies beyond b, and e.g. across a skipped day "1d" and "2d" reach the same
/// instant, so neither span is "more balanced").
fn calendar_overshoot_eq<T: PartialOrd + Copy + std::fmt::Debug>(
    what: &str,
    s: &Span,
    largest: usize,
    dir: i128,
    a_civil: (i64, i64, i64, i128),
    b_civil: (i64, i64, i64, i128),
    add: impl Fn(Span) -> Option<T>,
    b: T,
    eq_ok: impl Fn(&Span) -> bool,
) -> CaseResult {
    if dir == 0 {
        return Ok(());
    }
    let g = [s.get_years() as i64, s.get_months() as i64, s.get_weeks() as i64, s.get_days() as i64];
    for i in largest..4 {
        if i == 2 && largest != 2 {
            continue;
        }
        let d = dir as i64;
        let mut v = [0i64; 4];
        for k in 0..=i {
            v[k] = g[k];
        }
        v[i] += d;
        if i <= 1 {
            // unconstrained target month
            let idx = a_civil.0 as i128 * 12 + (a_civil.1 as i128 - 1) + v[0] as i128 * 12 + v[1] as i128;
            let t = (idx.div_euclid(12) as i64, idx.rem_euclid(12) as i64 + 1, a_civil.2, a_civil.3);
            let over = if dir > 0 { t > b_civil } else { t < b_civil };
            ensure!(over, format!("{what}-unbalanced-calendar"), "{what}: one more {:?} does not overshoot: unconstrained target {t:?} vs b {b_civil:?}; span {s:?}", UNITS[i]);
            continue;
        }
        let p = match Span::new().try_years(v[0]).and_then(|p| p.try_months(v[1])).and_then(|p| p.try_weeks(v[2])).and_then(|p| p.try_days(v[3])) {
            Ok(p) => p,
            Err(_) => continue,
        };
        let Some(r) = add(p) else { continue }; // out of range: certainly overshoots
        let over = if dir > 0 { r > b } else { r < b };
        if !over && eq_ok(&p) {
            continue;
        }
        ensure!(over, format!("{what}-unbalanced-calendar"), "{what}: one more {:?} still does not overshoot: a + {p:?} = {r:?} vs b = {b:?}; span {s:?}", UNITS[i]);
    }
    Ok(())
}

fn test_date(c: &DatePair, cx: &mut Cx) -> CaseResult {
    let a = gen::mk_date(c.a.0, c.a.1, c.a.2);
    let b = gen::mk_date(c.b.0, c.b.1, c.b.2);
    let dir = (b.cmp(&a) as i8) as i128;
    let (largest, s) = if c.largest == 4 {
        (3usize, a.until(b))
    } else {
        (c.largest as usize, a.until((UNITS[c.largest as usize], b)))
    };
    let ctx = format!("{a}.until({:?}, {b})", UNITS[largest]);
    let midx = |v: &(i16, i8, i8)| v.0 as i64 * 12 + v.1 as i64;
    let s = match s {
        Ok(s) => s,
        Err(e) => {
            // The month count between the range ends (up to 239,987) exceeds
            // the documented Span month limit (239,976): unrepresentable.
            let unrep = largest == 1 && (midx(&c.b) - midx(&c.a)).abs() >= gen::SPAN_LIMITS[1];
            ensure!(unrep, "date-until-err", "{ctx} = Err({e}) although the result is representable");
            cx.class("unrepresentable-month-count");
            return Ok(());
        }
    };
    cx.nt_if(a != b && (a.day() > 28 || b.day() > 28 || a.days_in_month() != b.days_in_month()));
    cx.class_if(a.day() > 28 || b.day() > 28, "month-end");
    check_structure("date", &s, largest, dir, 3)?;
    let back = a.checked_add(s);
    ensure!(back.as_ref().ok() == Some(&b), "date-not-reversible", "{ctx} = {s:?} but a + s = {back:?}");
    let ac = (c.a.0 as i64, c.a.1 as i64, c.a.2 as i64, 0i128);
    let bc = (c.b.0 as i64, c.b.1 as i64, c.b.2 as i64, 0i128);
    calendar_overshoot("date", &s, largest, dir, ac, bc, |p| a.checked_add(p).ok(), b)?;
    let since = if c.largest == 4 { a.since(b) } else { a.since((UNITS[largest], b)) };
    match since {
        Ok(n) => ensure!(negated_fieldwise_eq(&n, &s), "date-since-not-negation", "{ctx}: since = {n:?} until = {s:?}"),
        Err(e) => fail!("date-since-err", "{ctx}: since = Err({e})"),
    }
    let want = (crate::refmodel::refcal::to_days(c.b.0 as i64, c.b.1 as i64, c.b.2 as i64) - crate::refmodel::refcal::to_days(c.a.0 as i64, c.a.1 as i64, c.a.2 as i64)) as i128 * NS_PER_DAY;
    ensure!(a.duration_until(b).as_nanos() == want && a.duration_since(b).as_nanos() == -want, "date-duration", "{ctx}: duration_until {:?} want {want}ns", a.duration_until(b));
    ensure!((b - a).fieldwise() == a.until(b).unwrap().fieldwise(), "date-sub-operator", "{ctx}: b - a differs from a.until(b)");
    Ok(())
}

// --- DateTime ------------------------------------------------------------------------------

#[derive(Serialize, Deserialize, Debug, Clone)]
struct DtPair {
    a: ((i16, i8, i8), i64),
    b: ((i16, i8, i8), i64),
    largest: u8,
}

fn mk_dt(v: &((i16, i8, i8), i64)) -> DateTime {
    gen::mk_date(v.0 .0, v.0 .1, v.0 .2).to_datetime(gen::mk_time(v.1))
}

fn strat_dt_pair() -> BoxedStrategy<DtPair> {
    let near = (gen::ymd(), -800i64..=800).prop_map(|(a, d)| {
        let dn = (crate::refmodel::refcal::to_days(a.0 as i64, a.1 as i64, a.2 as i64) + d).clamp(crate::refmodel::refcal::DAY_MIN, crate::refmodel::refcal::DAY_MAX);
        let (y, m, dd) = crate::refmodel::refcal::from_days(dn);
        (a, (y as i16, m as i8, dd as i8))
    });
    let dates = prop_oneof![3 => (gen::ymd(), gen::ymd()), 4 => near];
    // times: equal, crossing, arbitrary
    let times = prop_oneof![
        2 => gen::tod_ns().prop_map(|t| (t, t)),
        2 => (gen::tod_ns(), prop_oneof![Just(1i64), Just(-1), Just(1_000_000_000), Just(-1_000_000_000)]).prop_map(|(t, d)| (t, (t + d).clamp(0, 86_399_999_999_999))),
        4 => (gen::tod_ns(), gen::tod_ns()),
    ];
    (dates, times, 0u8..11).prop_map(|((a, b), (ta, tb), largest)| DtPair { a: (a, ta), b: (b, tb), largest }).boxed()
}

fn dt_total_ns(dt: DateTime) -> i128 {
    crate::props::c04::dt_to_civil(dt)
}

fn test_datetime(c: &DtPair, cx: &mut Cx) -> CaseResult {
    let a = mk_dt(&c.a);
    let b = mk_dt(&c.b);
    let dir = (b.cmp(&a) as i8) as i128;
    let (largest, s) = if c.largest == 10 { (3usize, a.until(b)) } else { (c.largest as usize, a.until((UNITS[c.largest as usize], b))) };
    let ctx = format!("{a}.until({:?}, {b})", UNITS[largest]);
    let total = dt_total_ns(b) - dt_total_ns(a);
    let s = match s {
        Ok(s) => s,
        Err(e) => {
            // documented: nanosecond-largest results that do not fit
            let midx = |v: &((i16, i8, i8), i64)| v.0 .0 as i64 * 12 + v.0 .1 as i64;
            let overflow = (largest == 9 && total.abs() > i64::MAX as i128) || (largest == 1 && (midx(&c.b) - midx(&c.a)).abs() >= gen::SPAN_LIMITS[1]);
            ensure!(overflow, "datetime-until-err", "{ctx} = Err({e}) but the difference {total}ns is representable");
            cx.class("documented-overflow-error");
            return Ok(());
        }
    };
    let tod_sign = (c.b.1 - c.a.1).signum() as i128;
    let date_sign = (b.date().cmp(&a.date()) as i8) as i128;
    cx.class_if(tod_sign != 0 && date_sign != 0 && tod_sign != date_sign, "time-of-day-opposes-date");
    cx.nt_if(a != b && ((tod_sign != 0 && date_sign != 0 && tod_sign != date_sign) || a.day() > 28 || b.day() > 28));
    check_structure("datetime", &s, largest, dir, 3)?;
    let back = a.checked_add(s);
    ensure!(back.as_ref().ok() == Some(&b), "datetime-not-reversible", "{ctx} = {s:?} but a + s = {back:?}");
    // Temporal/jiff first move the end date one day toward the start when
    // the time-of-day difference opposes the direction; year/month balance is
    // judged against that adjusted end date (dates only).
    let af = crate::props::c02::dt_fields(a);
    let bf = crate::props::c02::dt_fields(b);
    let bdn = crate::refmodel::refcal::to_days(bf.0, bf.1, bf.2) - if tod_sign != 0 && tod_sign == -dir { dir as i64 } else { 0 };
    let badj = crate::refmodel::refcal::from_days(bdn.clamp(crate::refmodel::refcal::DAY_MIN, crate::refmodel::refcal::DAY_MAX));
    calendar_overshoot("datetime", &s, largest, dir, (af.0, af.1, af.2, 0), (badj.0, badj.1, badj.2, 0), |p| a.checked_add(p).ok(), b)?;
    let since = if c.largest == 10 { a.since(b) } else { a.since((UNITS[largest], b)) };
    match since {
        Ok(n) => ensure!(negated_fieldwise_eq(&n, &s), "datetime-since-not-negation", "{ctx}: since = {n:?} until = {s:?}"),
        Err(e) => fail!("datetime-since-err", "{ctx}: since = Err({e})"),
    }
    ensure!(a.duration_until(b).as_nanos() == total && a.duration_since(b).as_nanos() == -total, "datetime-duration", "{ctx}: duration_until {:?} want {total}ns", a.duration_until(b));
    Ok(())
}

// --- Time -----------------------------------------------------------------------------------

#[derive(Serialize, Deserialize, Debug, Clone)]
struct TimePair {
    a: i64,
    b: i64,
    largest: u8,
}

fn strat_time_pair() -> BoxedStrategy<TimePair> {
    (gen::tod_ns(), gen::tod_ns(), 4u8..11).prop_map(|(a, b, largest)| TimePair { a, b, largest }).boxed()
}

fn test_time(c: &TimePair, cx: &mut Cx) -> CaseResult {
    let (a, b): (Time, Time) = (gen::mk_time(c.a), gen::mk_time(c.b));
    let dir = (c.b - c.a).signum() as i128;
    let (largest, s) = if c.largest == 10 { (4usize, a.until(b)) } else { (c.largest as usize, a.until((UNITS[c.largest as usize], b))) };
    let ctx = format!("{a}.until({:?}, {b})", UNITS[largest]);
    let s = s.map_err(|e| Failure::new("time-until-err", format!("{ctx} = Err({e})")))?;
    cx.nt_if(c.a != c.b);
    check_structure("time", &s, largest, dir, 3)?;
    let total = SpanSpec::from_span(&s).time_ns();
    ensure!(total == (c.b - c.a) as i128, "time-total", "{ctx} = {s:?} denotes {total}ns want {}", c.b - c.a);
    let back = a.checked_add(s);
    ensure!(back.as_ref().ok() == Some(&b), "time-not-reversible", "{ctx} = {s:?} but a + s = {back:?}");
    let since = if c.largest == 10 { a.since(b) } else { a.since((UNITS[largest], b)) };
    match since {
        Ok(n) => ensure!(negated_fieldwise_eq(&n, &s), "time-since-not-negation", "{ctx}: since = {n:?}"),
        Err(e) => fail!("time-since-err", "{ctx}: since = Err({e})"),
    }
    ensure!(a.duration_until(b).as_nanos() == (c.b - c.a) as i128, "time-duration", "{ctx}: duration_until wrong");
    Ok(())
}

// --- Timestamp ---------------------------------------------------------------------------------

#[derive(Serialize, Deserialize, Debug, Clone)]
struct TsPair {
    a: String,
    b: String,
    largest: u8,
}

fn strat_ts_pair() -> BoxedStrategy<TsPair> {
    let pair = prop_oneof![
        3 => (gen::ts_ns(), gen::ts_ns()),
        3 => (gen::ts_ns(), gen::biased(-10_000_000_000_000, 10_000_000_000_000)).prop_map(|(a, d)| (a, (a + d as i128).clamp(TS_MIN_NS, TS_MAX_NS))),
    ];
    (pair, 4u8..11).prop_map(|((a, b), largest)| TsPair { a: a.to_string(), b: b.to_string(), largest }).boxed()
}

fn test_timestamp(c: &TsPair, cx: &mut Cx) -> CaseResult {
    let (an, bn): (i128, i128) = (c.a.parse().unwrap(), c.b.parse().unwrap());
    let (a, b) = (gen::mk_ts(an), gen::mk_ts(bn));
    let dir = (bn - an).signum();
    let (largest, s) = if c.largest == 10 { (6usize, a.until(b)) } else { (c.largest as usize, a.until((UNITS[c.largest as usize], b))) };
    let ctx = format!("{a}.until({:?}, {b})", UNITS[largest]);
    let total = bn - an;
    let s = match s {
        Ok(s) => s,
        Err(e) => {
            let overflow = largest == 9 && total.abs() > i64::MAX as i128;
            ensure!(overflow, "timestamp-until-err", "{ctx} = Err({e}) but {total}ns is representable");
            cx.class("documented-overflow-error");
            return Ok(());
        }
    };
    cx.nt_if(an != bn && ((an < 0) != (bn < 0) || an % NS_PER_SEC != 0));
    check_structure("timestamp", &s, largest, dir, 4)?;
    let got = SpanSpec::from_span(&s).time_ns();
    ensure!(got == total, "timestamp-total", "{ctx} = {s:?} denotes {got}ns want {total}");
    let back = a.checked_add(s);
    ensure!(back.as_ref().ok() == Some(&b), "timestamp-not-reversible", "{ctx} = {s:?} but a + s = {back:?}");
    let since = if c.largest == 10 { a.since(b) } else { a.since((UNITS[largest], b)) };
    match since {
        Ok(n) => ensure!(negated_fieldwise_eq(&n, &s), "timestamp-since-not-negation", "{ctx}: since = {n:?}"),
        Err(e) => fail!("timestamp-since-err", "{ctx}: since = Err({e})"),
    }
    ensure!(a.duration_until(b).as_nanos() == total && a.duration_since(b).as_nanos() == -total && (b - a).fieldwise() == a.until(b).unwrap().fieldwise(), "timestamp-duration", "{ctx}: duration_until/sub wrong");
    Ok(())
}

// --- Zoned --------------------------------------------------------------------------------------

#[derive(Serialize, Deserialize, Debug, Clone)]
struct ZPair {
    probe: ZoneProbe,
    /// how b is derived from a
    mode: u8,
    days: i32,
    dns: i64,
    largest: u8,
    swap: bool,
}

fn strat_zpair() -> BoxedStrategy<ZPair> {
    let dns = prop_oneof![
        3 => prop_oneof![Just(0i64), Just(1), Just(-1), Just(1_000_000_000), Just(-1_000_000_000), Just(3_600_000_000_000), Just(-3_600_000_000_000), Just(1_800_000_000_000)],
        3 => -7_200_000_000_000i64..=7_200_000_000_000,
        2 => -90_000_000_000_000i64..=90_000_000_000_000,
    ];
    let days = prop_oneof![3 => -3i32..=3, 2 => -400i32..=400, 1 => -40_000i32..=40_000];
    (strat_zone_probe(), 0u8..4, days, dns, 0u8..11, any::<bool>())
        .prop_map(|(probe, mode, days, dns, largest, swap)| ZPair { probe, mode, days, dns, largest, swap })
        .boxed()
}

fn in_fold(z: &zones::Zone, ns: i128) -> bool {
    fold_side(z, ns).is_some()
}

/// Some("earlier") / Some("later") when the instant is inside a fold.
fn fold_side(z: &zones::Zone, ns: i128) -> Option<&'static str> {
    let (loc, off) = rz::local_of(&z.rz, ns);
    match z.rz.resolve(loc.div_euclid(NS_PER_SEC) as i64) {
        Civil::Fold(o1, _) => Some(if off == o1 { "earlier" } else { "later" }),
        _ => None,
    }
}

fn test_zoned(c: &ZPair, cx: &mut Cx) -> CaseResult {
    let (z, an) = crate::props::c03::resolve_probe(zone_universe(), &c.probe);
    // b: same wall clock some days away (+ small delta), or pure elapsed delta
    let bn = match c.mode {
        0 | 1 => {
            let (loc, _) = rz::local_of(&z.rz, an);
            let cb = loc + c.days as i128 * NS_PER_DAY + if c.mode == 1 { c.dns as i128 } else { 0 };
            if cb < crate::props::c04::CIVIL_MIN_NS || cb > crate::props::c04::CIVIL_MAX_NS {
                an
            } else {
                match z.rz.resolve(cb.div_euclid(NS_PER_SEC) as i64) {
                    Civil::Fold(o1, o2) => cb - (if c.swap { o2 } else { o1 }) as i128 * NS_PER_SEC,
                    _ => rz::compatible(&z.rz, cb).unwrap_or(an),
                }
            }
        }
        2 => an + c.dns as i128,
        _ => an + c.days as i128 * NS_PER_DAY + c.dns as i128,
    }
    .clamp(TS_MIN_NS, TS_MAX_NS);
    let (an, bn) = if c.swap && c.mode >= 2 { (bn, an) } else { (an, bn) };
    let a: Zoned = crate::props::c06::mk_zoned(&z, an);
    let b: Zoned = crate::props::c06::mk_zoned(&z, bn);
    let dir = (bn - an).signum();
    let (largest, s) = if c.largest == 10 { (4usize, a.until(&b)) } else { (c.largest as usize, a.until((UNITS[c.largest as usize], &b))) };
    let ctx = format!("[{}] {a}.until({:?}, {b})", z.label, UNITS[largest]);
    let total = bn - an;
    let fold = in_fold(&z, an) || in_fold(&z, bn);
    let crossing = z.rz.lookup(an.div_euclid(NS_PER_SEC) as i64).off != z.rz.lookup(bn.div_euclid(NS_PER_SEC) as i64).off;
    cx.class_if(fold, "a-or-b-in-fold");
    cx.class_if(crossing, "offset-differs");
    cx.class_if(largest <= 3, "largest>=day");
    cx.nt_if(an != bn && (fold || crossing));
    // signature helper: classify the situation for failures
    let (la, _) = rz::local_of(&z.rz, an);
    let (lb, _) = rz::local_of(&z.rz, bn);
    let same_civil_date = la.div_euclid(NS_PER_DAY) == lb.div_euclid(NS_PER_DAY);
    let situ = format!(
        "{}{}{}",
        if largest <= 3 { "largest>=day" } else { "largest<day" },
        match (fold_side(&z, an), fold_side(&z, bn)) {
            (None, None) => String::new(),
            (fa, fb) => format!(":fold(a={},b={})", fa.unwrap_or("no"), fb.unwrap_or("no")),
        },
        if same_civil_date { ":same-civil-date" } else { "" }
    );
    let s = match s {
        Ok(s) => s,
        Err(e) => {
            let overflow = largest == 9 && total.abs() > i64::MAX as i128;
            ensure!(overflow, format!("zoned-until-err:{situ}"), "{ctx} = Err({e}) but {total}ns apart");
            cx.class("documented-overflow-error");
            return Ok(());
        }
    };
    check_structure("zoned", &s, largest, dir, 4).map_err(|mut f| {
        f.sig = format!("{}:{situ}", f.sig);
        f.msg = format!("{ctx}: {}", f.msg);
        f
    })?;
    let back = a.checked_add(s);
    ensure!(
        back.as_ref().ok().map(|x| x.timestamp()) == Some(b.timestamp()),
        format!("zoned-not-reversible:{situ}"),
        "{ctx} = {s:?} but a + s = {:?} (off by {:?}ns)",
        back.as_ref().map(|x| x.to_string()),
        back.as_ref().ok().map(|x| x.timestamp().as_nanosecond() - bn)
    );
    if largest <= 3 {
        let af = rz::civil_parts(la);
        let bf = rz::civil_parts(lb);
        let bdn = (crate::refmodel::refcal::to_days(bf.0, bf.1, bf.2) - 2 * dir as i64).clamp(crate::refmodel::refcal::DAY_MIN, crate::refmodel::refcal::DAY_MAX);
        let badj = crate::refmodel::refcal::from_days(bdn);
        let gap_push = |p: &Span| -> bool {
            // does a.civil + p land in a gap?
            let sp = SpanSpec::from_span(p);
            match crate::refmodel::refarith::datetime_add(rz::civil_parts(la), &sp) {
                Some(c2) => matches!(z.rz.resolve(rz::civil_ns(c2).div_euclid(NS_PER_SEC) as i64), Civil::Gap(..)),
                None => false,
            }
        };
        calendar_overshoot_eq("zoned", &s, largest, dir, (af.0, af.1, af.2, 0), (badj.0, badj.1, badj.2, 0), |p| a.checked_add(p).ok().map(|x| x.timestamp()), b.timestamp(), gap_push).map_err(|mut f| {
            // One listed class (Temporal-conformant wall-clock day counting):
            // the end is the later instant of a fold.
            if fold_side(&z, bn) == Some("later") {
                f.sig = format!("{}:largest>=day:end-is-later-fold-instant", f.sig);
            } else {
                f.sig = format!("{}:{situ}", f.sig);
            }
            f.msg = format!("{ctx}: {}", f.msg);
            f
        })?;
    } else {
        let got = SpanSpec::from_span(&s).time_ns();
        ensure!(got == total, "zoned-total", "{ctx} = {s:?} denotes {got}ns want {total}");
    }
    let since = if c.largest == 10 { a.since(&b) } else { a.since((UNITS[largest], &b)) };
    match since {
        Ok(n) => ensure!(negated_fieldwise_eq(&n, &s), format!("zoned-since-not-negation:{situ}"), "{ctx}: since = {n:?} until = {s:?}"),
        Err(e) => fail!(format!("zoned-since-err:{situ}"), "{ctx}: since = Err({e})"),
    }
    ensure!(a.duration_until(&b).as_nanos() == total && a.duration_since(&b).as_nanos() == -total, "zoned-duration", "{ctx}: duration_until wrong");
    ensure!((&b - &a).fieldwise() == a.until(&b).unwrap().fieldwise(), "zoned-sub-operator", "{ctx}: &b - &a differs from a.until(&b)");
    // differences that take their other end from a larger type (a Date until a Zoned, a Time
    // until a DateTime, ...) use that value's date / time / civil datetime / instant
    {
        fn same(x: &Result<jiff::Span, jiff::Error>, y: &Result<jiff::Span, jiff::Error>) -> bool {
            match (x, y) {
                (Ok(p), Ok(q)) => p.fieldwise() == q.fieldwise(),
                (Err(_), Err(_)) => true,
                _ => false,
            }
        }
        let u = UNITS[largest];
        let (ad, at, adt, ats) = (a.date(), a.time(), a.datetime(), a.timestamp());
        let (bd, bt, bdt, bts) = (b.date(), b.time(), b.datetime(), b.timestamp());
        let mut bad: Vec<&str> = vec![];
        if largest <= 3 {
            let want = ad.until((u, bd));
            if !(same(&want, &ad.until((u, &b))) && same(&want, &ad.until((u, b.clone()))) && same(&want, &ad.until((u, bdt)))) {
                bad.push("Date::until((unit, Zoned | &Zoned | DateTime))");
            }
            let want = ad.since((u, bd));
            if !(same(&want, &ad.since((u, &b))) && same(&want, &ad.since((u, bdt)))) {
                bad.push("Date::since((unit, &Zoned | DateTime))");
            }
        }
        let want = ad.until(bd);
        if !(same(&want, &ad.until(&b)) && same(&want, &ad.until(b.clone())) && same(&want, &ad.until(bdt))) {
            bad.push("Date::until(Zoned | &Zoned | DateTime)");
        }
        if largest >= 4 {
            let want = at.until((u, bt));
            if !(same(&want, &at.until((u, &b))) && same(&want, &at.until((u, b.clone()))) && same(&want, &at.until((u, bdt)))) {
                bad.push("Time::until((unit, Zoned | &Zoned | DateTime))");
            }
            let want = ats.until((u, bts));
            if !(same(&want, &ats.until((u, &b))) && same(&want, &ats.until((u, b.clone())))) {
                bad.push("Timestamp::until((unit, Zoned | &Zoned))");
            }
        }
        let want = at.until(bt);
        if !(same(&want, &at.until(&b)) && same(&want, &at.until(b.clone())) && same(&want, &at.until(bdt)) && same(&at.since(bt), &at.since(&b))) {
            bad.push("Time::until(Zoned | &Zoned | DateTime)");
        }
        let want = ats.until(bts);
        if !(same(&want, &ats.until(&b)) && same(&want, &ats.until(b.clone())) && same(&ats.since(bts), &ats.since(&b))) {
            bad.push("Timestamp::until(Zoned | &Zoned)");
        }
        let want = adt.until((u, bdt));
        if !(same(&want, &adt.until((u, &b))) && same(&want, &adt.until((u, b.clone()))) && same(&adt.since((u, bdt)), &adt.since((u, &b)))) {
            bad.push("DateTime::until((unit, Zoned | &Zoned))");
        }
        let want = adt.until((u, bd.to_datetime(jiff::civil::Time::midnight())));
        if !same(&want, &adt.until((u, bd))) {
            bad.push("DateTime::until((unit, Date))");
        }
        let want = adt.until(bdt);
        if !(same(&want, &adt.until(&b)) && same(&want, &adt.until(b.clone())) && same(&adt.until(bd.to_datetime(jiff::civil::Time::midnight())), &adt.until(bd))) {
            bad.push("DateTime::until(Zoned | &Zoned | Date)");
        }
        ensure!(bad.is_empty(), "difference-cross-type-forms", "{ctx}: these forms differ from the same-type difference: {bad:?}");
    }
    let _ = Timestamp::UNIX_EPOCH;
    Ok(())
}

pub fn property() -> Property {
    let _ = (Date::MIN, zones::pick(0, 1));
    Property {
        id: "C07",
        level: "exploration",
        rule: "proptest-generated ordered pairs per type (Date, DateTime, Time, Timestamp, Zoned in one zone) x every permitted largest unit and the default: dates biased to month ends/leap days/limits and to pairs < 800 days apart; times of day equal, +-1ns/1s apart or arbitrary; zoned pairs built around every zone's transitions (same wall clock k days away, either side of a fold; pure elapsed deltas). Oracle: a + s == b exactly (through jiff's own addition, which C06/C08 decide independently), common sign, nothing above largest, uniform tail balanced, calendar units balanced by 'one more overshoots', since == -until fieldwise, duration_until == exact ns distance, no panic. Non-trivial: a != b and (month-end involved, or time-of-day opposes the date direction, or a/b in a fold, or the offsets of a and b differ).",
        assumptions: &["jiff's own checked_add is the metamorphic carrier (decided by C06/C08)", "Err is accepted only for nanosecond-largest differences beyond i64 (documented)"],
        checks: vec![
            Box::new(Prop { name: "c07.date", quick: 3_200_000, thorough: 30_000_000, strategy: strat_date_pair, test: test_date }),
            Box::new(Prop { name: "c07.datetime", quick: 3_200_000, thorough: 30_000_000, strategy: strat_dt_pair, test: test_datetime }),
            Box::new(Prop { name: "c07.time", quick: 1_600_000, thorough: 10_000_000, strategy: strat_time_pair, test: test_time }),
            Box::new(Prop { name: "c07.timestamp", quick: 1_600_000, thorough: 10_000_000, strategy: strat_ts_pair, test: test_timestamp }),
            Box::new(Prop { name: "c07.zoned", quick: 6_000_000, thorough: 40_000_000, strategy: strat_zpair, test: test_zoned }),
        ],
        floors: |rec| {
            rec.floor("c07.zoned:a-or-b-in-fold", "c07.zoned:cases", 0.05);
            rec.floor("c07.zoned:offset-differs", "c07.zoned:cases", 0.15);
            rec.floor("c07.datetime:time-of-day-opposes-date", "c07.datetime:cases", 0.10);
        },
    }
}
