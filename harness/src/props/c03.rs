//! C03 Offset, DST flag and abbreviation for an instant match the TZ data.

use std::sync::Arc;

use jiff::tz::{Dst, Offset};
use jiff::Timestamp;
use proptest::prelude::*;
use serde::{Deserialize, Serialize};
use serde_json::{json, Value};

use crate::engine::*;
use crate::refmodel::reftz::{self, TS_MAX, TS_MIN};
use crate::refmodel::wide::*;
use crate::zones::{self, Zone};
use crate::{ensure, fail};

#[derive(Serialize, Deserialize, Debug, Clone)]
pub struct ZI {
    pub zone: String,
    pub ns: String,
}

/// jiff documents (PosixDayTime::to_datetime) that it clamps POSIX rule
/// transitions into their own UTC calendar year. For footers whose rule
/// spills over a year boundary (permanent-DST encodings such as
/// `XXX-2<+01>-1,0/0,J365/23`) a failure within 26h of a UTC year boundary
/// gets a signature naming that footer, so that it can be listed as one
/// specific known finding without masking anything else.
pub fn year_spill_suffix(z: &Zone, sec: i64) -> Option<String> {
    let p = z.rz.footer.as_ref()?;
    let in_rule = z.rz.trans.last().map_or(true, |l| sec >= l.0 - 93600);
    if !in_rule || p.is_tame(86400) {
        return None;
    }
    let day = sec.div_euclid(86400);
    let (y, _, _) = crate::refmodel::refcal::from_days(day);
    let ys = crate::refmodel::refcal::jan1(y) * 86400;
    let ye = crate::refmodel::refcal::jan1(y + 1) * 86400;
    if sec - ys < 26 * 3600 || ye - sec <= 26 * 3600 {
        let text = z.rz.footer_text.clone().unwrap_or_else(|| z.label.clone());
        Some(format!("year-spill:{}", text.replace(' ', "_")))
    } else {
        None
    }
}

pub fn check_instant(z: &Zone, ns: i128) -> CaseResult {
    check_instant_inner(z, ns).map_err(|mut f| {
        if let Some(sfx) = year_spill_suffix(z, ns.div_euclid(NS_PER_SEC) as i64) {
            f.msg = format!("[clause {}] {}", f.sig, f.msg);
            f.sig = sfx;
        }
        f
    })
}

fn check_instant_inner(z: &Zone, ns: i128) -> CaseResult {
    let ts = Timestamp::from_nanosecond(ns).unwrap();
    let fl = ns.div_euclid(NS_PER_SEC) as i64;
    let want = z.rz.lookup(fl);
    let info = z.tz.to_offset_info(ts);
    ensure!(
        info.offset().seconds() == want.off,
        "offset",
        "{} at {ts} ({ns}ns): offset {} want {} ({:?})",
        z.label,
        info.offset(),
        want.off,
        want
    );
    ensure!(
        (info.dst() == Dst::Yes) == want.dst && info.dst().is_dst() == want.dst && info.dst().is_std() != want.dst,
        "dst-flag",
        "{} at {ts}: dst {:?} want {}",
        z.label,
        info.dst(),
        want.dst
    );
    if z.label.starts_with("fixed:") || z.label == "utc" {
        // abbreviation of fixed zones is the printed offset; not TZ data
    } else {
        ensure!(
            info.abbreviation() == want.abbr,
            "abbreviation",
            "{} at {ts}: abbreviation {:?} want {:?}",
            z.label,
            info.abbreviation(),
            want.abbr
        );
    }
    let o = z.tz.to_offset(ts);
    ensure!(o.seconds() == want.off, "to-offset", "{} at {ts}: to_offset {} want {}", z.label, o, want.off);
    let woff = Offset::from_seconds(want.off).unwrap();
    let dt = z.tz.to_datetime(ts);
    ensure!(dt == woff.to_datetime(ts), "to-datetime", "{} at {ts}: to_datetime {dt} want {}", z.label, woff.to_datetime(ts));
    let zd = ts.to_zoned(z.tz.clone());
    ensure!(
        zd.offset().seconds() == want.off && zd.datetime() == dt && zd.timestamp() == ts,
        "to-zoned",
        "{} at {ts}: to_zoned gives offset {} datetime {}",
        z.label,
        zd.offset(),
        zd.datetime()
    );
    // the same three facts as strftime reports them (%z, %:z, %Z)
    {
        let a = want.off.abs();
        let sgn = if want.off < 0 { '-' } else { '+' };
        let (z1, z2) = if a % 60 != 0 {
            (format!("{sgn}{:02}{:02}{:02}", a / 3600, a / 60 % 60, a % 60), format!("{sgn}{:02}:{:02}:{:02}", a / 3600, a / 60 % 60, a % 60))
        } else {
            (format!("{sgn}{:02}{:02}", a / 3600, a / 60 % 60), format!("{sgn}{:02}:{:02}", a / 3600, a / 60 % 60))
        };
        let got = zd.strftime("%z|%:z").to_string();
        ensure!(got == format!("{z1}|{z2}"), "strftime-offset", "{} at {ts}: strftime(%z|%:z) = {got:?} want \"{z1}|{z2}\"", z.label);
        if !(z.label.starts_with("fixed:") || z.label == "utc") {
            let got = zd.strftime("%Z").to_string();
            ensure!(got == want.abbr, "strftime-abbreviation", "{} at {ts}: strftime(%Z) = {got:?} want {:?}", z.label, want.abbr);
        }
    }
    Ok(())
}

fn replay_zi(v: Value) -> CaseResult {
    let c: ZI = serde_json::from_value(v).map_err(|e| Failure::new("decode", e.to_string()))?;
    let z = zones::by_label(&c.zone).ok_or_else(|| Failure::new("decode", format!("unknown zone {}", c.zone)))?;
    check_instant(&z, c.ns.parse().map_err(|_| Failure::new("decode", "ns"))?)
}

pub const DELTAS_NS: [i128; 8] = [-NS_PER_SEC, -NS_PER_SEC / 2, -1, 0, 1, NS_PER_SEC / 2, NS_PER_SEC, -NS_PER_SEC - 1];

fn sweep_zones(rec: &Recorder, check: &'static str, zs: &[Arc<Zone>], dense_to: i64) {
    par_chunks(rec.opts.threads, zs.len() as u64, |r| {
        let mut evals = 0u64;
        let (mut pre1970_frac, mut rule, mut before_first, mut near) = (0u64, 0u64, 0u64, 0u64);
        for i in r {
            let z = &zs[i as usize];
            let probes = if dense_to > 2045 { zones::make_probes(&z.rz, dense_to) } else { z.probes.clone() };
            let first = z.rz.trans.first().map(|t| t.0);
            let last = z.rz.trans.last().map(|t| t.0);
            let mut sm = SplitMix::from(rec.opts.seed, &z.label, 0);
            let mut instants: Vec<i128> = vec![TS_MIN_NS, TS_MIN_NS + 1, TS_MAX_NS, TS_MAX_NS - 1, 0, -1, 1];
            for &t in &probes {
                for d in DELTAS_NS {
                    instants.push(t as i128 * NS_PER_SEC + d);
                }
            }
            for _ in 0..64 {
                instants.push(sm.range(TS_MIN, TS_MAX) as i128 * NS_PER_SEC + sm.range(0, 999_999_999) as i128);
            }
            if let Some(f) = first {
                for _ in 0..8 {
                    instants.push(sm.range(TS_MIN, f.max(TS_MIN + 1) - 1) as i128 * NS_PER_SEC + sm.range(0, 999_999_999) as i128);
                }
            }
            for ns in instants {
                if ns < TS_MIN_NS || ns > TS_MAX_NS {
                    continue;
                }
                evals += 1;
                near += 1;
                let fl = ns.div_euclid(NS_PER_SEC) as i64;
                if ns < 0 && ns % NS_PER_SEC != 0 {
                    pre1970_frac += 1;
                }
                if last.map_or(true, |l| fl >= l) {
                    rule += 1;
                }
                if first.map_or(false, |f| fl < f) {
                    before_first += 1;
                }
                let case = ZI { zone: z.label.clone(), ns: ns.to_string() };
                sweep_case(rec, check, &case, || check_instant(z, ns));
            }
        }
        rec.add_evaluations(evals);
        rec.add_distinct_nontrivial(near);
        rec.add_class(&format!("{check}:probes"), evals);
        rec.add_class(&format!("{check}:pre-1970-fractional"), pre1970_frac);
        rec.add_class(&format!("{check}:rule-territory"), rule);
        rec.add_class(&format!("{check}:before-first-transition"), before_first);
    });
}

fn run_installed(rec: &Recorder, check: &'static str) {
    let set = zones::installed();
    rec.note("installed_zones", json!(set.zones.len()));
    rec.note("installed_skipped", json!(set.skipped));
    let dense = if rec.tier() == Tier::Thorough { 2500 } else { 2045 };
    sweep_zones(rec, check, &set.zones, dense);
    rec.add_sample(json!({"check": check, "case": {"zone": "file:Africa/Accra", "ns": "-1709337548877000000"}}));
}

fn run_bundled(rec: &Recorder, check: &'static str) {
    let set = zones::bundled();
    rec.note("bundled_zones", json!(set.zones.len()));
    rec.note("bundled_skipped", json!(set.skipped));
    let dense = if rec.tier() == Tier::Thorough { 2500 } else { 2045 };
    sweep_zones(rec, check, &set.zones, dense);
}

fn run_synthetic(rec: &Recorder, check: &'static str) {
    let mut zs: Vec<Arc<Zone>> = zones::synthetic().zones.clone();
    zs.extend(zones::posix_zones().iter().cloned());
    for &o in zones::FIXED_OFFSETS {
        zs.push(zones::by_label(&format!("fixed:{o}")).unwrap());
    }
    zs.push(zones::by_label("utc").unwrap());
    rec.note("synthetic_zones", json!(zs.len()));
    // all rule years for these few zones
    sweep_zones(rec, check, &zs, if rec.tier() == Tier::Thorough { 9999 } else { 2500 });
}

// --- generated: (zone, transition-relative or random instant) --------------------

#[derive(Serialize, Deserialize, Debug, Clone)]
pub struct ZoneProbe {
    pub zone_sel: u16,
    pub trans_sel: u16,
    pub mode: u8,
    pub delta_ns: i64,
    pub raw: i64,
    pub sub: u32,
}

pub fn strat_zone_probe() -> BoxedStrategy<ZoneProbe> {
    let delta = prop_oneof![
        4 => prop_oneof![Just(0i64), Just(-1), Just(1), Just(-500_000_000), Just(-1_000_000_000), Just(1_000_000_000), Just(-999_999_999)],
        2 => -2_000_000_000i64..=2_000_000_000,
        2 => -172_800_000_000_000i64..=172_800_000_000_000,
    ];
    (any::<u16>(), any::<u16>(), 0u8..10, delta, TS_MIN..=TS_MAX, 0u32..1_000_000_000)
        .prop_map(|(zone_sel, trans_sel, mode, delta_ns, raw, sub)| ZoneProbe { zone_sel, trans_sel, mode, delta_ns, raw, sub })
        .boxed()
}

/// Resolve a probe to (zone, instant ns).
pub fn resolve_probe(zs: &[Arc<Zone>], p: &ZoneProbe) -> (Arc<Zone>, i128) {
    let z = zs[zones::pick(p.zone_sel, zs.len())].clone();
    let ns = if p.mode < 7 && !z.probes.is_empty() {
        let t = z.probes[zones::pick(p.trans_sel, z.probes.len())];
        t as i128 * NS_PER_SEC + p.delta_ns as i128
    } else if p.mode == 7 {
        // a rule transition of an arbitrary year
        let y = -9999 + (p.trans_sel as i64 * 19999 >> 16);
        let mut t = None;
        if let Some(fp) = &z.rz.footer {
            let last = z.rz.trans.last().map(|x| x.0).unwrap_or(TS_MIN);
            let tr = fp.year_transitions(y);
            if !tr.is_empty() {
                let c = tr[(p.sub % 2) as usize].0;
                if c > last {
                    t = Some(c);
                }
            }
        }
        match t {
            Some(t) => t as i128 * NS_PER_SEC + p.delta_ns as i128,
            None => p.raw as i128 * NS_PER_SEC + p.sub as i128,
        }
    } else {
        p.raw as i128 * NS_PER_SEC + p.sub as i128
    };
    (z, ns.clamp(TS_MIN_NS, TS_MAX_NS))
}

fn universe_all() -> &'static Vec<Arc<Zone>> {
    static U: std::sync::OnceLock<Vec<Arc<Zone>>> = std::sync::OnceLock::new();
    U.get_or_init(|| zones::universe(true))
}

fn test_generated(p: &ZoneProbe, cx: &mut Cx) -> CaseResult {
    let (z, ns) = resolve_probe(universe_all(), p);
    let fl = ns.div_euclid(NS_PER_SEC) as i64;
    let near = z.rz.transitions_between(fl - 1, fl + 2).len() > 0;
    let last = z.rz.trans.last().map(|t| t.0);
    cx.nt_if(near || last.map_or(true, |l| fl >= l) || z.rz.trans.first().map_or(false, |f| fl < f.0));
    cx.class_if(near, "within-1s-of-transition");
    cx.class_if(ns < 0 && ns % NS_PER_SEC != 0 && near, "pre-1970-fractional-near");
    cx.class_if(last.map_or(true, |l| fl >= l), "rule-territory");
    check_instant(&z, ns).map_err(|mut f| {
        f.msg = format!("[zone={} ns={ns}] {}", z.label, f.msg);
        f
    })
}

// --- generated POSIX TZ strings ----------------------------------------------------

#[derive(Serialize, Deserialize, Debug, Clone)]
pub struct PosixCase {
    pub tz: String,
    pub year: i64,
    pub which: u8,
    pub delta_ns: i64,
}

fn fmt_hms(secs: i32, force_sign: bool) -> String {
    let sign = if secs < 0 { "-" } else if force_sign { "+" } else { "" };
    let a = secs.abs();
    let (h, m, s) = (a / 3600, a / 60 % 60, a % 60);
    if s != 0 {
        format!("{sign}{h}:{m:02}:{s:02}")
    } else if m != 0 {
        format!("{sign}{h}:{m:02}")
    } else {
        format!("{sign}{h}")
    }
}

pub fn strat_posix_string() -> BoxedStrategy<String> {
    let abbr = prop_oneof![
        "[A-Z]{3,6}".prop_map(|s| s),
        "[+-][0-9]{2,4}".prop_map(|s| format!("<{s}>")),
        "[A-Za-z0-9]{3,8}".prop_map(|s| format!("<{s}>")),
    ];
    let off = prop_oneof![
        3 => (-24i32..=24).prop_map(|h| h * 3600),
        2 => (-24 * 60 + 1..24 * 60).prop_map(|m: i32| m * 60),
        1 => -86399i32..=86399,
        // whole hours plus a few seconds (h:00:ss)
        1 => ((-23i32..=23), 1i32..60).prop_map(|(h, s)| h * 3600 + if h < 0 { -s } else { s }),
    ];
    let save = prop_oneof![4 => Just(3600i32), 1 => Just(1800), 1 => Just(-3600), 1 => Just(7200), 1 => Just(2700), 1 => Just(1200), 1 => -7200i32..=7200];
    let day = prop_oneof![
        4 => (1i32..=12, 1i32..=5, 0i32..=6).prop_map(|(m, w, d)| format!("M{m}.{w}.{d}")),
        1 => (1i32..=365).prop_map(|n| format!("J{n}")),
        1 => (0i32..=365).prop_map(|n| format!("{n}")),
    ];
    let time = prop_oneof![
        2 => Just(None),
        3 => (0i32..=26 * 3600).prop_map(|t| Some(t / 1800 * 1800)),
        1 => (-167 * 3600i32..=167 * 3600).prop_map(Some),
        1 => (-3i32 * 3600..=27 * 3600).prop_map(Some),
    ];
    let general = (abbr.clone(), off.clone(), prop::option::weighted(0.85, (abbr.clone(), prop::option::of(save.clone()), day.clone(), time.clone(), day.clone(), time.clone())));
    // both transitions at the same instant: same day, end time = start time + saving
    let zero_len = (abbr.clone(), (-12i32..=12).prop_map(|h| h * 3600), abbr.clone(), prop_oneof![Just(3600i32), Just(1800), Just(7200)], prop_oneof![(3i32..=10, 1i32..=4, 0i32..=6).prop_map(|(m, w, d)| format!("M{m}.{w}.{d}")), (40i32..=320).prop_map(|n| format!("J{n}"))], (1i32..=20).prop_map(|h| h * 3600))
        .prop_map(|(sa, so, da, sv, day, t1)| format!("{sa}{}{da}{},{day}/{},{day}/{}", fmt_hms(-so, false), fmt_hms(-(so + sv), false), fmt_hms(t1, false), fmt_hms(t1 + sv, false)));
    let general = general
        .prop_map(|(sa, so, dst)| {
            // POSIX offsets are positive west of Greenwich
            let mut s = format!("{sa}{}", fmt_hms(-so, false));
            if let Some((da, save, d1, t1, d2, t2)) = dst {
                s.push_str(&da);
                if let Some(sv) = save {
                    let dof = (so + sv).clamp(-89999, 89999);
                    s.push_str(&fmt_hms(-dof, false));
                }
                s.push(',');
                s.push_str(&d1);
                if let Some(t) = t1 {
                    s.push('/');
                    s.push_str(&fmt_hms(t, false));
                }
                s.push(',');
                s.push_str(&d2);
                if let Some(t) = t2 {
                    s.push('/');
                    s.push_str(&fmt_hms(t, false));
                }
            }
            s
        });
    prop_oneof![12 => general, 1 => zero_len].boxed()
}

fn strat_posix_case() -> BoxedStrategy<PosixCase> {
    let delta = prop_oneof![
        4 => prop_oneof![Just(0i64), Just(-1), Just(1), Just(-500_000_000), Just(-1_000_000_000), Just(1_000_000_000)],
        2 => -90_000_000_000_000i64..=90_000_000_000_000,
    ];
    let year = prop_oneof![3 => 1900i64..=2100, 2 => -9998i64..=9998, 1 => prop_oneof![Just(-9998i64), Just(9998), Just(0), Just(1), Just(-1), Just(1970), Just(1969)]];
    (strat_posix_string(), year, 0u8..2, delta).prop_map(|(tz, year, which, delta_ns)| PosixCase { tz, year, which, delta_ns }).boxed()
}

fn test_posix(c: &PosixCase, cx: &mut Cx) -> CaseResult {
    let Some(p) = reftz::parse_posix(&c.tz) else {
        cx.tolerate("ref-rejects");
        return Ok(());
    };
    // jiff must accept what the grammar (and the reference) accepts, unless
    // the offset is outside jiff's documented +-25:59:59.
    let tz = match jiff::tz::TimeZone::posix(&c.tz) {
        Ok(tz) => tz,
        Err(e) => {
            let big = p.std.off.abs() > 93599 || p.rule.as_ref().map_or(false, |r| r.dst.off.abs() > 93599);
            if big {
                cx.tolerate("offset-beyond-jiff-range");
                return Ok(());
            }
            fail!("posix-rejects-valid", "TimeZone::posix({:?}) = Err({e})", c.tz);
        }
    };
    let tame = p.is_tame(8 * 86400);
    // A daylight period of zero length (both transitions at the same instant, well inside the
    // year) is not a clamping matter: the data prescribes standard time at every instant.
    let zero_length = p.rule.is_some()
        // in every kind of year (1996..=2023 holds all 14 combinations of leap year and
        // weekday of January 1st) and in the years around the probe: a rule that is zero-length
        // in some years only changes shape from year to year and belongs to the unjudged class
        && (1996i64..=2023).chain([c.year - 1, c.year, c.year + 1]).all(|y| {
            let tr = p.year_transitions(y);
            let (ys, ye) = (crate::refmodel::refcal::jan1(y) * 86400, crate::refmodel::refcal::jan1(y + 1) * 86400);
            tr.len() == 2 && tr[0].0 == tr[1].0 && tr[0].0 - 200_000 > ys && tr[0].0 + 200_000 < ye
        });
    cx.class_if(zero_length, "zero-length-daylight-period");
    if !tame && !zero_length {
        // year-spilling / degenerate rule: jiff documents that it clamps
        // rule transitions into their calendar year. Counted, not judged.
        cx.tolerate("year-spilling-rule");
        return Ok(());
    }
    cx.class("tame");
    let z = Zone {
        label: format!("posix:{}", c.tz),
        tz,
        rz: reftz::RefZone::posix_only(p.clone()),
        bytes: None,
        probes: vec![],
        has_footer: true,
        explicit: 0,
    };
    let tr = p.year_transitions(c.year);
    let ns = if tr.is_empty() {
        crate::refmodel::refcal::jan1(c.year) as i128 * NS_PER_DAY + c.delta_ns as i128
    } else {
        tr[c.which as usize].0 as i128 * NS_PER_SEC + c.delta_ns as i128
    };
    if ns < TS_MIN_NS || ns > TS_MAX_NS {
        cx.tolerate("instant-out-of-range");
        return Ok(());
    }
    cx.nt_if(!tr.is_empty() && c.delta_ns.abs() <= 1_000_000_000);
    cx.class_if(p.rule.as_ref().map_or(false, |r| r.dst.off < p.std.off), "negative-dst");
    check_instant(&z, ns)
}

// --- TZif files without any transition: the footer governs every instant ---------------------------

#[derive(Serialize, Deserialize, Debug, Clone)]
struct NoTransCase {
    rule_sel: u16,
    /// local time types in the file: 0 = [std], 1 = [std, dst], 2 = ["-00" placeholder, std, dst],
    /// 3 = [std, dst, an unused third type]
    shape: u8,
    year: i64,
    which: u8,
    delta_ns: i64,
}

fn strat_no_trans() -> BoxedStrategy<NoTransCase> {
    let delta = prop_oneof![
        4 => prop_oneof![Just(0i64), Just(-1), Just(1), Just(-500_000_000), Just(-1_000_000_000), Just(1_000_000_000)],
        2 => -90_000_000_000_000i64..=90_000_000_000_000,
    ];
    let year = prop_oneof![3 => 1900i64..=2100, 2 => -9998i64..=9998, 1 => prop_oneof![Just(-9998i64), Just(9998), Just(1970), Just(1969)]];
    (any::<u16>(), 0u8..4, year, 0u8..2, delta).prop_map(|(rule_sel, shape, year, which, delta_ns)| NoTransCase { rule_sel, shape, year, which, delta_ns }).boxed()
}

fn test_no_trans(c: &NoTransCase, cx: &mut Cx) -> CaseResult {
    let rules: Vec<&str> = zones::POSIX_STRINGS.iter().copied().collect();
    let rule = rules[zones::pick(c.rule_sel, rules.len())];
    let Some(p) = reftz::parse_posix(rule) else { return Ok(()) };
    if !p.is_tame(8 * 86400) {
        cx.tolerate("year-spilling-rule");
        return Ok(());
    }
    let mut types: Vec<(String, i32, bool)> = vec![];
    if c.shape == 2 {
        types.push(("-00".to_string(), 0, false));
    }
    types.push((p.std.abbr.clone(), p.std.off, false));
    if let (Some(r), true) = (&p.rule, c.shape >= 1) {
        types.push((r.dst.abbr.clone(), r.dst.off, true));
    }
    if c.shape == 3 {
        types.push(("XTRA".to_string(), 4321, false));
    }
    let bytes = crate::tzfiles::build_tzif(&types, &[], rule);
    let rz = reftz::parse_tzif(&bytes).ok_or_else(|| Failure::new("HARNESS-PANIC", "generated TZif does not parse in the reference reader"))?;
    let tz = match jiff::tz::TimeZone::tzif("Verif/NoTransitions", &bytes) {
        Ok(tz) => tz,
        Err(e) => fail!("tzif-rejects-well-formed", "a TZif file without transitions, types {types:?} and footer {rule:?} is refused: {e}"),
    };
    let southern = p.rule.as_ref().map_or(false, |_| p.lookup(crate::refmodel::refcal::jan1(2001) * 86400 + 86400 * 10).dst);
    cx.class_if(southern, "daylight-time-in-january");
    cx.class_if(p.rule.is_some(), "footer-with-rule");
    let z = Zone { label: format!("notrans:{rule}"), tz, rz, bytes: None, probes: vec![], has_footer: true, explicit: 0 };
    let tr = p.year_transitions(c.year);
    let ns = if tr.is_empty() {
        crate::refmodel::refcal::jan1(c.year) as i128 * NS_PER_DAY + c.delta_ns as i128
    } else {
        tr[c.which as usize % tr.len()].0 as i128 * NS_PER_SEC + c.delta_ns as i128
    };
    if ns <= TS_MIN_NS || ns > TS_MAX_NS {
        cx.tolerate("instant-out-of-range");
        return Ok(());
    }
    cx.nt_if(!tr.is_empty() && c.delta_ns.abs() <= 1_000_000_000);
    check_instant(&z, ns)
}

pub fn property() -> Property {
    Property {
        id: "C03",
        level: "exploration",
        rule: "For every installed TZif file (incl. posix/ and right/, deduplicated by content), every bundled jiff-tzdb zone, the committed synthetic zic zones (slim and fat), a list of POSIX TZ strings and fixed offsets: every recorded transition T and every rule-generated transition of the sampled rule years is probed at T-1s-1ns, T-1s, T-0.5s, T-1ns, T, T+1ns, T+0.5s, T+1s, plus the range limits and seed-derived random instants; proptest adds (zone, transition, delta) cases over the whole universe, rule transitions of arbitrary years, and generated POSIX TZ strings. Oracle: independent RFC 8536 + POSIX reader (reftz.rs) on the same bytes. Sweep probes are distinct by construction (zones are deduplicated by content); generated cases count as non-trivial when within 1s of a transition, in rule territory, or before the first transition.",
        assumptions: &[
            "reftz.rs implements RFC 8536 (type 0 before the first transition, footer after the last) and POSIX TZ per local rule year",
            "transition times outside jiff's timestamp range are clamped into it, as jiff documents",
            "files whose footer contradicts their last transition (RFC 8536 MUST) are excluded and counted",
            "generated POSIX rules are restricted to the 'tame' class (transitions >= 8 days inside the year): jiff documents year-clamping of rule transitions; other rules are counted as year-spilling-rule and not judged",
        ],
        checks: vec![
            Box::new(Sweep { name: "c03.installed", run: run_installed, replay: replay_zi }),
            Box::new(Sweep { name: "c03.bundled", run: run_bundled, replay: replay_zi }),
            Box::new(Sweep { name: "c03.synthetic", run: run_synthetic, replay: replay_zi }),
            Box::new(Prop { name: "c03.generated", quick: 2_400_000, thorough: 30_000_000, strategy: strat_zone_probe, test: test_generated }),
            Box::new(Prop { name: "c03.posix_gen", quick: 1_200_000, thorough: 10_000_000, strategy: strat_posix_case, test: test_posix }),
            Box::new(Prop { name: "c03.no_transitions", quick: 200_000, thorough: 4_000_000, strategy: strat_no_trans, test: test_no_trans }),
        ],
        floors: |rec| {
            rec.floor("c03.generated:within-1s-of-transition", "c03.generated:cases", 0.30);
            rec.floor("c03.generated:rule-territory", "c03.generated:cases", 0.05);
            rec.floor("c03.posix_gen:tame", "c03.posix_gen:cases", 0.30);
            rec.floor("c03.no_transitions:daylight-time-in-january", "c03.no_transitions:cases", 0.10);
        },
    }
}
