use crate::engine::Property;

pub mod c01;

pub fn all() -> Vec<Property> {
    vec![c01::property()]
}
