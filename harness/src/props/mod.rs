use crate::engine::Property;

pub mod c01;
pub mod c02;
pub mod c03;
pub mod c04;
pub mod c05;
pub mod c06;
pub mod c07;
pub mod c08;
pub mod c09;
pub mod c10;
pub mod c11;
pub mod c12;
pub mod c13;
pub mod c14;
pub mod c15;
pub mod c16;
pub mod c17;
pub mod c18;
pub mod c19;
pub mod c20;

pub fn all() -> Vec<Property> {
    vec![c01::property(), c02::property(), c03::property(), c04::property(), c05::property(), c06::property(), c07::property(), c08::property(), c09::property(), c10::property(), c11::property(), c12::property(), c13::property(), c14::property(), c15::property(), c16::property(), c17::property(), c18::property(), c19::property(), c20::property()]
}
