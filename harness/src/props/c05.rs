//! C05 Fallible operations return errors: no panics, no out-of-range results, identical in
//! builds with and without debug assertions.
//!
//! One *API table*: every row is a public `Result`-returning operation (plus the series
//! iterators the statement names) applied to arguments taken from one shared, limit-biased
//! argument record. A case = (row, arguments). The case is evaluated
//!   (i)  in this process (profile `dbg`: optimised, debug assertions and overflow checks on),
//!   (ii) in a child process running the `rel` build of the *same* harness (assertions off),
//!        over a pipe (one JSON line per case, one answer line back),
//! and must not panic in either, must give an in-range value (checked while still inside the
//! panic guard, because an out-of-range ranged integer may only blow up on first use), and the
//! two answers must be textually identical. Whether Ok or Err is *right* is C06..C12's business.

use std::cell::{Cell, RefCell};
use std::io::{BufRead, BufReader, Write};
use std::process::{Child, ChildStdin, ChildStdout, Command, Stdio};
use std::sync::Arc;

use jiff::civil::{
    Date, DateDifference, DateTime, DateTimeDifference, DateTimeRound, Era, ISOWeekDate, Time, TimeDifference, TimeRound, Weekday,
};
use jiff::tz::{Disambiguation, Offset, OffsetConflict, OffsetRound, TimeZone};
use jiff::{
    Error, RoundMode, SignedDuration, SignedDurationRound, Span, SpanRelativeTo, SpanRound, Timestamp, TimestampDifference, TimestampRound, Unit, Zoned,
    ZonedDifference, ZonedRound,
};
use proptest::prelude::*;
use serde::{Deserialize, Serialize};
use serde_json::{json, Value};

use crate::engine::*;
use crate::gen::{self, SpanSpec, SPAN_LIMITS};
use crate::props::c07::UNITS;
use crate::refmodel::refcal;
use crate::refmodel::wide::*;
use crate::zones::{self, Zone};
use crate::fail;

// --- arguments ----------------------------------------------------------------------------------

#[derive(Serialize, Deserialize, Debug, Clone)]
pub struct Args {
    d1: (i16, i8, i8),
    d2: (i16, i8, i8),
    t1: i64,
    t2: i64,
    ts1: TsSpec,
    ts2: TsSpec,
    z1: u16,
    z2: u16,
    sp1: SpanSpec,
    sp2: SpanSpec,
    du1: (i64, i32),
    off1: i32,
    off2: i32,
    u1: u8,
    u2: u8,
    mode: u8,
    incr: i64,
    y: i16,
    b: [i8; 5],
    h: i16,
    w: i32,
    n1: i64,
    #[serde(with = "i128_str")]
    big: i128,
    f: u64,
    wd: u8,
    sel: u8,
    rel: u8,
}

/// A timestamp: either absolute nanoseconds or "probe `probe` of zone z1, plus delta ns".
#[derive(Serialize, Deserialize, Debug, Clone)]
pub struct TsSpec {
    #[serde(with = "i128_str")]
    ns: i128,
    probe: Option<(u16, i64)>,
}

/// i128 does not fit JSON numbers: decimal strings
mod i128_str {
    use serde::{Deserialize, Deserializer, Serializer};
    pub fn serialize<S: Serializer>(v: &i128, s: S) -> Result<S::Ok, S::Error> {
        s.serialize_str(&v.to_string())
    }
    pub fn deserialize<'de, D: Deserializer<'de>>(d: D) -> Result<i128, D::Error> {
        let s = String::deserialize(d)?;
        s.parse().map_err(serde::de::Error::custom)
    }
}

#[derive(Serialize, Deserialize, Debug, Clone)]
pub struct Case {
    row: u16,
    a: Args,
}

fn c05_zones() -> &'static Vec<Arc<Zone>> {
    static Z: std::sync::OnceLock<Vec<Arc<Zone>>> = std::sync::OnceLock::new();
    Z.get_or_init(|| {
        let mut v = zones::featured();
        v.insert(0, zones::by_label("utc").unwrap());
        v
    })
}

/// Argument view with touch tracking (for the non-triviality rule).
struct A<'a> {
    a: &'a Args,
    touched_limit: Cell<bool>,
}

const DAY_NS: i64 = 86_400_000_000_000;

impl<'a> A<'a> {
    fn lim(&self, c: bool) {
        if c {
            self.touched_limit.set(true);
        }
    }
    fn date(&self, v: (i16, i8, i8)) -> Date {
        self.lim(v.0 <= -9998 || v.0 >= 9998);
        gen::mk_date(v.0, v.1, v.2)
    }
    fn d1(&self) -> Date {
        self.date(self.a.d1)
    }
    fn d2(&self) -> Date {
        self.date(self.a.d2)
    }
    fn time(&self, ns: i64) -> Time {
        self.lim(ns <= 1 || ns >= DAY_NS - 2);
        gen::mk_time(ns)
    }
    fn t1(&self) -> Time {
        self.time(self.a.t1)
    }
    fn t2(&self) -> Time {
        self.time(self.a.t2)
    }
    fn dt1(&self) -> DateTime {
        DateTime::from_parts(self.d1(), self.t1())
    }
    fn dt2(&self) -> DateTime {
        DateTime::from_parts(self.d2(), self.t2())
    }
    fn zone(&self, sel: u16) -> &'static Arc<Zone> {
        let z = c05_zones();
        &z[zones::pick(sel, z.len())]
    }
    fn tz1(&self) -> TimeZone {
        self.zone(self.a.z1).tz.clone()
    }
    fn tz2(&self) -> TimeZone {
        self.zone(self.a.z2).tz.clone()
    }
    fn ts(&self, s: &TsSpec, zsel: u16) -> Timestamp {
        let ns = match s.probe {
            Some((p, delta)) => {
                let z = self.zone(zsel);
                if z.probes.is_empty() {
                    s.ns
                } else {
                    (z.probes[zones::pick(p, z.probes.len())] as i128 * NS_PER_SEC + delta as i128).clamp(TS_MIN_NS, TS_MAX_NS)
                }
            }
            None => s.ns,
        };
        self.lim(ns - TS_MIN_NS < 2 * NS_PER_DAY || TS_MAX_NS - ns < 2 * NS_PER_DAY);
        gen::mk_ts(ns)
    }
    fn ts1(&self) -> Timestamp {
        self.ts(&self.a.ts1, self.a.z1)
    }
    fn ts2(&self) -> Timestamp {
        self.ts(&self.a.ts2, self.a.z2)
    }
    fn zd1(&self) -> Zoned {
        self.ts1().to_zoned(self.tz1())
    }
    /// second zoned: same zone as the first for even selectors (so calendar units are allowed)
    fn zd2(&self) -> Zoned {
        if self.a.sel % 2 == 0 {
            self.ts(&self.a.ts2, self.a.z1).to_zoned(self.tz1())
        } else {
            self.ts2().to_zoned(self.tz2())
        }
    }
    fn span(&self, s: &SpanSpec) -> Span {
        self.lim((0..10).any(|i| s.u[i] >= SPAN_LIMITS[i] - 1));
        s.to_span()
    }
    fn sp1(&self) -> Span {
        self.span(&self.a.sp1)
    }
    fn sp2(&self) -> Span {
        self.span(&self.a.sp2)
    }
    fn du1(&self) -> SignedDuration {
        let (s, n) = self.a.du1;
        self.lim(s <= i64::MIN + 1 || s >= i64::MAX - 1);
        // (|n| < 10^9 here, so `new` never has to carry past the limits, which would panic as
        // documented; MIN with negative nanos and MAX with positive nanos are the extreme values)
        SignedDuration::new(s, n)
    }
    fn udur(&self) -> std::time::Duration {
        let (s, n) = self.a.du1;
        self.lim(s <= i64::MIN + 1 || s >= i64::MAX - 1);
        std::time::Duration::new(s.unsigned_abs(), n.unsigned_abs())
    }
    fn off(&self, v: i32) -> Offset {
        self.lim(v.abs() >= 93598);
        Offset::from_seconds(v).expect("generator offset")
    }
    fn off1(&self) -> Offset {
        self.off(self.a.off1)
    }
    fn off2(&self) -> Offset {
        self.off(self.a.off2)
    }
    fn u1(&self) -> Unit {
        UNITS[self.a.u1 as usize % 10]
    }
    fn u2(&self) -> Unit {
        UNITS[self.a.u2 as usize % 10]
    }
    fn mode(&self) -> RoundMode {
        MODES[self.a.mode as usize % 9].to_jiff()
    }
    fn incr(&self) -> i64 {
        let v = self.a.incr;
        self.lim(v <= 0 || v == i64::MAX);
        v
    }
    fn y(&self) -> i16 {
        self.lim(self.a.y.unsigned_abs() >= 9998);
        self.a.y
    }
    fn b(&self, i: usize) -> i8 {
        let v = self.a.b[i];
        self.lim(v == i8::MIN || v == i8::MAX || v == 0);
        v
    }
    fn h(&self) -> i16 {
        let v = self.a.h;
        self.lim(v == i16::MIN || v == i16::MAX);
        v
    }
    fn w(&self) -> i32 {
        let v = self.a.w;
        self.lim(v == i32::MIN || v == i32::MAX);
        v
    }
    fn n1(&self) -> i64 {
        let v = self.a.n1;
        self.lim(v <= i64::MIN + 1 || v >= i64::MAX - 1);
        v
    }
    fn big(&self) -> i128 {
        let v = self.a.big;
        self.lim(v <= TS_MIN_NS + 1 || v >= TS_MAX_NS - 1);
        v
    }
    fn f(&self) -> f64 {
        let v = f64::from_bits(self.a.f);
        self.lim(!v.is_finite() || v.abs() >= 9.2e18);
        v
    }
    fn wd(&self) -> Weekday {
        Weekday::from_monday_zero_offset((self.a.wd % 7) as i8).unwrap()
    }
    fn tzname(&self) -> &'static str {
        ["UTC", "America/New_York", "Australia/Lord_Howe", "Pacific/Apia", "Europe/London", "america/new_york", "no/such_zone", ""][(self.a.sel >> 2) as usize % 8]
    }
    fn sel(&self) -> u8 {
        self.a.sel
    }
    fn era(&self) -> Era {
        if self.a.sel & 4 == 0 {
            Era::CE
        } else {
            Era::BCE
        }
    }
    fn disambiguation(&self) -> Disambiguation {
        match self.a.sel >> 3 & 3 {
            0 => Disambiguation::Compatible,
            1 => Disambiguation::Earlier,
            2 => Disambiguation::Later,
            _ => Disambiguation::Reject,
        }
    }
    fn conflict(&self) -> OffsetConflict {
        match self.a.sel >> 5 & 3 {
            0 => OffsetConflict::AlwaysOffset,
            1 => OffsetConflict::AlwaysTimeZone,
            2 => OffsetConflict::PreferOffset,
            _ => OffsetConflict::Reject,
        }
    }
    /// `f` is called with the relative-to choice of this case.
    fn with_rel<R>(&self, f: impl FnOnce(Option<SpanRelativeTo<'_>>) -> R) -> R {
        match self.a.rel % 5 {
            0 => f(None),
            1 => f(Some(SpanRelativeTo::from(self.d1()))),
            2 => f(Some(SpanRelativeTo::from(self.dt1()))),
            3 => {
                let z = self.zd1();
                f(Some(SpanRelativeTo::from(&z)))
            }
            _ => f(Some(SpanRelativeTo::days_are_24_hours())),
        }
    }
}

// --- showing results (with the range predicates) ------------------------------------------------

/// Marker put in front of an answer whose value is outside its type's documented range.
const BAD: &str = "RANGE!";

fn chk_date(d: Date) -> Result<String, String> {
    let (y, m, dd) = (d.year() as i64, d.month() as i64, d.day() as i64);
    if !(-9999..=9999).contains(&y) || !(1..=12).contains(&m) || dd < 1 || dd > refcal::days_in_month(y, m) {
        return Err(format!("date fields {y}-{m}-{dd}"));
    }
    if d < Date::MIN || d > Date::MAX {
        return Err(format!("date {y}-{m}-{dd} outside MIN..=MAX"));
    }
    let s = d.to_string();
    match s.parse::<Date>() {
        Ok(p) if p == d => Ok(s),
        other => Err(format!("date prints as {s:?} which parses to {other:?}")),
    }
}

fn chk_time(t: Time) -> Result<String, String> {
    let (h, m, s, n) = (t.hour(), t.minute(), t.second(), t.subsec_nanosecond());
    if !(0..24).contains(&h) || !(0..60).contains(&m) || !(0..60).contains(&s) || !(0..1_000_000_000).contains(&n) {
        return Err(format!("time fields {h}:{m}:{s}.{n}"));
    }
    if t < Time::MIN || t > Time::MAX {
        return Err("time outside MIN..=MAX".into());
    }
    let txt = t.to_string();
    match txt.parse::<Time>() {
        Ok(p) if p == t => Ok(txt),
        other => Err(format!("time prints as {txt:?} which parses to {other:?}")),
    }
}

fn chk_dt(dt: DateTime) -> Result<String, String> {
    if dt < DateTime::MIN || dt > DateTime::MAX {
        return Err("datetime outside MIN..=MAX".into());
    }
    Ok(format!("{}T{}", chk_date(dt.date())?, chk_time(dt.time())?))
}

fn chk_ts(ts: Timestamp) -> Result<String, String> {
    gen::ts_sane(ts)?;
    if ts < Timestamp::MIN || ts > Timestamp::MAX {
        return Err("timestamp outside MIN..=MAX".into());
    }
    let txt = ts.to_string();
    match txt.parse::<Timestamp>() {
        Ok(p) if p == ts => Ok(format!("{}ns", ts.as_nanosecond())),
        other => Err(format!("timestamp prints as {txt:?} which parses to {other:?}")),
    }
}

fn chk_off(o: Offset) -> Result<String, String> {
    let s = o.seconds();
    if !(-93599..=93599).contains(&s) || o < Offset::MIN || o > Offset::MAX {
        return Err(format!("offset {s}s outside MIN..=MAX"));
    }
    Ok(format!("{s}s"))
}

fn chk_zoned(z: &Zoned) -> Result<String, String> {
    let ts = chk_ts(z.timestamp())?;
    let off = chk_off(z.offset())?;
    let dt = chk_dt(z.datetime())?;
    // the three views of a Zoned must agree: civil = instant + offset
    let civil_ns = z.timestamp().as_nanosecond() + z.offset().seconds() as i128 * NS_PER_SEC;
    let d = z.datetime();
    let days = refcal::to_days(d.year() as i64, d.month() as i64, d.day() as i64) as i128;
    let tod = d.hour() as i128 * 3600 * NS_PER_SEC + d.minute() as i128 * 60 * NS_PER_SEC + d.second() as i128 * NS_PER_SEC + d.subsec_nanosecond() as i128;
    if days * NS_PER_DAY + tod != civil_ns {
        return Err(format!("zoned views disagree: instant {ts} offset {off} civil {dt}"));
    }
    if z.time_zone().to_offset(z.timestamp()) != z.offset() {
        return Err(format!("zoned offset {off} is not its zone's offset at {ts}"));
    }
    Ok(format!("{ts} {off} {dt}"))
}

fn chk_span(s: &Span) -> Result<String, String> {
    let u = [
        s.get_years() as i64,
        s.get_months() as i64,
        s.get_weeks() as i64,
        s.get_days() as i64,
        s.get_hours() as i64,
        s.get_minutes(),
        s.get_seconds(),
        s.get_milliseconds(),
        s.get_microseconds(),
        s.get_nanoseconds(),
    ];
    for i in 0..10 {
        if u[i].unsigned_abs() > SPAN_LIMITS[i] as u64 {
            return Err(format!("span unit {i} = {} exceeds its limit {}", u[i], SPAN_LIMITS[i]));
        }
    }
    let (pos, neg) = (u.iter().any(|&v| v > 0), u.iter().any(|&v| v < 0));
    if pos && neg {
        return Err(format!("span has units of both signs: {u:?}"));
    }
    let want_sign = if pos { 1 } else if neg { -1 } else { 0 };
    if s.signum() as i32 != want_sign || s.is_zero() != (want_sign == 0) || s.is_negative() != (want_sign < 0) {
        return Err(format!("span sign {} disagrees with its units {u:?}", s.signum()));
    }
    // (no print/parse canary here: the ISO form folds sub-second units into seconds, so it is
    // not field-preserving; C15 owns that round trip)
    Ok(format!("{}y{}mo{}w{}d{}h{}m{}s{}ms{}us{}ns", u[0], u[1], u[2], u[3], u[4], u[5], u[6], u[7], u[8], u[9]))
}

fn chk_sdur(d: SignedDuration) -> Result<String, String> {
    let (s, n) = (d.as_secs(), d.subsec_nanos());
    if n.abs() >= 1_000_000_000 || (s > 0 && n < 0) || (s < 0 && n > 0) {
        return Err(format!("duration fields secs={s} nanos={n}"));
    }
    Ok(format!("{s}s{n}ns"))
}

trait Show {
    fn show(&self) -> Result<String, String>;
}
macro_rules! show_via {
    ($t:ty, $f:expr) => {
        impl Show for $t {
            fn show(&self) -> Result<String, String> {
                $f(self)
            }
        }
    };
}
show_via!(Date, |d: &Date| chk_date(*d));
show_via!(Time, |d: &Time| chk_time(*d));
show_via!(DateTime, |d: &DateTime| chk_dt(*d));
show_via!(Timestamp, |d: &Timestamp| chk_ts(*d));
show_via!(Zoned, |d: &Zoned| chk_zoned(d));
show_via!(Span, |d: &Span| chk_span(d));
show_via!(SignedDuration, |d: &SignedDuration| chk_sdur(*d));
show_via!(Offset, |d: &Offset| chk_off(*d));
show_via!(std::cmp::Ordering, |d: &std::cmp::Ordering| Ok::<_, String>(format!("{d:?}")));
show_via!(Weekday, |d: &Weekday| {
    let n = d.to_monday_zero_offset();
    if (0..7).contains(&n) {
        Ok(format!("{d:?}"))
    } else {
        Err(format!("weekday offset {n}"))
    }
});
show_via!(f64, |d: &f64| if d.is_nan() { Err::<String, _>("total is NaN".to_string()) } else { Ok(format!("{:016x}", d.to_bits())) });
show_via!(ISOWeekDate, |d: &ISOWeekDate| {
    let (y, w) = (d.year(), d.week());
    if !(-9999..=9999).contains(&y) || !(1..=53).contains(&w) {
        return Err(format!("iso week date {y}-W{w}"));
    }
    Ok(format!("{y}-W{w}-{:?} = {}", d.weekday(), chk_date(d.date())?))
});
show_via!(std::time::Duration, |d: &std::time::Duration| Ok::<_, String>(format!("{}s{}ns", d.as_secs(), d.subsec_nanos())));

fn res<T: Show>(r: Result<T, Error>) -> String {
    match r {
        Ok(v) => match v.show() {
            Ok(s) => format!("ok {s}"),
            Err(e) => format!("{BAD} {e}"),
        },
        Err(_) => "err".into(),
    }
}

fn val<T: Show>(v: T) -> String {
    res(Ok(v))
}

fn series<T: Show>(it: impl Iterator<Item = T>) -> String {
    let mut out = String::from("series");
    for v in it.take(4) {
        match v.show() {
            Ok(s) => {
                out.push(' ');
                out.push_str(&s);
            }
            Err(e) => return format!("{BAD} {e}"),
        }
    }
    out
}

// --- the API table ------------------------------------------------------------------------------

pub struct Row {
    name: &'static str,
    call: fn(&A) -> String,
}

macro_rules! rows {
    ($( $name:literal => |$a:ident| $body:expr ),* $(,)?) => {
        &[ $( Row { name: $name, call: |$a: &A| -> String { $body } } ),* ]
    };
}

fn date_diff(a: &A) -> DateDifference {
    let mut d = DateDifference::new(a.d2());
    if a.sel() & 1 == 0 {
        d = d.smallest(a.u1()).largest(a.u2()).mode(a.mode()).increment(a.incr());
    } else {
        d = d.largest(a.u2());
    }
    d
}
fn time_diff(a: &A) -> TimeDifference {
    let mut d = TimeDifference::new(a.t2());
    if a.sel() & 1 == 0 {
        d = d.smallest(a.u1()).largest(a.u2()).mode(a.mode()).increment(a.incr());
    } else {
        d = d.largest(a.u2());
    }
    d
}
fn dt_diff(a: &A) -> DateTimeDifference {
    let mut d = DateTimeDifference::new(a.dt2());
    if a.sel() & 1 == 0 {
        d = d.smallest(a.u1()).largest(a.u2()).mode(a.mode()).increment(a.incr());
    } else {
        d = d.largest(a.u2());
    }
    d
}
fn ts_diff(a: &A) -> TimestampDifference {
    let mut d = TimestampDifference::new(a.ts2());
    if a.sel() & 1 == 0 {
        d = d.smallest(a.u1()).largest(a.u2()).mode(a.mode()).increment(a.incr());
    } else {
        d = d.largest(a.u2());
    }
    d
}

pub static ROWS: &[Row] = rows![
    // ---- civil::Date
    "Date::new" => |a| res(Date::new(a.y(), a.b(0), a.b(1))),
    "Date::checked_add(Span)" => |a| res(a.d1().checked_add(a.sp1())),
    "Date::checked_sub(Span)" => |a| res(a.d1().checked_sub(a.sp1())),
    "Date::checked_add(SignedDuration)" => |a| res(a.d1().checked_add(a.du1())),
    "Date::checked_sub(SignedDuration)" => |a| res(a.d1().checked_sub(a.du1())),
    "Date::checked_add(Duration)" => |a| res(a.d1().checked_add(a.udur())),
    "Date::checked_sub(Duration)" => |a| res(a.d1().checked_sub(a.udur())),
    "Date::until" => |a| res(a.d1().until(date_diff(a))),
    "Date::since" => |a| res(a.d1().since(date_diff(a))),
    "Date::until(DateTime)" => |a| res(a.d1().until((a.u2(), a.dt2()))),
    "Date::nth_weekday_of_month" => |a| res(a.d1().nth_weekday_of_month(a.b(0), a.wd())),
    "Date::nth_weekday" => |a| res(a.d1().nth_weekday(a.w(), a.wd())),
    "Date::tomorrow" => |a| res(a.d1().tomorrow()),
    "Date::yesterday" => |a| res(a.d1().yesterday()),
    "DateWith::year" => |a| res(a.d1().with().year(a.y()).build()),
    "DateWith::month" => |a| res(a.d1().with().month(a.b(0)).build()),
    "DateWith::day" => |a| res(a.d1().with().day(a.b(0)).build()),
    "DateWith::year.month.day" => |a| res(a.d1().with().year(a.y()).month(a.b(0)).day(a.b(1)).build()),
    "DateWith::day_of_year" => |a| res(a.d1().with().day_of_year(a.h()).build()),
    "DateWith::day_of_year_no_leap" => |a| res(a.d1().with().day_of_year_no_leap(a.h()).build()),
    "DateWith::era_year" => |a| res(a.d1().with().era_year(a.y(), a.era()).build()),
    "DateWith::year.day_of_year" => |a| res(a.d1().with().year(a.y()).day_of_year(a.h()).build()),
    "Date::to_zoned" => |a| res(a.d1().to_zoned(a.tz1())),
    "ISOWeekDate::new" => |a| res(ISOWeekDate::new(a.y(), a.b(0), a.wd())),
    "Date::iso_week_date" => |a| val(a.d1().iso_week_date()),
    "Date::series" => |a| series(a.d1().series(a.sp1())),
    "ISOWeekDate::first_of_week" => |a| res(a.d1().iso_week_date().first_of_week()),
    "ISOWeekDate::last_of_week" => |a| res(a.d1().iso_week_date().last_of_week()),
    "ISOWeekDate::first_of_year" => |a| res(a.d1().iso_week_date().first_of_year()),
    "ISOWeekDate::last_of_year" => |a| res(a.d1().iso_week_date().last_of_year()),
    "ISOWeekDate::tomorrow" => |a| res(a.d1().iso_week_date().tomorrow()),
    "ISOWeekDate::yesterday" => |a| res(a.d1().iso_week_date().yesterday()),
    // ---- civil::Time
    "Time::new" => |a| res(Time::new(a.b(0), a.b(1), a.b(2), a.w())),
    "Time::checked_add(Span)" => |a| res(a.t1().checked_add(a.sp1())),
    "Time::checked_sub(Span)" => |a| res(a.t1().checked_sub(a.sp1())),
    "Time::checked_add(SignedDuration)" => |a| res(a.t1().checked_add(a.du1())),
    "Time::checked_sub(SignedDuration)" => |a| res(a.t1().checked_sub(a.du1())),
    "Time::checked_add(Duration)" => |a| res(a.t1().checked_add(a.udur())),
    "Time::checked_sub(Duration)" => |a| res(a.t1().checked_sub(a.udur())),
    "Time::until" => |a| res(a.t1().until(time_diff(a))),
    "Time::since" => |a| res(a.t1().since(time_diff(a))),
    "Time::round" => |a| res(a.t1().round(TimeRound::new().smallest(a.u1()).mode(a.mode()).increment(a.incr()))),
    "TimeWith::hms" => |a| res(a.t1().with().hour(a.b(0)).minute(a.b(1)).second(a.b(2)).build()),
    "TimeWith::milli.micro.nano" => |a| res(a.t1().with().millisecond(a.h()).microsecond((a.w() >> 8) as i16).nanosecond((a.w() >> 4) as i16).build()),
    "TimeWith::subsec_nanosecond" => |a| res(a.t1().with().subsec_nanosecond(a.w()).build()),
    "TimeWith::milli+subsec" => |a| res(a.t1().with().millisecond(a.h()).subsec_nanosecond(a.w()).build()),
    "Time::series" => |a| series(a.t1().series(a.sp1())),
    // ---- civil::DateTime
    "DateTime::new" => |a| res(DateTime::new(a.y(), a.b(0), a.b(1), a.b(2), a.b(3), a.b(4), a.w())),
    "DateTime::checked_add(Span)" => |a| res(a.dt1().checked_add(a.sp1())),
    "DateTime::checked_sub(Span)" => |a| res(a.dt1().checked_sub(a.sp1())),
    "DateTime::checked_add(SignedDuration)" => |a| res(a.dt1().checked_add(a.du1())),
    "DateTime::checked_sub(SignedDuration)" => |a| res(a.dt1().checked_sub(a.du1())),
    "DateTime::checked_add(Duration)" => |a| res(a.dt1().checked_add(a.udur())),
    "DateTime::checked_sub(Duration)" => |a| res(a.dt1().checked_sub(a.udur())),
    "DateTime::until" => |a| res(a.dt1().until(dt_diff(a))),
    "DateTime::since" => |a| res(a.dt1().since(dt_diff(a))),
    "DateTime::until(Date)" => |a| res(a.dt1().until((a.u2(), a.d2()))),
    "DateTime::round" => |a| res(a.dt1().round(DateTimeRound::new().smallest(a.u1()).mode(a.mode()).increment(a.incr()))),
    "DateTimeWith::date.time" => |a| res(a.dt1().with().date(a.d2()).time(a.t2()).build()),
    "DateTimeWith::ymd" => |a| res(a.dt1().with().year(a.y()).month(a.b(0)).day(a.b(1)).build()),
    "DateTimeWith::hms" => |a| res(a.dt1().with().hour(a.b(2)).minute(a.b(3)).second(a.b(4)).subsec_nanosecond(a.w()).build()),
    "DateTimeWith::day_of_year" => |a| res(a.dt1().with().day_of_year(a.h()).build()),
    "DateTimeWith::day_of_year_no_leap" => |a| res(a.dt1().with().day_of_year_no_leap(a.h()).build()),
    "DateTimeWith::era_year" => |a| res(a.dt1().with().era_year(a.y(), a.era()).build()),
    "DateTimeWith::milli.micro.nano" => |a| res(a.dt1().with().millisecond(a.h()).microsecond((a.w() >> 8) as i16).nanosecond((a.w() >> 4) as i16).build()),
    "DateTime::nth_weekday_of_month" => |a| res(a.dt1().nth_weekday_of_month(a.b(0), a.wd())),
    "DateTime::nth_weekday" => |a| res(a.dt1().nth_weekday(a.w(), a.wd())),
    "DateTime::tomorrow" => |a| res(a.dt1().tomorrow()),
    "DateTime::yesterday" => |a| res(a.dt1().yesterday()),
    "DateTime::to_zoned" => |a| res(a.dt1().to_zoned(a.tz1())),
    "DateTime::series" => |a| series(a.dt1().series(a.sp1())),
    // ---- TimeZone: civil -> instant
    "TimeZone::to_zoned" => |a| res(a.tz1().to_zoned(a.dt1())),
    "TimeZone::to_timestamp" => |a| res(a.tz1().to_timestamp(a.dt1())),
    "TimeZone::to_ambiguous_zoned.disambiguate" => |a| res(a.tz1().to_ambiguous_zoned(a.dt1()).disambiguate(a.disambiguation())),
    "TimeZone::to_ambiguous_timestamp.disambiguate" => |a| res(a.tz1().to_ambiguous_timestamp(a.dt1()).disambiguate(a.disambiguation())),
    "TimeZone::to_ambiguous_zoned(local of ts)" => |a| {
        // a civil datetime that exists (or nearly) in the zone: the local time of a probe instant
        let dt = a.tz1().to_datetime(a.ts1());
        res(a.tz1().to_ambiguous_zoned(dt).disambiguate(a.disambiguation()))
    },
    "TimeZone::to_datetime" => |a| val(a.tz1().to_datetime(a.ts1())),
    "TimeZone::to_offset" => |a| val(a.tz1().to_offset(a.ts1())),
    "Offset::to_timestamp" => |a| res(a.off1().to_timestamp(a.dt1())),
    "Offset::to_datetime" => |a| val(a.off1().to_datetime(a.ts1())),
    "OffsetConflict::resolve" => |a| res(a.conflict().resolve(a.dt1(), a.off1(), a.tz1()).and_then(|amb| amb.disambiguate(a.disambiguation()))),
    "OffsetConflict::resolve(zone offset)" => |a| {
        let z = a.zd1();
        res(a.conflict().resolve(z.datetime(), z.offset(), a.tz1()).and_then(|amb| amb.disambiguate(a.disambiguation())))
    },
    // ---- Timestamp
    "Timestamp::new" => |a| res(Timestamp::new(a.n1(), a.w())),
    "Timestamp::from_second" => |a| res(Timestamp::from_second(a.n1())),
    "Timestamp::from_millisecond" => |a| res(Timestamp::from_millisecond(a.n1())),
    "Timestamp::from_microsecond" => |a| res(Timestamp::from_microsecond(a.n1())),
    "Timestamp::from_nanosecond" => |a| res(Timestamp::from_nanosecond(a.big())),
    "Timestamp::from_duration" => |a| res(Timestamp::from_duration(a.du1())),
    "Timestamp::try_from(SystemTime)" => |a| {
        let d = a.udur();
        let st = if a.sel() & 1 == 0 { std::time::UNIX_EPOCH.checked_add(d) } else { std::time::UNIX_EPOCH.checked_sub(d) };
        match st {
            Some(st) => res(Timestamp::try_from(st)),
            None => "n/a".into(),
        }
    },
    "Timestamp::checked_add(Span)" => |a| res(a.ts1().checked_add(a.sp1())),
    "Timestamp::checked_sub(Span)" => |a| res(a.ts1().checked_sub(a.sp1())),
    "Timestamp::checked_add(SignedDuration)" => |a| res(a.ts1().checked_add(a.du1())),
    "Timestamp::checked_sub(SignedDuration)" => |a| res(a.ts1().checked_sub(a.du1())),
    "Timestamp::checked_add(Duration)" => |a| res(a.ts1().checked_add(a.udur())),
    "Timestamp::checked_sub(Duration)" => |a| res(a.ts1().checked_sub(a.udur())),
    "Timestamp::saturating_add(Span)" => |a| res(a.ts1().saturating_add(a.sp1())),
    "Timestamp::saturating_sub(Span)" => |a| res(a.ts1().saturating_sub(a.sp1())),
    "Timestamp::saturating_add(SignedDuration)" => |a| res(a.ts1().saturating_add(a.du1())),
    "Timestamp::saturating_sub(SignedDuration)" => |a| res(a.ts1().saturating_sub(a.du1())),
    "Timestamp::until" => |a| res(a.ts1().until(ts_diff(a))),
    "Timestamp::since" => |a| res(a.ts1().since(ts_diff(a))),
    "Timestamp::until(Zoned)" => |a| res(a.ts1().until((a.u2(), a.zd2()))),
    "Timestamp::round" => |a| res(a.ts1().round(TimestampRound::new().smallest(a.u1()).mode(a.mode()).increment(a.incr()))),
    "Timestamp::duration_until" => |a| val(a.ts1().duration_until(a.ts2())),
    "Timestamp::series" => |a| series(a.ts1().series(a.sp1())),
    // ---- Zoned
    "Zoned::checked_add(Span)" => |a| res(a.zd1().checked_add(a.sp1())),
    "Zoned::checked_sub(Span)" => |a| res(a.zd1().checked_sub(a.sp1())),
    "Zoned::checked_add(SignedDuration)" => |a| res(a.zd1().checked_add(a.du1())),
    "Zoned::checked_sub(SignedDuration)" => |a| res(a.zd1().checked_sub(a.du1())),
    "Zoned::checked_add(Duration)" => |a| res(a.zd1().checked_add(a.udur())),
    "Zoned::checked_sub(Duration)" => |a| res(a.zd1().checked_sub(a.udur())),
    "Zoned::saturating_add(Span)" => |a| val(a.zd1().saturating_add(a.sp1())),
    "Zoned::saturating_sub(Span)" => |a| val(a.zd1().saturating_sub(a.sp1())),
    "Zoned::saturating_add(SignedDuration)" => |a| val(a.zd1().saturating_add(a.du1())),
    "Zoned::saturating_sub(SignedDuration)" => |a| val(a.zd1().saturating_sub(a.du1())),
    "Zoned::until" => |a| {
        let z2 = a.zd2();
        let mut d = ZonedDifference::new(&z2);
        if a.sel() & 16 == 0 {
            d = d.smallest(a.u1()).largest(a.u2()).mode(a.mode()).increment(a.incr());
        } else {
            d = d.largest(a.u2());
        }
        res(a.zd1().until(d))
    },
    "Zoned::since" => |a| {
        let z2 = a.zd2();
        let mut d = ZonedDifference::new(&z2);
        if a.sel() & 16 == 0 {
            d = d.smallest(a.u1()).largest(a.u2()).mode(a.mode()).increment(a.incr());
        } else {
            d = d.largest(a.u2());
        }
        res(a.zd1().since(d))
    },
    "Zoned::round" => |a| res(a.zd1().round(ZonedRound::new().smallest(a.u1()).mode(a.mode()).increment(a.incr()))),
    "Zoned::start_of_day" => |a| res(a.zd1().start_of_day()),
    "Zoned::end_of_day" => |a| res(a.zd1().end_of_day()),
    "Zoned::tomorrow" => |a| res(a.zd1().tomorrow()),
    "Zoned::yesterday" => |a| res(a.zd1().yesterday()),
    "Zoned::first_of_month" => |a| res(a.zd1().first_of_month()),
    "Zoned::last_of_month" => |a| res(a.zd1().last_of_month()),
    "Zoned::first_of_year" => |a| res(a.zd1().first_of_year()),
    "Zoned::last_of_year" => |a| res(a.zd1().last_of_year()),
    "Zoned::nth_weekday_of_month" => |a| res(a.zd1().nth_weekday_of_month(a.b(0), a.wd())),
    "Zoned::nth_weekday" => |a| res(a.zd1().nth_weekday(a.w(), a.wd())),
    "ZonedWith::date" => |a| res(a.zd1().with().date(a.d2()).disambiguation(a.disambiguation()).build()),
    "ZonedWith::time" => |a| res(a.zd1().with().time(a.t2()).disambiguation(a.disambiguation()).build()),
    "ZonedWith::ymd" => |a| res(a.zd1().with().year(a.y()).month(a.b(0)).day(a.b(1)).build()),
    "ZonedWith::hms" => |a| res(a.zd1().with().hour(a.b(2)).minute(a.b(3)).second(a.b(4)).subsec_nanosecond(a.w()).build()),
    "ZonedWith::day_of_year" => |a| res(a.zd1().with().day_of_year(a.h()).build()),
    "ZonedWith::era_year" => |a| res(a.zd1().with().era_year(a.y(), a.era()).build()),
    "ZonedWith::offset" => |a| res(a.zd1().with().offset(a.off1()).offset_conflict(a.conflict()).disambiguation(a.disambiguation()).build()),
    "ZonedWith::time.offset" => |a| res(a.zd1().with().time(a.t2()).offset(a.off1()).offset_conflict(a.conflict()).disambiguation(a.disambiguation()).build()),
    "Zoned::with_time_zone" => |a| val(a.zd1().with_time_zone(a.tz2())),
    "Zoned::duration_until" => |a| val(a.zd1().duration_until(&a.zd2())),
    // ---- lookups by name in the global database (/usr/share/zoneinfo; deterministic here)
    "Date::in_tz" => |a| res(a.d1().in_tz(a.tzname())),
    "DateTime::in_tz" => |a| res(a.dt1().in_tz(a.tzname())),
    "Timestamp::in_tz" => |a| res(a.ts1().in_tz(a.tzname())),
    "Zoned::in_tz" => |a| res(a.zd1().in_tz(a.tzname())),
    // ---- Span
    "Span::try_years" => |a| res(Span::new().try_years(a.n1())),
    "Span::try_months" => |a| res(Span::new().try_months(a.n1())),
    "Span::try_weeks" => |a| res(Span::new().try_weeks(a.n1())),
    "Span::try_days" => |a| res(Span::new().try_days(a.n1())),
    "Span::try_hours" => |a| res(Span::new().try_hours(a.n1())),
    "Span::try_minutes" => |a| res(Span::new().try_minutes(a.n1())),
    "Span::try_seconds" => |a| res(Span::new().try_seconds(a.n1())),
    "Span::try_milliseconds" => |a| res(Span::new().try_milliseconds(a.n1())),
    "Span::try_microseconds" => |a| res(Span::new().try_microseconds(a.n1())),
    "Span::try_nanoseconds" => |a| res(Span::new().try_nanoseconds(a.n1())),
    "Span::checked_mul" => |a| res(a.sp1().checked_mul(a.n1())),
    "Span::checked_mul(small)" => |a| res(a.sp1().checked_mul(a.b(0) as i64)),
    "Span::checked_add(Span)" => |a| a.with_rel(|r| match r {
        None => res(a.sp1().checked_add(a.sp2())),
        Some(r) => res(a.sp1().checked_add((a.sp2(), r))),
    }),
    "Span::checked_sub(Span)" => |a| a.with_rel(|r| match r {
        None => res(a.sp1().checked_sub(a.sp2())),
        Some(r) => res(a.sp1().checked_sub((a.sp2(), r))),
    }),
    "Span::checked_add(SignedDuration)" => |a| match a.a.rel % 4 {
        0 => res(a.sp1().checked_add(a.du1())),
        1 => res(a.sp1().checked_add((a.du1(), a.d1()))),
        2 => res(a.sp1().checked_add((a.du1(), a.dt1()))),
        _ => res(a.sp1().checked_add((a.du1(), &a.zd1()))),
    },
    "Span::checked_sub(Duration)" => |a| match a.a.rel % 4 {
        0 => res(a.sp1().checked_sub(a.udur())),
        1 => res(a.sp1().checked_sub((a.udur(), a.d1()))),
        2 => res(a.sp1().checked_sub((a.udur(), a.dt1()))),
        _ => res(a.sp1().checked_sub((a.udur(), &a.zd1()))),
    },
    "Span::round" => |a| a.with_rel(|r| {
        let mut o = SpanRound::new().smallest(a.u1()).mode(a.mode()).increment(a.incr());
        if a.sel() & 1 == 0 {
            o = o.largest(a.u2());
        }
        if let Some(r) = r {
            o = o.relative(r);
        }
        res(a.sp1().round(o))
    }),
    "Span::round(largest only)" => |a| a.with_rel(|r| {
        let mut o = SpanRound::new().largest(a.u2());
        if let Some(r) = r {
            o = o.relative(r);
        }
        res(a.sp1().round(o))
    }),
    "Span::total" => |a| a.with_rel(|r| match r {
        None => res(a.sp1().total(a.u1())),
        Some(r) => res(a.sp1().total((a.u1(), r))),
    }),
    "Span::compare" => |a| a.with_rel(|r| match r {
        None => res(a.sp1().compare(a.sp2())),
        Some(r) => res(a.sp1().compare((a.sp2(), r))),
    }),
    "Span::to_duration" => |a| a.with_rel(|r| match r {
        None => res(SignedDuration::try_from(a.sp1())),
        Some(r) => res(a.sp1().to_duration(r)),
    }),
    "Duration::try_from(Span)" => |a| res(std::time::Duration::try_from(a.sp1())),
    "SignedDuration::system_until" => |a| {
        let d = a.udur();
        let (t1, t2) = if a.sel() & 1 == 0 { (std::time::UNIX_EPOCH.checked_add(d), std::time::UNIX_EPOCH.checked_sub(d)) } else { (std::time::UNIX_EPOCH.checked_sub(d), std::time::UNIX_EPOCH.checked_add(d)) };
        match (t1, t2) {
            (Some(t1), Some(t2)) => res(SignedDuration::system_until(t1, t2)),
            _ => "n/a".into(),
        }
    },
    "Zoned::try_from(SystemTime)" => |a| {
        let d = a.udur();
        let st = if a.sel() & 1 == 0 { std::time::UNIX_EPOCH.checked_add(d) } else { std::time::UNIX_EPOCH.checked_sub(d) };
        match st {
            // (the system time zone is whatever this machine has; only totality and range are judged,
            // both builds see the same configuration)
            Some(st) => res(Zoned::try_from(st).map(|z| z.timestamp())),
            None => "n/a".into(),
        }
    },
    "Span::try_from(SignedDuration)" => |a| res(Span::try_from(a.du1())),
    "Span::try_from(Duration)" => |a| res(Span::try_from(a.udur())),
    // ---- time zones from data: a real TZif file with one field pushed to (or just past) what
    // its header allows; Ok zones are then queried, so an index accepted too eagerly shows up
    "TimeZone::tzif(type index at the table end)" => |a| {
        let Some(bytes) = a.zone(a.a.z1).bytes.clone() else { return "err".into() };
        let mut b: Vec<u8> = (*bytes).clone();
        let rd = |b: &[u8], o: usize| -> usize { b.get(o..o + 4).map_or(0, |x| u32::from_be_bytes([x[0], x[1], x[2], x[3]]) as usize) };
        if b.len() < 44 {
            return "err".into();
        }
        let (utc, std_, leap, time, typ, chr) = (rd(&b, 20), rd(&b, 24), rd(&b, 28), rd(&b, 32), rd(&b, 36), rd(&b, 40));
        let second = a.sel() % 2 == 1 && b[4] >= b'2';
        let (base, tsize, time, typ) = if second {
            let h2 = 44 + time * 5 + typ * 6 + chr + leap * 8 + std_ + utc;
            if b.len() < h2 + 44 {
                return "err".into();
            }
            (h2 + 44, 8usize, rd(&b, h2 + 32), rd(&b, h2 + 36))
        } else {
            (44usize, 4usize, time, typ)
        };
        if time == 0 {
            return "err".into();
        }
        let k = (a.big().unsigned_abs() % time as u128) as usize;
        let pos = base + time * tsize + k;
        if pos >= b.len() {
            return "err".into();
        }
        b[pos] = (typ as i64 + (a.b(0) as i64).rem_euclid(3) - 1).clamp(0, 255) as u8;
        match TimeZone::tzif("Verif/Mutated", &b) {
            Err(_) => "err".into(),
            Ok(tz) => {
                let ts = a.ts1();
                let o = tz.to_offset(ts);
                let dt = tz.to_datetime(ts);
                let amb = tz.to_ambiguous_timestamp(dt);
                let next = tz.following(ts).next().map(|t| t.offset().seconds());
                let prev = tz.preceding(ts).next().map(|t| t.offset().seconds());
                format!("ok {} {dt} {:?} {next:?} {prev:?}", o.seconds(), amb.offset())
            }
        }
    },
    // ---- text -> value (FromStr returns a Result like any other constructor): unit values up
    // to the limits of i64, where the unit conversions inside the parsers can overflow
    "SignedDuration::from_str(ISO hours)" => |a| res(format!("{}PT{}H", if a.n1() < 0 { "-" } else { "" }, a.n1().unsigned_abs()).parse::<SignedDuration>()),
    "SignedDuration::from_str(ISO minutes)" => |a| res(format!("{}PT{}M", if a.n1() < 0 { "-" } else { "" }, a.n1().unsigned_abs()).parse::<SignedDuration>()),
    "SignedDuration::from_str(ISO seconds)" => |a| res(format!("{}PT{}.{:09}S", if a.n1() < 0 { "-" } else { "" }, a.n1().unsigned_abs(), a.w().unsigned_abs() % 1_000_000_000).parse::<SignedDuration>()),
    "SignedDuration::from_str(ISO h m s)" => |a| res(format!("{}PT{}H{}M{}S", if a.n1() < 0 { "-" } else { "" }, a.n1().unsigned_abs(), a.incr().unsigned_abs(), a.w().unsigned_abs()).parse::<SignedDuration>()),
    "SignedDuration::from_str(friendly)" => |a| res(format!("{}h {}m {}s {}ms {}us {}ns{}", a.n1().unsigned_abs(), a.incr().unsigned_abs(), a.w().unsigned_abs(), a.h().unsigned_abs(), a.y().unsigned_abs(), a.b(0).unsigned_abs(), if a.n1() < 0 { " ago" } else { "" }).parse::<SignedDuration>()),
    "SignedDuration::from_str(friendly fraction)" => |a| res(format!("{}.{:09}{}", a.n1().unsigned_abs(), a.w().unsigned_abs() % 1_000_000_000, ["h", "m", "s", "ms", "us"][(a.sel() % 5) as usize]).parse::<SignedDuration>()),
    "Span::from_str(ISO)" => |a| res(format!("{}P{}Y{}M{}W{}DT{}H{}M{}S", if a.n1() < 0 { "-" } else { "" }, a.y().unsigned_abs(), a.h().unsigned_abs(), a.b(0).unsigned_abs(), a.w().unsigned_abs(), a.n1().unsigned_abs(), a.incr().unsigned_abs(), a.b(1).unsigned_abs()).parse::<Span>()),
    "Span::from_str(ISO hours)" => |a| res(format!("PT{}H", a.n1().unsigned_abs()).parse::<Span>()),
    "Span::from_str(friendly)" => |a| res(format!("{}y {}mo {}w {}d {}h {}m {}s {}ms {}us {}ns", a.y().unsigned_abs(), a.h().unsigned_abs(), a.b(0).unsigned_abs(), a.w().unsigned_abs(), a.n1().unsigned_abs(), a.incr().unsigned_abs(), a.b(1).unsigned_abs(), a.b(2).unsigned_abs(), a.b(3).unsigned_abs(), a.b(4).unsigned_abs()).parse::<Span>()),
    "Span::from_str(friendly fraction)" => |a| res(format!("{}.{:09}{}", a.n1().unsigned_abs(), a.w().unsigned_abs() % 1_000_000_000, ["h", "m", "s", "ms", "us"][(a.sel() % 5) as usize]).parse::<Span>()),
    "Timestamp::from_str(fields)" => |a| res(format!("{:04}-{:02}-{:02}T{:02}:{:02}:{:02}.{:09}{}{:02}:{:02}", a.y(), a.b(0), a.b(1), a.b(2), a.b(3), a.b(4), a.w().unsigned_abs() % 1_000_000_000, if a.h() < 0 { "-" } else { "+" }, a.h().unsigned_abs() % 100, a.sel() % 60).parse::<Timestamp>()),
    "Date::from_str(fields)" => |a| res(format!("{}{:04}-{:02}-{:02}", if a.y() < 0 { "-00" } else { "" }, a.y().unsigned_abs(), a.b(0), a.b(1)).parse::<Date>()),
    // ---- SignedDuration
    "SignedDuration::round" => |a| res(a.du1().round(SignedDurationRound::new().smallest(a.u1()).mode(a.mode()).increment(a.incr()))),
    "SignedDuration::try_from_secs_f64" => |a| res(SignedDuration::try_from_secs_f64(a.f())),
    "SignedDuration::try_from_secs_f32" => |a| res(SignedDuration::try_from_secs_f32(a.f() as f32)),
    "SignedDuration::try_from(Duration)" => |a| res(SignedDuration::try_from(a.udur())),
    "Duration::try_from(SignedDuration)" => |a| res(std::time::Duration::try_from(a.du1())),
    // ---- Offset
    "Offset::try_from(SignedDuration)" => |a| res(Offset::try_from(a.du1())),
    "TimeZone::to_fixed_offset" => |a| res(a.tz1().to_fixed_offset()),
    "Offset::from_hours" => |a| res(Offset::from_hours(a.b(0))),
    "Offset::from_seconds" => |a| res(Offset::from_seconds(a.w())),
    "Offset::checked_add(Span)" => |a| res(a.off1().checked_add(a.sp1())),
    "Offset::checked_sub(Span)" => |a| res(a.off1().checked_sub(a.sp1())),
    "Offset::checked_add(SignedDuration)" => |a| res(a.off1().checked_add(a.du1())),
    "Offset::checked_sub(Duration)" => |a| res(a.off1().checked_sub(a.udur())),
    "Offset::saturating_add(Span)" => |a| val(a.off1().saturating_add(a.sp1())),
    "Offset::saturating_sub(SignedDuration)" => |a| val(a.off1().saturating_sub(a.du1())),
    "Offset::round" => |a| res(a.off1().round(OffsetRound::new().smallest(a.u1()).mode(a.mode()).increment(a.incr()))),
    "Offset::until" => |a| val(a.off1().until(a.off2())),
    "Offset::duration_since" => |a| val(a.off1().duration_since(a.off2())),
    // ---- Weekday
    "Weekday::from_monday_zero_offset" => |a| res(Weekday::from_monday_zero_offset(a.b(0))),
    "Weekday::from_monday_one_offset" => |a| res(Weekday::from_monday_one_offset(a.b(0))),
    "Weekday::from_sunday_zero_offset" => |a| res(Weekday::from_sunday_zero_offset(a.b(0))),
    "Weekday::from_sunday_one_offset" => |a| res(Weekday::from_sunday_one_offset(a.b(0))),
];

// --- evaluation ---------------------------------------------------------------------------------

#[derive(Debug, Clone, PartialEq, Eq)]
pub enum Outcome {
    Text(String),
    Panic(String, String),
}

pub fn row_of(c: &Case) -> &'static Row {
    &ROWS[zones::pick(c.row, ROWS.len())]
}

/// Evaluate a case in this process. Returns the outcome and whether a limit argument was used.
pub fn eval(c: &Case) -> (Outcome, bool) {
    let row = row_of(c);
    let a = A { a: &c.a, touched_limit: Cell::new(false) };
    let out = match guard(row.name, || (row.call)(&a)) {
        Ok(s) => Outcome::Text(s.replace('\n', " ")),
        Err(f) => Outcome::Panic(f.sig.replace('\n', " "), f.msg.replace('\n', " ")),
    };
    (out, a.touched_limit.get())
}

/// `jv c05-serve`: answer cases read from stdin, one JSON line each.
pub fn serve() -> i32 {
    install_panic_hook();
    let stdin = std::io::stdin();
    let stdout = std::io::stdout();
    let mut out = stdout.lock();
    for line in stdin.lock().lines() {
        let Ok(line) = line else { break };
        let ans = match serde_json::from_str::<Case>(&line) {
            Ok(c) => match eval(&c).0 {
                Outcome::Text(s) => format!("T{s}"),
                Outcome::Panic(sig, msg) => format!("P{sig}\t{msg}"),
            },
            Err(e) => format!("E{e}"),
        };
        if writeln!(out, "{ans}").is_err() || out.flush().is_err() {
            break;
        }
    }
    0
}

struct Remote {
    child: Child,
    stdin: ChildStdin,
    stdout: BufReader<ChildStdout>,
}

impl Drop for Remote {
    fn drop(&mut self) {
        let _ = self.child.kill();
        let _ = self.child.wait();
    }
}

thread_local! {
    static REMOTE: RefCell<Option<Remote>> = RefCell::new(None);
}

fn rel_bin() -> Option<String> {
    std::env::var("JV_REL_BIN").ok().filter(|p| std::path::Path::new(p).exists())
}

fn spawn_remote() -> Option<Remote> {
    let bin = rel_bin()?;
    let mut child = Command::new(bin).arg("c05-serve").stdin(Stdio::piped()).stdout(Stdio::piped()).stderr(Stdio::null()).spawn().ok()?;
    let stdin = child.stdin.take()?;
    let stdout = BufReader::new(child.stdout.take()?);
    Some(Remote { child, stdin, stdout })
}

/// Ask the `rel` build. `Err(why)` = the child is unavailable or died.
fn eval_remote(c: &Case) -> Result<Outcome, String> {
    REMOTE.with(|r| {
        let mut r = r.borrow_mut();
        if r.is_none() {
            *r = spawn_remote();
        }
        let Some(rem) = r.as_mut() else { return Err("no-rel-binary".to_string()) };
        let line = serde_json::to_string(c).map_err(|e| e.to_string())?;
        let io = (|| -> std::io::Result<String> {
            writeln!(rem.stdin, "{line}")?;
            rem.stdin.flush()?;
            let mut ans = String::new();
            rem.stdout.read_line(&mut ans)?;
            Ok(ans)
        })();
        match io {
            Ok(ans) if !ans.is_empty() => {
                let ans = ans.trim_end_matches('\n');
                match ans.split_at(1) {
                    ("T", s) => Ok(Outcome::Text(s.to_string())),
                    ("P", s) => {
                        let (sig, msg) = s.split_once('\t').unwrap_or((s, ""));
                        Ok(Outcome::Panic(sig.to_string(), msg.to_string()))
                    }
                    _ => Err(format!("protocol: {ans}")),
                }
            }
            _ => {
                // the child died (abort, stack overflow): that is a crash of the release build
                *r = None;
                Err("died".to_string())
            }
        }
    })
}

fn strat_args() -> BoxedStrategy<Args> {
    let ts = || {
        prop_oneof![
            3 => gen::ts_ns().prop_map(|ns| TsSpec { ns, probe: None }),
            3 => (any::<u16>(), prop_oneof![Just(0i64), Just(-1), Just(1), Just(-1_000_000_000), Just(1_000_000_000), -7_200_000_000_000i64..=7_200_000_000_000, -200_000_000_000_000i64..=200_000_000_000_000]).prop_map(|(p, d)| TsSpec { ns: 0, probe: Some((p, d)) }),
        ]
    };
    let incr = prop_oneof![
        4 => proptest::sample::select(vec![1i64, 2, 3, 4, 5, 6, 10, 12, 15, 20, 30, 60, 100, 125, 200, 250, 500, 1000]),
        2 => proptest::sample::select(vec![0i64, -1, i64::MIN, i64::MAX, 7, 24, 25, 59, 61, 999, 1001, 1_000_000_000, 86_400]),
        2 => gen::biased(i64::MIN, i64::MAX),
        1 => 1i64..=100_000,
    ];
    // small integers for constructor fields: half of them plausible for the field (month, day,
    // hour, minute, second by position), half wild
    let small8 = |lo: i8, hi: i8| prop_oneof![3 => gen::biased(i8::MIN as i64, i8::MAX as i64).prop_map(|v| v as i8), 2 => (0i8..=61), 6 => (lo..=hi), 1 => (-3i8..=3)];
    let date = || {
        prop_oneof![
            8 => gen::ymd(),
            1 => proptest::sample::select(vec![(-9999i16, 1i8, 1i8), (-9999, 1, 2), (9999, 12, 31), (9999, 12, 30), (-9999, 12, 31), (9999, 1, 1), (-9999, 2, 28), (9999, 2, 28), (-9999, 1, 31), (9999, 11, 30)]),
        ]
    };
    let f = prop_oneof![
        2 => proptest::sample::select(vec![0.0f64, -0.0, 1.0, -1.0, 0.5, 1e-9, -1e-9, 0.999_999_999_5, 9.223372036854775e18, -9.223372036854775e18, 9.223372036854776e18, -9.223372036854776e18, 9.223372036854778e18, 1e19, -1e19, f64::MAX, f64::MIN, f64::INFINITY, f64::NEG_INFINITY, f64::NAN, f64::MIN_POSITIVE, 4294967296.0, 1e15 + 0.3]).prop_map(|v| v.to_bits()),
        2 => any::<u64>(),
        2 => (gen::biased(i64::MIN, i64::MAX), 0u32..1_000_000_000).prop_map(|(s, n)| (s as f64 + n as f64 * 1e-9).to_bits()),
    ];
    let big = prop_oneof![
        3 => gen::ts_ns(),
        1 => proptest::sample::select(vec![TS_MIN_NS - 1, TS_MAX_NS + 1, i128::MIN, i128::MAX, i64::MIN as i128, i64::MAX as i128, i64::MAX as i128 + 1, i64::MIN as i128 - 1, (i64::MAX as i128) * 1_000_000_000]),
        1 => (gen::biased(i64::MIN, i64::MAX), gen::biased(i64::MIN, i64::MAX)).prop_map(|(a, b)| a as i128 * 1_000_000_000 + b as i128),
    ];
    let g1 = (date(), date(), gen::tod_ns(), gen::tod_ns(), ts(), ts(), any::<u16>(), any::<u16>());
    let g2 = (gen::span_spec(), gen::span_spec(), gen::signed_duration(), gen::offset_secs(), gen::offset_secs(), 0u8..10, 0u8..10, 0u8..9);
    let g3 = (
        incr,
        gen::biased(i16::MIN as i64, i16::MAX as i64).prop_map(|v| v as i16),
        [small8(1, 12), small8(1, 31), small8(0, 23), small8(0, 59), small8(0, 59)],
        prop_oneof![gen::biased(i16::MIN as i64, i16::MAX as i64).prop_map(|v| v as i16), 0i16..=1000],
        prop_oneof![gen::biased(i32::MIN as i64, i32::MAX as i64).prop_map(|v| v as i32), 0i32..=999_999_999, -10i32..=10],
        gen::biased(i64::MIN, i64::MAX),
        big,
        f,
        0u8..7,
        any::<u8>(),
    );
    (g1, g2, g3, 0u8..5)
        .prop_map(|((d1, d2, t1, t2, ts1, ts2, z1, z2), (sp1, sp2, du1, off1, off2, u1, u2, mode), (incr, y, b, h, w, n1, big, f, wd, sel), rel)| Args {
            d1, d2, t1, t2, ts1, ts2, z1, z2, sp1, sp2, du1, off1, off2, u1, u2, mode, incr, y, b, h, w, n1, big, f, wd, sel, rel,
        })
        .boxed()
}

fn strat_case() -> BoxedStrategy<Case> {
    (any::<u16>(), strat_args()).prop_map(|(row, a)| Case { row, a }).boxed()
}

fn row_class(name: &str, what: &str) -> &'static str {
    // class labels must be 'static: intern them
    static INTERN: std::sync::OnceLock<std::sync::Mutex<std::collections::HashMap<String, &'static str>>> = std::sync::OnceLock::new();
    let m = INTERN.get_or_init(Default::default);
    let key = format!("row {name}: {what}");
    let mut m = m.lock().unwrap();
    if let Some(s) = m.get(&key) {
        return s;
    }
    let s: &'static str = Box::leak(key.clone().into_boxed_str());
    m.insert(key, s);
    s
}

fn test_api(c: &Case, cx: &mut Cx) -> CaseResult {
    let row = row_of(c);
    let (local, limit) = eval(c);
    let remote = eval_remote(c);
    let is_err = matches!(&local, Outcome::Text(s) if s == "err");
    cx.nt_if(limit || is_err || matches!(local, Outcome::Panic(..)));
    cx.class(row_class(row.name, if is_err { "Err" } else { "Ok" }));
    cx.class_if(limit, "an argument at a type limit");
    // keep going behind listed findings: every clause is a soft failure
    if let Outcome::Panic(sig, msg) = &local {
        cx.soft_fail(format!("panic-with-debug-assertions:{}:{}", row.name, sig.rsplit('/').next().unwrap_or(sig)), format!("{} panics in the build with debug assertions: {msg}", row.name));
    }
    if let Outcome::Text(s) = &local {
        if s.starts_with(BAD) {
            cx.soft_fail(format!("out-of-range:{}", row.name), format!("{} (debug-assertions build) returned a value outside its type's range: {s}", row.name));
        }
    }
    match &remote {
        Err(why) if why == "no-rel-binary" => {
            cx.class("release build unavailable (JV_REL_BIN unset): single-build checks only");
        }
        Err(why) if why == "died" => {
            fail!(format!("release-build-crash:{}", row.name), "{}: the release-build process died while evaluating this case", row.name);
        }
        Err(why) => fail!("HARNESS-PANIC", "c05 child protocol failure: {why}"),
        Ok(Outcome::Panic(sig, msg)) => {
            cx.soft_fail(format!("panic-in-release:{}:{}", row.name, sig.rsplit('/').next().unwrap_or(sig)), format!("{} panics in the release build: {msg}", row.name));
        }
        Ok(Outcome::Text(s)) => {
            cx.class("evaluated in both builds");
            if s.starts_with(BAD) {
                cx.soft_fail(format!("out-of-range-in-release:{}", row.name), format!("{} (release build) returned a value outside its type's range: {s}", row.name));
            }
            if let Outcome::Text(l) = &local {
                if l != s && !l.starts_with(BAD) && !s.starts_with(BAD) {
                    cx.soft_fail(format!("builds-differ:{}", row.name), format!("{}: with debug assertions -> {l}; release -> {s}", row.name));
                }
            }
        }
    }
    Ok(())
}

fn run_handshake(rec: &Recorder, check: &'static str) {
    rec.add_evaluations(1);
    if rel_bin().is_none() {
        rec.health_error(format!("{check}: JV_REL_BIN is not set or missing (the ./check driver builds the `rel` profile and sets it)"));
        return;
    }
    // the two builds must expose the same table
    let out = Command::new(rel_bin().unwrap()).arg("c05-rows").output();
    match out {
        Ok(o) if o.status.success() => {
            let theirs = String::from_utf8_lossy(&o.stdout).to_string();
            let mine: String = ROWS.iter().map(|r| format!("{}\n", r.name)).collect();
            if theirs != mine {
                rec.health_error(format!("{check}: the rel binary has a different API table (stale build?)"));
            }
        }
        _ => rec.health_error(format!("{check}: cannot run the rel binary")),
    }
    rec.note("api_rows", json!(ROWS.len()));
    rec.note("zones", json!(c05_zones().iter().map(|z| z.label.clone()).collect::<Vec<_>>()));
}

pub fn print_rows() {
    for r in ROWS {
        println!("{}", r.name);
    }
}

fn replay_none(_: Value) -> CaseResult {
    Ok(())
}

pub fn property() -> Property {
    Property {
        id: "C05",
        level: "exploration",
        rule: "cases: (row of the API table of ~180 public fallible operations, limit-biased argument record), evaluated in the dbg build and in a child process of the rel build; a case is non-trivial when an argument it actually read is at or next to a limit of its type (year +-9998/9999, first/last ns of the day, within 2 days of Timestamp::MIN/MAX, a span unit at its limit, i64/i32/i16/i8 MIN/MAX, offset +-93598/93599, increment <= 0 or i64::MAX, non-finite or >= 2^63 float) or the call returned Err or panicked",
        assumptions: &[
            "the `dbg` profile (opt-level 2, debug-assertions and overflow-checks on) stands for 'with debug assertions', the `rel` profile for 'without'; both build /repo's working tree",
            "which of Ok/Err is correct is decided by C06..C12, not here",
            "documented panicking constructors (SignedDuration::new carrying past the limit, `constant`, operator impls) are not rows",
        ],
        checks: vec![
            Box::new(Sweep { name: "c05.handshake", run: run_handshake, replay: replay_none }),
            Box::new(Prop { name: "c05.api", quick: 5_000_000, thorough: 120_000_000, strategy: strat_case, test: test_api }),
        ],
        floors: |rec| {
            rec.floor("c05.api:an argument at a type limit", "c05.api:cases", 0.15);
            rec.floor("c05.api:evaluated in both builds", "c05.api:cases", 0.95);
        },
    }
}
