//! C06 Zoned arithmetic is DST-aware: calendar units on wall clock, time units exact.

use std::sync::Arc;

use jiff::{SignedDuration, Timestamp, Zoned};
use proptest::prelude::*;
use serde::{Deserialize, Serialize};

use crate::engine::*;
use crate::gen::{self, SpanSpec};
use crate::props::c03::{resolve_probe, strat_zone_probe, ZoneProbe};
use crate::refmodel::reftz::Civil;
use crate::refmodel::refzoned::{self as rz, Res};
use crate::refmodel::wide::*;
use crate::zones::{self, Zone};
use crate::{ensure, fail};

pub fn zone_universe() -> &'static Vec<Arc<Zone>> {
    static U: std::sync::OnceLock<Vec<Arc<Zone>>> = std::sync::OnceLock::new();
    U.get_or_init(|| {
        // featured zones weighted up (listed 8x), then everything else
        let mut v = vec![];
        for _ in 0..8 {
            v.extend(zones::featured());
        }
        v.extend(zones::universe(false));
        v
    })
}

#[derive(Serialize, Deserialize, Debug, Clone)]
struct ZSpan {
    probe: ZoneProbe,
    span: SpanSpec,
    /// when set: choose the start so that the civil intermediate lands at
    /// this fraction (x/65536) inside the gap/fold window of the probed
    /// transition
    #[serde(default)]
    target: Option<u16>,
}

/// Start instant such that start + calendar part of the span lands inside
/// the window of the probe's transition.
fn targeted_start(z: &Zone, p: &ZoneProbe, span: &SpanSpec, frac: u16) -> Option<i128> {
    if z.probes.is_empty() || !span.has_calendar() {
        return None;
    }
    let t = z.probes[zones::pick(p.trans_sel, z.probes.len())];
    let ob = z.rz.lookup(t - 1).off as i64;
    let oa = z.rz.lookup(t).off as i64;
    if ob == oa {
        return None;
    }
    let (lo, hi) = ((t + ob.min(oa)) as i128 * NS_PER_SEC, (t + ob.max(oa)) as i128 * NS_PER_SEC);
    let c = lo + ((hi - lo) * frac as i128 >> 16);
    let cal = SpanSpec { neg: span.neg, u: [span.u[0], span.u[1], span.u[2], span.u[3], 0, 0, 0, 0, 0, 0] };
    if c < crate::props::c04::CIVIL_MIN_NS || c > crate::props::c04::CIVIL_MAX_NS {
        return None;
    }
    let start = crate::refmodel::refarith::datetime_add(rz::civil_parts(c), &cal.negated())?;
    let fwd = crate::refmodel::refarith::datetime_add(start, &cal)?;
    if rz::civil_ns(fwd) != c {
        return None;
    }
    let ns = rz::compatible(&z.rz, rz::civil_ns(start)).ok()?;
    // the start must display that civil time (not be in a gap itself)
    if rz::local_of(&z.rz, ns).0 != rz::civil_ns(start) || !rz::in_ts_range(ns) {
        return None;
    }
    Some(ns)
}

pub fn mk_zoned(z: &Zone, ns: i128) -> Zoned {
    Timestamp::from_nanosecond(ns).unwrap().to_zoned(z.tz.clone())
}

fn cmp_res(what: &str, ctx: &str, got: Result<Zoned, jiff::Error>, want: &Res, z: &Zone, cx: &mut Cx) -> CaseResult {
    match (got, want) {
        (_, Res::Skip(why)) => {
            cx.tolerate(why);
            Ok(())
        }
        (Ok(g), Res::Instant(w)) => {
            ensure!(g.timestamp().as_nanosecond() == *w, format!("{what}-wrong"), "{ctx}: {what} = {g} ({}ns) want instant {w}ns = {}", g.timestamp().as_nanosecond(), Timestamp::from_nanosecond(*w).map(|t| t.to_string()).unwrap_or_default());
            ensure!(g.time_zone() == &z.tz, format!("{what}-zone-changed"), "{ctx}: {what} changed the time zone");
            if let Err(e) = gen::ts_sane(g.timestamp()) {
                fail!(format!("{what}-incoherent-timestamp"), "{ctx}: {what}: {e}");
            }
            // the value handed back is a zoned datetime like any other: its civil view and
            // offset are those of its instant (the next addition starts from them)
            let own = g.time_zone().to_offset(g.timestamp());
            ensure!(g.offset() == own && g.datetime() == own.to_datetime(g.timestamp()), format!("{what}-civil-view-inconsistent"), "{ctx}: {what} = {g}: reports offset {} and civil time {}, but its instant is {} at offset {own}", g.offset(), g.datetime(), own.to_datetime(g.timestamp()));
            Ok(())
        }
        (Err(_), Res::Err) => Ok(()),
        (Ok(g), Res::Err) => fail!(format!("{what}-accepts-out-of-range"), "{ctx}: {what} = Ok({g}) but the reference result is out of range"),
        (Err(e), Res::Instant(w)) => fail!(format!("{what}-rejects-in-range"), "{ctx}: {what} = Err({e}) but the reference result {w}ns is in range"),
    }
}

fn test_span(c: &ZSpan, cx: &mut Cx) -> CaseResult {
    let (z, mut ns) = resolve_probe(zone_universe(), &c.probe);
    if let Some(frac) = c.target {
        match targeted_start(&z, &c.probe, &c.span, frac) {
            Some(t) => {
                ns = t;
                cx.class("targeted");
            }
            None => cx.class("target-not-constructible"),
        }
    }
    let zdt = mk_zoned(&z, ns);
    let span = c.span.to_span();
    let ctx = format!("[{}] {zdt} + {span:?}", z.label);
    let want = rz::zoned_add(&z.rz, ns, &c.span);
    // classification
    if c.span.has_calendar() {
        let (loc, _) = rz::local_of(&z.rz, ns);
        let cal = SpanSpec { neg: c.span.neg, u: [c.span.u[0], c.span.u[1], c.span.u[2], c.span.u[3], 0, 0, 0, 0, 0, 0] };
        if let Some(c2) = crate::refmodel::refarith::datetime_add(rz::civil_parts(loc), &cal) {
            let k = z.rz.resolve(rz::civil_ns(c2).div_euclid(NS_PER_SEC) as i64);
            let in_window = matches!(k, Civil::Gap(..) | Civil::Fold(..));
            cx.class_if(in_window, "intermediate-in-gap-or-fold");
            cx.nt_if(in_window);
            let p = rz::civil_parts(loc);
            cx.class_if(c2.2 != p.2 && c.span.u[2] == 0 && c.span.u[3] == 0, "month-clamp");
        }
    }
    if let Res::Instant(w) = want {
        let a = z.rz.lookup(ns.div_euclid(NS_PER_SEC) as i64).off;
        let b = z.rz.lookup(w.div_euclid(NS_PER_SEC) as i64).off;
        cx.class_if(a != b, "offset-differs-across");
        cx.nt_if(a != b);
    }
    cx.class_if(matches!(want, Res::Err), "out-of-range");
    cx.nt_if(matches!(want, Res::Err));
    cmp_res("checked_add(span)", &ctx, zdt.checked_add(span), &want, &z, cx)?;
    let wsub = rz::zoned_add(&z.rz, ns, &c.span.negated());
    cmp_res("checked_sub(span)", &ctx, zdt.checked_sub(span), &wsub, &z, cx)?;
    // saturating
    match &want {
        Res::Instant(_) => cmp_res("saturating_add(span)", &ctx, Ok(zdt.saturating_add(span)), &want, &z, cx)?,
        Res::Err => {
            let lim = if c.span.sign() < 0 { TS_MIN_NS } else { TS_MAX_NS };
            cmp_res("saturating_add(span)", &ctx, Ok(zdt.saturating_add(span)), &Res::Instant(lim), &z, cx)?
        }
        Res::Skip(_) => {}
    }
    match &wsub {
        Res::Instant(_) => cmp_res("saturating_sub(span)", &ctx, Ok(zdt.saturating_sub(span)), &wsub, &z, cx)?,
        Res::Err => {
            let lim = if c.span.sign() < 0 { TS_MAX_NS } else { TS_MIN_NS };
            cmp_res("saturating_sub(span)", &ctx, Ok(zdt.saturating_sub(span)), &Res::Instant(lim), &z, cx)?
        }
        Res::Skip(_) => {}
    }
    // operators (documented to panic on overflow: only when in range)
    if let Res::Instant(_) = want {
        cmp_res("&zdt+span", &ctx, Ok(&zdt + span), &want, &z, cx)?;
        let mut g = zdt.clone();
        g += span;
        cmp_res("zdt+=span", &ctx, Ok(g), &want, &z, cx)?;
    }
    if let Res::Instant(_) = wsub {
        cmp_res("&zdt-span", &ctx, Ok(&zdt - span), &wsub, &z, cx)?;
        let mut g = zdt.clone();
        g -= span;
        cmp_res("zdt-=span", &ctx, Ok(g), &wsub, &z, cx)?;
    }
    Ok(())
}

fn strat_span() -> BoxedStrategy<ZSpan> {
    // calendar-heavy, mostly small magnitudes so results stay near transitions
    let small = (any::<bool>(), proptest::collection::vec(prop_oneof![4 => Just(0i64), 3 => 0i64..4, 2 => 0i64..40, 1 => 0i64..800], 10)).prop_map(|(neg, v)| {
        let mut u = [0i64; 10];
        u.copy_from_slice(&v);
        SpanSpec { neg, u }
    });
    let span = prop_oneof![5 => small, 2 => gen::span_spec()];
    (strat_zone_probe(), span, prop::option::weighted(0.4, any::<u16>())).prop_map(|(probe, span, target)| ZSpan { probe, span, target }).boxed()
}

// --- absolute durations ---------------------------------------------------------------

#[derive(Serialize, Deserialize, Debug, Clone)]
struct ZDur {
    probe: ZoneProbe,
    secs: i64,
    nanos: i32,
}

fn test_duration(c: &ZDur, cx: &mut Cx) -> CaseResult {
    let (z, ns) = resolve_probe(zone_universe(), &c.probe);
    let zdt = mk_zoned(&z, ns);
    let d = SignedDuration::new(c.secs, c.nanos);
    let dn = d.as_nanos();
    let ctx = format!("[{}] {zdt} + {d:?}", z.label);
    let r = ns + dn;
    let want = if rz::in_ts_range(r) { Res::Instant(r) } else { Res::Err };
    let rs = ns - dn;
    let wsub = if rz::in_ts_range(rs) { Res::Instant(rs) } else { Res::Err };
    cx.nt_if(matches!(want, Res::Err) || {
        let a = z.rz.lookup(ns.div_euclid(NS_PER_SEC) as i64).off;
        rz::in_ts_range(r) && z.rz.lookup(r.div_euclid(NS_PER_SEC) as i64).off != a
    });
    cx.class_if(matches!(want, Res::Err), "out-of-range");
    cmp_res("checked_add(duration)", &ctx, zdt.checked_add(d), &want, &z, cx)?;
    cmp_res("checked_sub(duration)", &ctx, zdt.checked_sub(d), &wsub, &z, cx)?;
    let lim = |neg: bool| Res::Instant(if neg { TS_MIN_NS } else { TS_MAX_NS });
    let wsat = if let Res::Err = want { lim(dn < 0) } else { want.clone() };
    cmp_res("saturating_add(duration)", &ctx, Ok(zdt.saturating_add(d)), &wsat, &z, cx)?;
    let wsat = if let Res::Err = wsub { lim(dn > 0) } else { wsub.clone() };
    cmp_res("saturating_sub(duration)", &ctx, Ok(zdt.saturating_sub(d)), &wsat, &z, cx)?;
    if dn >= 0 {
        let u = std::time::Duration::new(c.secs as u64, c.nanos as u32);
        cmp_res("checked_add(std)", &ctx, zdt.checked_add(u), &want, &z, cx)?;
        cmp_res("checked_sub(std)", &ctx, zdt.checked_sub(u), &wsub, &z, cx)?;
    }
    if dn >= 0 {
        let u = std::time::Duration::new(c.secs as u64, c.nanos as u32);
        if let Res::Instant(_) = want {
            cmp_res("&zdt+std", &ctx, Ok(&zdt + u), &want, &z, cx)?;
            let mut g = zdt.clone();
            g += u;
            cmp_res("zdt+=std", &ctx, Ok(g), &want, &z, cx)?;
        }
        if let Res::Instant(_) = wsub {
            cmp_res("&zdt-std", &ctx, Ok(&zdt - u), &wsub, &z, cx)?;
            let mut g = zdt.clone();
            g -= u;
            cmp_res("zdt-=std", &ctx, Ok(g), &wsub, &z, cx)?;
        }
        let wsat_add = if let Res::Err = want { lim(false) } else { want.clone() };
        let wsat_sub = if let Res::Err = wsub { lim(true) } else { wsub.clone() };
        cmp_res("saturating_add(std)", &ctx, Ok(zdt.saturating_add(u)), &wsat_add, &z, cx)?;
        cmp_res("saturating_sub(std)", &ctx, Ok(zdt.saturating_sub(u)), &wsat_sub, &z, cx)?;
    }
    // unsigned durations beyond what a signed duration can hold (> 2^63 seconds): always out of
    // range; the saturating forms clamp and keep the zone
    for (k, u) in [std::time::Duration::MAX, std::time::Duration::new(1 << 63, 0), std::time::Duration::new((1 << 63) + 1 + (c.secs.unsigned_abs() >> 2), c.nanos.unsigned_abs())].into_iter().enumerate() {
        let ctx = format!("[{}] {zdt} with huge std Duration #{k} ({u:?})", z.label);
        cmp_res("checked_add(huge std)", &ctx, zdt.checked_add(u), &Res::Err, &z, cx)?;
        cmp_res("checked_sub(huge std)", &ctx, zdt.checked_sub(u), &Res::Err, &z, cx)?;
        cmp_res("saturating_add(huge std)", &ctx, Ok(zdt.saturating_add(u)), &lim(false), &z, cx)?;
        cmp_res("saturating_sub(huge std)", &ctx, Ok(zdt.saturating_sub(u)), &lim(true), &z, cx)?;
        let ts = zdt.timestamp();
        ensure!(ts.checked_add(u).is_err() && ts.checked_sub(u).is_err(), "timestamp-accepts-huge-std-duration", "{ctx}: Timestamp::checked_add/sub accepted it");
        ensure!(ts.saturating_add(u).ok() == Some(jiff::Timestamp::MAX) && ts.saturating_sub(u).ok() == Some(jiff::Timestamp::MIN), "timestamp-saturating-huge-std-duration", "{ctx}: Timestamp saturating forms = {:?} / {:?}", ts.saturating_add(u), ts.saturating_sub(u));
    }
    // operator forms (documented to panic on overflow: only when in range)
    if let Res::Instant(_) = want {
        cmp_res("&zdt+duration", &ctx, Ok(&zdt + d), &want, &z, cx)?;
        let mut g = zdt.clone();
        g += d;
        cmp_res("zdt+=duration", &ctx, Ok(g), &want, &z, cx)?;
    }
    if let Res::Instant(_) = wsub {
        cmp_res("&zdt-duration", &ctx, Ok(&zdt - d), &wsub, &z, cx)?;
        let mut g = zdt.clone();
        g -= d;
        cmp_res("zdt-=duration", &ctx, Ok(g), &wsub, &z, cx)?;
    }
    // the same on the bare Timestamp (exact elapsed time, no zone involved)
    {
        let ts = zdt.timestamp();
        let ck = |what: &str, got: Result<jiff::Timestamp, jiff::Error>, want: &Res| -> CaseResult {
            match (got, want) {
                (Ok(t), Res::Instant(w)) => {
                    if let Err(e) = gen::ts_sane(t) {
                        fail!(format!("timestamp.{what}-incoherent"), "{ctx}: {e}");
                    }
                    ensure!(t.as_nanosecond() == *w, format!("timestamp.{what}-wrong"), "{ctx}: timestamp {what} = {} want {w}", t.as_nanosecond());
                    Ok(())
                }
                (Err(_), Res::Err) => Ok(()),
                (Ok(t), Res::Err) => fail!(format!("timestamp.{what}-accepts-out-of-range"), "{ctx}: timestamp {what} = Ok({t})"),
                (Err(e), Res::Instant(w)) => fail!(format!("timestamp.{what}-rejects"), "{ctx}: timestamp {what} = Err({e}) want {w}"),
                _ => Ok(()),
            }
        };
        ck("checked_add(duration)", ts.checked_add(d), &want)?;
        ck("checked_sub(duration)", ts.checked_sub(d), &wsub)?;
        let wsat_add = if let Res::Err = want { lim(dn < 0) } else { want.clone() };
        let wsat_sub = if let Res::Err = wsub { lim(dn > 0) } else { wsub.clone() };
        ck("saturating_add(duration)", ts.saturating_add(d), &wsat_add)?;
        ck("saturating_sub(duration)", ts.saturating_sub(d), &wsat_sub)?;
        if let Res::Instant(_) = want {
            let mut g = ts;
            g += d;
            ck("+duration", Ok(ts + d), &want)?;
            ck("+=duration", Ok(g), &want)?;
        }
        if let Res::Instant(_) = wsub {
            let mut g = ts;
            g -= d;
            ck("-duration", Ok(ts - d), &wsub)?;
            ck("-=duration", Ok(g), &wsub)?;
        }
        if dn >= 0 {
            let u = std::time::Duration::new(c.secs as u64, c.nanos as u32);
            if let Res::Instant(_) = want {
                let mut g = ts;
                g += u;
                ck("+std", Ok(ts + u), &want)?;
                ck("+=std", Ok(g), &want)?;
            }
            if let Res::Instant(_) = wsub {
                let mut g = ts;
                g -= u;
                ck("-std", Ok(ts - u), &wsub)?;
                ck("-=std", Ok(g), &wsub)?;
            }
            ck("checked_add(std)", ts.checked_add(u), &want)?;
            ck("checked_sub(std)", ts.checked_sub(u), &wsub)?;
            ck("saturating_add(std)", ts.saturating_add(u), &wsat_add)?;
            ck("saturating_sub(std)", ts.saturating_sub(u), &wsat_sub)?;
        }
    }
    // a span with only time units moves the instant by exactly that much
    if dn.abs() < 600_000_000_000i128 * NS_PER_SEC {
        let sp = jiff::Span::new().try_seconds(d.as_secs()).and_then(|s| s.try_nanoseconds(d.subsec_nanos() as i64));
        if let Ok(sp) = sp {
            cmp_res("checked_add(time-only span)", &ctx, zdt.checked_add(sp), &want, &z, cx)?;
        }
    }
    Ok(())
}

fn strat_duration() -> BoxedStrategy<ZDur> {
    let secs = prop_oneof![
        4 => gen::biased(-200_000, 200_000),
        2 => gen::biased(-700_000_000_000, 700_000_000_000),
        1 => gen::biased(i64::MIN, i64::MAX),
    ];
    (strat_zone_probe(), secs, prop_oneof![Just(0i32), 0i32..1_000_000_000]).prop_map(|(probe, secs, n)| ZDur { probe, secs, nanos: if secs < 0 { -n } else { n } }).boxed()
}

// --- start/end of day, tomorrow/yesterday ------------------------------------------------

#[derive(Serialize, Deserialize, Debug, Clone)]
struct ZDay {
    probe: ZoneProbe,
}

fn test_day(c: &ZDay, cx: &mut Cx) -> CaseResult {
    let (z, ns) = resolve_probe(zone_universe(), &c.probe);
    let zdt = mk_zoned(&z, ns);
    let (loc, _) = rz::local_of(&z.rz, ns);
    let day = loc.div_euclid(NS_PER_DAY) as i64;
    let ctx = format!("[{}] {zdt}", z.label);
    let Some((first, last)) = rz::day_bounds(&z.rz, day) else {
        fail!("harness-day-bounds", "{ctx}: reference found no instant on the value's own civil day");
    };
    let len = last - first + 1;
    cx.class_if(len != NS_PER_DAY, "day-length!=24h");
    cx.class_if(rz::local_of(&z.rz, first).0.rem_euclid(NS_PER_DAY) != 0, "day-does-not-start-at-midnight");
    cx.nt_if(len != NS_PER_DAY);
    let wf = if rz::in_ts_range(first) { Res::Instant(first) } else { Res::Err };
    // Is civil midnight of this day inside a gap that began *before*
    // midnight (so that the day's first instant is the transition itself,
    // not compatible(midnight))? Only constructible with odd synthetic
    // zones; gets its own signature.
    let c0 = day as i128 * NS_PER_DAY;
    let odd_gap = matches!(z.rz.resolve(c0.div_euclid(NS_PER_SEC) as i64), Civil::Gap(..))
        && matches!(z.rz.resolve((c0 - NS_PER_SEC).div_euclid(NS_PER_SEC) as i64), Civil::Gap(..));
    cx.class_if(odd_gap, "midnight-inside-gap-that-began-before-midnight");
    cmp_res("start_of_day", &ctx, zdt.start_of_day(), &wf, &z, cx).map_err(|mut f| {
        if odd_gap {
            f.sig = format!("{}:midnight-inside-gap-that-began-before-midnight", f.sig);
        }
        f
    })?;
    let wl = if rz::in_ts_range(last) { Res::Instant(last) } else { Res::Err };
    // mirror image: the last civil nanosecond of the day lies inside a gap
    // that ends *after* midnight (e.g. right/ zones, whose leap-second
    // shifted transitions end gaps at 00:00:06 instead of 00:00:00)
    let c1 = (day as i128 + 1) * NS_PER_DAY;
    let odd_gap_end = matches!(z.rz.resolve((c1 - 1).div_euclid(NS_PER_SEC) as i64), Civil::Gap(..))
        && matches!(z.rz.resolve(c1.div_euclid(NS_PER_SEC) as i64), Civil::Gap(..));
    cx.class_if(odd_gap_end, "day-end-inside-gap-that-ends-after-midnight");
    cmp_res("end_of_day", &ctx, zdt.end_of_day(), &wl, &z, cx).map_err(|mut f| {
        if odd_gap_end {
            f.sig = format!("{}:day-end-inside-gap-that-ends-after-midnight", f.sig);
        }
        f
    })?;
    // tomorrow / yesterday = +-1 day on the wall clock, compatible
    let one = SpanSpec { neg: false, u: [0, 0, 0, 1, 0, 0, 0, 0, 0, 0] };
    let wt = rz::zoned_add(&z.rz, ns, &one);
    cmp_res("tomorrow", &ctx, zdt.tomorrow(), &wt, &z, cx)?;
    let wy = rz::zoned_add(&z.rz, ns, &one.negated());
    cmp_res("yesterday", &ctx, zdt.yesterday(), &wy, &z, cx)?;
    // arithmetic continues correctly from a value obtained by navigation
    for (what, nav) in [("tomorrow", zdt.tomorrow()), ("yesterday", zdt.yesterday()), ("start_of_day", zdt.start_of_day())] {
        if let Ok(v) = nav {
            let from = v.timestamp().as_nanosecond();
            for sp in [&one, &one.negated()] {
                let want = rz::zoned_add(&z.rz, from, sp);
                cmp_res(&format!("{what}-then-add"), &format!("{ctx} -> {what} = {v}, then {sp:?}"), v.checked_add(sp.to_span()), &want, &z, cx)?;
            }
        }
    }
    Ok(())
}

fn strat_day() -> BoxedStrategy<ZDay> {
    strat_zone_probe().prop_map(|probe| ZDay { probe }).boxed()
}

pub fn property() -> Property {
    Property {
        id: "C06",
        level: "exploration",
        rule: "proptest: zone (featured zones weighted up, then every installed/synthetic/POSIX zone) x instant (70% within +-2 days of a recorded or rule-generated transition, incl. +-1ns/+-1s; else uniform) x span (calendar-heavy small magnitudes, and limit-biased spans of any unit mix, both signs) or absolute duration; checked/saturating/operator forms, start_of_day/end_of_day/tomorrow/yesterday. Oracle: reference interpreter (civil add on day numbers -> compatible resolution through the reference zone reader -> exact nanosecond add). Non-trivial: the civil intermediate falls in a gap/fold, or the offset differs between operand and result, or the day is not 24h long, or the outcome is out of range.",
        assumptions: &[
            "reftz.rs / refarith.rs; civil intermediates displayed by >= 3 instants are skipped (counted)",
            "when the intermediate instant is out of range but the final one is in range (only possible within a DST shift of the limits) either outcome is accepted and counted as intermediate-out-of-range",
        ],
        checks: vec![
            Box::new(Prop { name: "c06.span", quick: 8_000_000, thorough: 20_000_000, strategy: strat_span, test: test_span }),
            Box::new(Prop { name: "c06.duration", quick: 4_000_000, thorough: 10_000_000, strategy: strat_duration, test: test_duration }),
            Box::new(Prop { name: "c06.day", quick: 4_000_000, thorough: 10_000_000, strategy: strat_day, test: test_day }),
        ],
        floors: |rec| {
            rec.floor("c06.span:offset-differs-across", "c06.span:cases", 0.10);
            rec.floor("c06.span:intermediate-in-gap-or-fold", "c06.span:cases", 0.01);
            rec.floor("c06.day:day-length!=24h", "c06.day:cases", 0.10);
        },
    }
}
