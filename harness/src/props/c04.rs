//! C04 Civil-to-instant resolution finds gaps/folds exactly; strategies as documented.

use std::sync::Arc;

use jiff::civil::DateTime;
use jiff::tz::{AmbiguousOffset, Disambiguation, Offset};
use jiff::Timestamp;
use proptest::prelude::*;
use serde::{Deserialize, Serialize};
use serde_json::{json, Value};

use crate::engine::*;
use crate::gen;
use crate::refmodel::refcal as rc;
use crate::refmodel::reftz::{Civil, TS_MAX, TS_MIN};
use crate::refmodel::wide::*;
use crate::zones::{self, Zone};
use crate::{ensure, fail};

pub const CIVIL_MIN_NS: i128 = rc::DAY_MIN as i128 * NS_PER_DAY;
pub const CIVIL_MAX_NS: i128 = (rc::DAY_MAX as i128 + 1) * NS_PER_DAY - 1;

#[derive(Serialize, Deserialize, Debug, Clone)]
pub struct ZC {
    pub zone: String,
    /// civil datetime as local nanoseconds since 1970-01-01T00:00:00
    pub civil_ns: String,
}

pub fn civil_to_dt(c: i128) -> DateTime {
    let days = c.div_euclid(NS_PER_DAY) as i64;
    let tod = c.rem_euclid(NS_PER_DAY) as i64;
    let (y, m, d) = rc::from_days(days);
    gen::mk_date(y as i16, m as i8, d as i8).to_datetime(gen::mk_time(tod))
}

pub fn dt_to_civil(dt: DateTime) -> i128 {
    let (y, m, d, tod) = crate::props::c02::dt_fields(dt);
    rc::to_days(y, m, d) as i128 * NS_PER_DAY + tod
}

fn kind_of(a: &AmbiguousOffset) -> Civil {
    match *a {
        AmbiguousOffset::Unambiguous { offset } => Civil::Unambiguous(offset.seconds()),
        AmbiguousOffset::Gap { before, after } => Civil::Gap(before.seconds(), after.seconds()),
        AmbiguousOffset::Fold { before, after } => Civil::Fold(before.seconds(), after.seconds()),
    }
}

fn expect_ts(what: &str, got: Result<Timestamp, jiff::Error>, want_ns: Option<i128>) -> CaseResult {
    match (got, want_ns) {
        (Ok(ts), Some(w)) if (TS_MIN_NS..=TS_MAX_NS).contains(&w) => {
            ensure!(ts.as_nanosecond() == w, format!("{what}-instant"), "{what}: got {ts} ({}) want {w}ns", ts.as_nanosecond());
            ensure!(ts == Timestamp::from_nanosecond(w).unwrap(), format!("{what}-eq"), "{what}: instant {w} not == (mixed-sign fields)");
            Ok(())
        }
        (Err(_), Some(w)) if !(TS_MIN_NS..=TS_MAX_NS).contains(&w) => Ok(()),
        (Err(_), None) => Ok(()),
        (Ok(ts), Some(w)) => fail!(format!("{what}-accepts-out-of-range"), "{what}: Ok({ts}) but expected instant {w} is out of range"),
        (Ok(ts), None) => fail!(format!("{what}-accepts-ambiguous"), "{what}: Ok({ts}) but must be rejected"),
        (Err(e), Some(w)) => fail!(format!("{what}-rejects"), "{what}: Err({e}) but expected instant {w}ns"),
    }
}

pub fn check_civil(z: &Zone, c: i128) -> CaseResult {
    check_civil_inner(z, c).map_err(|mut f| {
        // see c03::year_spill_suffix: one specific, listed finding
        if let Some(sfx) = crate::props::c03::year_spill_suffix(z, c.div_euclid(NS_PER_SEC) as i64) {
            f.msg = format!("[clause {}] {}", f.sig, f.msg);
            f.sig = sfx;
        }
        // one listed finding: rules whose daylight period is shorter than the clock shift
        let hostile = zones::POSIX_ADVERSARIAL.iter().any(|p| z.label.strip_prefix("posix:") == Some(*p));
        let route_clause = f.sig.ends_with("-offset") || f.sig.ends_with("-datetime") || f.sig.ends_with("-differs-from-compatible");
        if hostile && !route_clause && !f.sig.starts_with("year-spill") {
            f.msg = format!("[clause {}] {}", f.sig, f.msg);
            f.sig = "posix-rule-with-daylight-period-shorter-than-its-shift".into();
        }
        f
    })
}

/// Every route from a civil time to a Zoned must hand back a value that is consistent with the
/// zone (stored offset = zone's offset at the stored instant, stored civil time = that instant at
/// that offset), and the routes documented as "compatible" must agree with each other. Holds for
/// any zone data, including where the reference cannot say which instant is "right".
fn routes_consistent(z: &Zone, dt: DateTime) -> CaseResult {
    let az = z.tz.to_ambiguous_zoned(dt);
    let routes = [
        ("zoned-compatible", az.clone().compatible()),
        ("zoned-earlier", az.clone().earlier()),
        ("zoned-later", az.clone().later()),
        ("tz-to-zoned", z.tz.to_zoned(dt)),
        ("dt-to-zoned", dt.to_zoned(z.tz.clone())),
    ];
    let mut compat_ts: Option<Timestamp> = None;
    for (what, got) in routes {
        let Ok(zd) = got else { continue };
        let fl = zd.timestamp().as_nanosecond().div_euclid(NS_PER_SEC) as i64;
        let ro = z.rz.lookup(fl).off;
        ensure!(zd.offset().seconds() == ro, format!("{what}-offset"), "{what} (overlapping windows): civil {dt} gave a Zoned with offset {} but the zone says {ro} at {}", zd.offset(), zd.timestamp());
        let shown = Offset::from_seconds(ro).unwrap().to_datetime(zd.timestamp());
        ensure!(zd.datetime() == shown, format!("{what}-datetime"), "{what} (overlapping windows): Zoned datetime {} but its instant displays {shown}", zd.datetime());
        if what == "zoned-compatible" {
            compat_ts = Some(zd.timestamp());
        } else if what == "tz-to-zoned" || what == "dt-to-zoned" {
            if let Some(c0) = compat_ts {
                ensure!(zd.timestamp() == c0, format!("{what}-differs-from-compatible"), "{what}: civil {dt} -> {} but to_ambiguous_zoned().compatible() -> {c0}", zd.timestamp());
            }
        }
    }
    Ok(())
}

fn check_civil_inner(z: &Zone, c: i128) -> CaseResult {
    let dt = civil_to_dt(c);
    let csec = c.div_euclid(NS_PER_SEC) as i64;
    let want = z.rz.resolve(csec);
    let hostile = zones::POSIX_ADVERSARIAL.iter().any(|p| z.label.strip_prefix("posix:") == Some(*p));
    if want == Civil::Weird || hostile {
        // windows of neighbouring transitions overlap (or may): which instant is "right" is
        // outside the statement, consistency of what is handed back is not
        routes_consistent(z, dt)?;
    }
    if want == Civil::Weird {
        return Ok(());
    }
    let at = z.tz.to_ambiguous_timestamp(dt);
    let got = kind_of(&at.offset());
    ensure!(got == want, "classification", "{} civil {dt}: jiff {:?} want {:?}", z.label, got, want);
    ensure!(at.datetime() == dt, "ambiguous-datetime", "AmbiguousTimestamp::datetime {} != {dt}", at.datetime());
    let inst = |o: i32| c - o as i128 * NS_PER_SEC;
    let (compat, earlier, later, reject) = match want {
        Civil::Unambiguous(o) => (inst(o), inst(o), inst(o), Some(inst(o))),
        // gap: compatible/later use the offset before the gap (later
        // instant), earlier uses the offset after it
        Civil::Gap(b, a) => (inst(b), inst(a), inst(b), None),
        // fold: compatible/earlier = earlier instant (offset before)
        Civil::Fold(b, a) => (inst(b), inst(b), inst(a), None),
        Civil::Weird => unreachable!(),
    };
    expect_ts("compatible", at.clone().compatible(), Some(compat))?;
    expect_ts("earlier", at.clone().earlier(), Some(earlier))?;
    expect_ts("later", at.clone().later(), Some(later))?;
    expect_ts("reject", at.clone().unambiguous(), reject)?;
    expect_ts("disambiguate-compatible", at.clone().disambiguate(Disambiguation::Compatible), Some(compat))?;
    expect_ts("disambiguate-earlier", at.clone().disambiguate(Disambiguation::Earlier), Some(earlier))?;
    expect_ts("disambiguate-later", at.clone().disambiguate(Disambiguation::Later), Some(later))?;
    expect_ts("disambiguate-reject", at.clone().disambiguate(Disambiguation::Reject), reject)?;
    expect_ts("tz-to-timestamp", z.tz.to_timestamp(dt), Some(compat))?;
    // zoned flavours
    let az = z.tz.to_ambiguous_zoned(dt);
    ensure!(az.is_ambiguous() == !matches!(want, Civil::Unambiguous(_)) && at.is_ambiguous() == az.is_ambiguous(), "classification-is-ambiguous", "is_ambiguous() = {} / {} for {:?}", at.is_ambiguous(), az.is_ambiguous(), want);
    ensure!(kind_of(&az.offset()) == want, "classification-zoned", "to_ambiguous_zoned classification {:?} want {:?}", az.offset(), want);
    let zs = [
        ("zoned-compatible", az.clone().compatible(), Some(compat)),
        ("zoned-earlier", az.clone().earlier(), Some(earlier)),
        ("zoned-later", az.clone().later(), Some(later)),
        ("zoned-reject", az.clone().unambiguous(), reject),
        ("tz-to-zoned", z.tz.to_zoned(dt), Some(compat)),
        ("dt-to-zoned", dt.to_zoned(z.tz.clone()), Some(compat)),
    ];
    for (what, got, want_ns) in zs {
        match got {
            Ok(zd) => {
                expect_ts(what, Ok(zd.timestamp()), want_ns)?;
                // internal consistency of the produced Zoned (C13 flavour)
                let fl = zd.timestamp().as_nanosecond().div_euclid(NS_PER_SEC) as i64;
                let ro = z.rz.lookup(fl).off;
                ensure!(zd.offset().seconds() == ro, format!("{what}-offset"), "{what}: Zoned offset {} but zone says {ro} at {}", zd.offset(), zd.timestamp());
                let shown = Offset::from_seconds(ro).unwrap().to_datetime(zd.timestamp());
                ensure!(zd.datetime() == shown, format!("{what}-datetime"), "{what}: Zoned datetime {} but instant displays {shown}", zd.datetime());
                if !matches!(want, Civil::Gap(..)) {
                    ensure!(zd.datetime() == dt, format!("{what}-displays"), "{what}: non-gap civil {dt} produced a Zoned showing {}", zd.datetime());
                }
            }
            Err(e) => expect_ts(what, Err(e), want_ns)?,
        }
    }
    // every produced instant from a non-gap civil time displays it again
    if !matches!(want, Civil::Gap(..)) {
        for w in [compat, earlier, later] {
            if (TS_MIN_NS..=TS_MAX_NS).contains(&w) {
                let ts = Timestamp::from_nanosecond(w).unwrap();
                let shown = z.tz.to_datetime(ts);
                ensure!(shown == dt, "displays-again", "{}: instant {ts} from civil {dt} displays {shown}", z.label);
            }
        }
    }
    // literal C04: agreement with jiff's *own* instant->civil mapping
    let mut own: Vec<(i128, i32)> = vec![];
    let mut cand: Vec<i32> = z.rz.offsets();
    cand.extend(match got {
        Civil::Unambiguous(o) => vec![o],
        Civil::Gap(a, b) | Civil::Fold(a, b) => vec![a, b],
        Civil::Weird => vec![],
    });
    cand.sort();
    cand.dedup();
    let mut clipped = false;
    for o in cand {
        let t = inst(o);
        if !(TS_MIN_NS..=TS_MAX_NS).contains(&t) {
            clipped = true;
            continue;
        }
        let ts = Timestamp::from_nanosecond(t).unwrap();
        if z.tz.to_offset(ts).seconds() == o {
            own.push((t, o));
        }
    }
    if !clipped {
        own.sort();
        let own_kind = match own.len() {
            0 => "gap",
            1 => "unambiguous",
            2 => "fold",
            _ => "many",
        };
        let ok = match (&got, own.as_slice()) {
            (Civil::Unambiguous(o), [(_, o1)]) => o == o1,
            (Civil::Fold(b, a), [(_, o1), (_, o2)]) => b == o1 && a == o2,
            (Civil::Gap(..), []) => true,
            _ => false,
        };
        ensure!(ok, "self-consistency", "{} civil {dt}: classified {:?} but jiff's own instant mapping shows it {own_kind} {:?}", z.label, got, own);
    }
    Ok(())
}

fn replay_zc(v: Value) -> CaseResult {
    let c: ZC = serde_json::from_value(v).map_err(|e| Failure::new("decode", e.to_string()))?;
    let z = zones::by_label(&c.zone).ok_or_else(|| Failure::new("decode", format!("unknown zone {}", c.zone)))?;
    check_civil(&z, c.civil_ns.parse().map_err(|_| Failure::new("decode", "civil_ns"))?)
}

/// Civil probe points for transition T (local seconds of both window edges).
pub fn window_edges(z: &Zone, t: i64) -> Vec<i128> {
    let before = z.rz.lookup(t - 1).off as i64;
    let after = z.rz.lookup(t).off as i64;
    let mut v = vec![];
    for edge in [t + before, t + after] {
        let e = edge as i128 * NS_PER_SEC;
        for d in [-NS_PER_SEC, -1, 0, 1, NS_PER_SEC, NS_PER_SEC / 2, -NS_PER_SEC / 2] {
            v.push(e + d);
        }
    }
    v.push(((2 * t + before + after) as i128 * NS_PER_SEC) / 2);
    v
}

fn sweep_zones(rec: &Recorder, check: &'static str, zs: &[Arc<Zone>]) {
    par_chunks(rec.opts.threads, zs.len() as u64, |r| {
        let mut evals = 0u64;
        let (mut gaps, mut folds, mut limits) = (0u64, 0u64, 0u64);
        for i in r {
            let z = &zs[i as usize];
            let mut sm = SplitMix::from(rec.opts.seed, &z.label, 4);
            let mut civs: Vec<i128> = vec![];
            for &t in &z.probes {
                civs.extend(window_edges(z, t));
            }
            for k in [0i128, 1, NS_PER_SEC, 3600 * NS_PER_SEC, 26 * 3600 * NS_PER_SEC, 26 * 3600 * NS_PER_SEC + 1, 52 * 3600 * NS_PER_SEC] {
                civs.push(CIVIL_MIN_NS + k);
                civs.push(CIVIL_MAX_NS - k);
            }
            for _ in 0..48 {
                civs.push(sm.range(rc::DAY_MIN, rc::DAY_MAX) as i128 * NS_PER_DAY + sm.range(0, 86_399_999_999_999) as i128);
            }
            for c in civs {
                if c < CIVIL_MIN_NS || c > CIVIL_MAX_NS {
                    continue;
                }
                evals += 1;
                match z.rz.resolve(c.div_euclid(NS_PER_SEC) as i64) {
                    Civil::Gap(..) => gaps += 1,
                    Civil::Fold(..) => folds += 1,
                    _ => {}
                }
                if c - CIVIL_MIN_NS < 53 * 3600 * NS_PER_SEC || CIVIL_MAX_NS - c < 53 * 3600 * NS_PER_SEC {
                    limits += 1;
                }
                let case = ZC { zone: z.label.clone(), civil_ns: c.to_string() };
                sweep_case(rec, check, &case, || check_civil(z, c));
            }
        }
        rec.add_evaluations(evals);
        rec.add_distinct_nontrivial(evals);
        rec.add_class(&format!("{check}:probes"), evals);
        rec.add_class(&format!("{check}:in-gap"), gaps);
        rec.add_class(&format!("{check}:in-fold"), folds);
        rec.add_class(&format!("{check}:near-civil-limits"), limits);
    });
}

fn run_installed(rec: &Recorder, check: &'static str) {
    sweep_zones(rec, check, &zones::installed().zones);
    rec.add_sample(json!({"check": check, "case": {"zone": "file:America/New_York", "civil": "2024-03-10T02:30:00", "expect": "Gap(-18000,-14400)"}}));
}
fn run_bundled(rec: &Recorder, check: &'static str) {
    sweep_zones(rec, check, &zones::bundled().zones);
}
fn run_synthetic(rec: &Recorder, check: &'static str) {
    let mut zs: Vec<Arc<Zone>> = zones::synthetic().zones.clone();
    zs.extend(zones::posix_zones().iter().cloned());
    for &o in zones::FIXED_OFFSETS {
        zs.push(zones::by_label(&format!("fixed:{o}")).unwrap());
    }
    zs.push(zones::by_label("utc").unwrap());
    sweep_zones(rec, check, &zs);
}

// --- generated ------------------------------------------------------------------------

#[derive(Serialize, Deserialize, Debug, Clone)]
pub struct CivilProbe {
    pub zone_sel: u16,
    pub trans_sel: u16,
    pub mode: u8,
    pub edge: u8,
    pub delta_ns: i64,
    pub raw_day: i64,
    pub raw_tod: i64,
}

pub fn strat_civil_probe() -> BoxedStrategy<CivilProbe> {
    let delta = prop_oneof![
        4 => prop_oneof![Just(0i64), Just(-1), Just(1), Just(-1_000_000_000), Just(1_000_000_000), Just(-500_000_000)],
        2 => -7_200_000_000_000i64..=7_200_000_000_000,
        1 => -172_800_000_000_000i64..=172_800_000_000_000,
    ];
    (any::<u16>(), any::<u16>(), 0u8..10, 0u8..2, delta, gen::biased(rc::DAY_MIN, rc::DAY_MAX), gen::tod_ns())
        .prop_map(|(zone_sel, trans_sel, mode, edge, delta_ns, raw_day, raw_tod)| CivilProbe { zone_sel, trans_sel, mode, edge, delta_ns, raw_day, raw_tod })
        .boxed()
}

pub fn resolve_civil_probe(zs: &[Arc<Zone>], p: &CivilProbe) -> (Arc<Zone>, i128) {
    let z = zs[zones::pick(p.zone_sel, zs.len())].clone();
    let c = if p.mode < 7 && !z.probes.is_empty() {
        let t = z.probes[zones::pick(p.trans_sel, z.probes.len())];
        let off = if p.edge == 0 { z.rz.lookup(t - 1).off } else { z.rz.lookup(t).off } as i64;
        (t + off) as i128 * NS_PER_SEC + p.delta_ns as i128
    } else if p.mode == 7 {
        // extreme civil datetimes
        if p.edge == 0 {
            CIVIL_MIN_NS + (p.delta_ns as i128).abs()
        } else {
            CIVIL_MAX_NS - (p.delta_ns as i128).abs()
        }
    } else {
        p.raw_day as i128 * NS_PER_DAY + p.raw_tod as i128
    };
    (z, c.clamp(CIVIL_MIN_NS, CIVIL_MAX_NS))
}

fn universe_all() -> &'static Vec<Arc<Zone>> {
    static U: std::sync::OnceLock<Vec<Arc<Zone>>> = std::sync::OnceLock::new();
    U.get_or_init(|| {
        let mut v = zones::universe(true);
        // hostile rules (gap reaching past the next transition): listed often enough to get a
        // fair share next to ~1800 files
        for _ in 0..40 {
            v.extend(zones::posix_adversarial_zones().iter().cloned());
        }
        v
    })
}

fn test_generated(p: &CivilProbe, cx: &mut Cx) -> CaseResult {
    let (z, c) = resolve_civil_probe(universe_all(), p);
    let k = z.rz.resolve(c.div_euclid(NS_PER_SEC) as i64);
    let near_limit = c - CIVIL_MIN_NS < 53 * 3600 * NS_PER_SEC || CIVIL_MAX_NS - c < 53 * 3600 * NS_PER_SEC;
    let in_window = matches!(k, Civil::Gap(..) | Civil::Fold(..));
    let near_window = in_window || (p.mode < 7 && p.delta_ns.abs() <= 1_000_000_000);
    cx.nt_if(near_window || near_limit);
    cx.class_if(in_window, "in-window");
    cx.class_if(near_window, "in-or-at-window");
    cx.class_if(near_limit, "near-civil-limit");
    cx.class_if(k == Civil::Weird, "weird-skipped");
    check_civil(&z, c).map_err(|mut f| {
        f.msg = format!("[zone={} civil_ns={c}] {}", z.label, f.msg);
        f
    })
}

// --- generated POSIX strings -----------------------------------------------------------

#[derive(Serialize, Deserialize, Debug, Clone)]
struct PosixCivil {
    tz: String,
    year: i64,
    which: u8,
    edge: u8,
    delta_ns: i64,
}

fn strat_posix_civil() -> BoxedStrategy<PosixCivil> {
    let delta = prop_oneof![
        4 => prop_oneof![Just(0i64), Just(-1), Just(1), Just(-1_000_000_000), Just(1_000_000_000)],
        2 => -7_200_000_000_000i64..=7_200_000_000_000,
    ];
    let year = prop_oneof![3 => 1900i64..=2100, 2 => -9998i64..=9998];
    (crate::props::c03::strat_posix_string(), year, 0u8..2, 0u8..2, delta)
        .prop_map(|(tz, year, which, edge, delta_ns)| PosixCivil { tz, year, which, edge, delta_ns })
        .boxed()
}

fn test_posix(c: &PosixCivil, cx: &mut Cx) -> CaseResult {
    let Some(p) = crate::refmodel::reftz::parse_posix(&c.tz) else {
        cx.tolerate("ref-rejects");
        return Ok(());
    };
    if !p.is_tame(8 * 86400) {
        cx.tolerate("year-spilling-rule");
        return Ok(());
    }
    let Ok(tz) = jiff::tz::TimeZone::posix(&c.tz) else {
        cx.tolerate("jiff-rejects");
        return Ok(());
    };
    let z = Zone { label: format!("posix:{}", c.tz), tz, rz: crate::refmodel::reftz::RefZone::posix_only(p.clone()), bytes: None, probes: vec![], has_footer: true, explicit: 0 };
    let tr = p.year_transitions(c.year);
    if tr.is_empty() {
        cx.tolerate("no-rule");
        return Ok(());
    }
    let t = tr[c.which as usize].0;
    let off = if c.edge == 0 { z.rz.lookup(t - 1).off } else { z.rz.lookup(t).off } as i64;
    let civ = ((t + off) as i128 * NS_PER_SEC + c.delta_ns as i128).clamp(CIVIL_MIN_NS, CIVIL_MAX_NS);
    cx.class("tame");
    cx.nt_if(c.delta_ns.abs() <= 1_000_000_000);
    check_civil(&z, civ)
}

pub fn property() -> Property {
    let _ = (TS_MIN, TS_MAX);
    Property {
        id: "C04",
        level: "exploration",
        rule: "For every zone of the C03 universe, both wall-clock edges of every recorded/rule-generated transition are probed at -1s, -0.5s, -1ns, 0, +1ns, +0.5s, +1s and mid-window, plus DateTime::MIN/MAX (+-0..52h) and seed-derived random civil times; proptest adds (zone, transition edge, delta) and generated POSIX TZ strings. Oracle: the set of instants that display the civil time, derived from the reference reader's instant direction only (never from a second table), and separately jiff's own instant->offset mapping (the literal wording of C04). All four strategies, to_zoned/to_timestamp/to_ambiguous_zoned are compared with the documented instant choice; out-of-range results must be Err. Non-trivial: inside or within 1s of a gap/fold window or within 53h of DateTime::MIN/MAX.",
        assumptions: &[
            "reftz.rs instant direction (decided by C03)",
            "civil times that three or more instants display (overlapping windows in synthetic zones) are outside the statement: skipped and counted",
        ],
        checks: vec![
            Box::new(Sweep { name: "c04.installed", run: run_installed, replay: replay_zc }),
            Box::new(Sweep { name: "c04.bundled", run: run_bundled, replay: replay_zc }),
            Box::new(Sweep { name: "c04.synthetic", run: run_synthetic, replay: replay_zc }),
            Box::new(Prop { name: "c04.generated", quick: 2_400_000, thorough: 30_000_000, strategy: strat_civil_probe, test: test_generated }),
            Box::new(Prop { name: "c04.posix_gen", quick: 800_000, thorough: 10_000_000, strategy: strat_posix_civil, test: test_posix }),
        ],
        floors: |rec| {
            rec.floor("c04.generated:in-or-at-window", "c04.generated:cases", 0.25);
            rec.floor("c04.generated:near-civil-limit", "c04.generated:cases", 0.02);
        },
    }
}
