//! C09 Datetimes print to RFC 3339/9557 text that parses back to the same value.

use std::sync::Arc;

use jiff::civil::{Date, DateTime, Time};
use jiff::fmt::temporal::{DateTimeParser, DateTimePrinter};
use jiff::tz::{Offset, TimeZone};
use jiff::{Timestamp, Zoned};
use proptest::prelude::*;
use serde::{Deserialize, Serialize};

use crate::engine::*;
use crate::gen;
use crate::props::c03::{resolve_probe, strat_zone_probe, ZoneProbe};
use crate::refmodel::refcal as rc;
use crate::refmodel::reftz::Civil;
use crate::refmodel::refzoned as rz;
use crate::refmodel::wide::*;
use crate::zones::{self, Zone};
use crate::{ensure, fail};

/// Independent reader for RFC 3339 timestamps (plus jiff's documented
/// signed six-digit year extension). Returns (civil ns since epoch (local),
/// offset seconds or None for Z, bytes consumed).
fn read_rfc3339(s: &str) -> Option<(i128, Option<i32>, usize)> {
    let b = s.as_bytes();
    let mut i = 0usize;
    let num = |b: &[u8], i: &mut usize, n: usize| -> Option<i64> {
        if *i + n > b.len() {
            return None;
        }
        let mut v = 0i64;
        for k in 0..n {
            let c = b[*i + k];
            if !c.is_ascii_digit() {
                return None;
            }
            v = v * 10 + (c - b'0') as i64;
        }
        *i += n;
        Some(v)
    };
    let year = if b.first() == Some(&b'+') || b.first() == Some(&b'-') {
        let neg = b[0] == b'-';
        i = 1;
        let y = num(b, &mut i, 6)?;
        if neg {
            -y
        } else {
            y
        }
    } else {
        num(b, &mut i, 4)?
    };
    if b.get(i) != Some(&b'-') {
        return None;
    }
    i += 1;
    let mo = num(b, &mut i, 2)?;
    if b.get(i) != Some(&b'-') {
        return None;
    }
    i += 1;
    let d = num(b, &mut i, 2)?;
    match b.get(i) {
        Some(b'T') | Some(b't') | Some(b' ') => i += 1,
        _ => return None,
    }
    let h = num(b, &mut i, 2)?;
    if b.get(i) != Some(&b':') {
        return None;
    }
    i += 1;
    let mi = num(b, &mut i, 2)?;
    if b.get(i) != Some(&b':') {
        return None;
    }
    i += 1;
    let sec = num(b, &mut i, 2)?;
    let mut frac = 0i128;
    if b.get(i) == Some(&b'.') {
        i += 1;
        let st = i;
        while i < b.len() && b[i].is_ascii_digit() {
            i += 1;
        }
        let digits = &s[st..i];
        if digits.is_empty() || digits.len() > 9 {
            return None;
        }
        frac = digits.parse::<i128>().ok()? * 10i128.pow(9 - digits.len() as u32);
    }
    if !rc::valid(year, mo, d) || h > 23 || mi > 59 || sec > 59 {
        return None;
    }
    let civil = rc::to_days(year, mo, d) as i128 * NS_PER_DAY + (h * 3600 + mi * 60 + sec) as i128 * NS_PER_SEC + frac;
    let off = match b.get(i) {
        Some(b'Z') | Some(b'z') => {
            i += 1;
            None
        }
        Some(&c) if c == b'+' || c == b'-' => {
            i += 1;
            let oh = num(b, &mut i, 2)?;
            if b.get(i) != Some(&b':') {
                return None;
            }
            i += 1;
            let om = num(b, &mut i, 2)?;
            if om > 59 {
                return None;
            }
            let v = (oh * 3600 + om * 60) as i32;
            Some(if c == b'-' { -v } else { v })
        }
        _ => return None,
    };
    Some((civil, off, i))
}

// --- Timestamp / civil types ---------------------------------------------------------------------

#[derive(Serialize, Deserialize, Debug, Clone)]
struct CivilCase {
    ns: String,
    off: i32,
    precision: Option<u8>,
    sep: u8,
    lower: bool,
}

fn trunc_to(ns: i128, precision: Option<u8>) -> i128 {
    match precision {
        None => ns,
        Some(p) => {
            let unit = 10i128.pow(9 - p.min(9) as u32);
            // truncation toward zero of the fractional digits of the *printed
            // civil value*; callers apply it to non-negative time-of-day
            ns / unit * unit
        }
    }
}

/// serde: the serialised form is the default printed form (as a string) and deserialises to an
/// equal value, from text and from bytes
fn serde_roundtrip<T>(v: &T, text: &str, what: &str) -> CaseResult
where
    T: serde::Serialize + serde::de::DeserializeOwned + PartialEq + std::fmt::Debug,
{
    let json = serde_json::to_string(v).map_err(|e| Failure::new(format!("serde-serialize-err:{what}"), format!("{v:?}: {e}")))?;
    ensure!(json == format!("\"{text}\""), format!("serde-differs-from-display:{what}"), "{v:?} serialises as {json} but prints as {text:?}");
    let back: T = serde_json::from_str(&json).map_err(|e| Failure::new(format!("serde-deserialize-err:{what}"), format!("{json}: {e}")))?;
    let back2: T = serde_json::from_slice(json.as_bytes()).map_err(|e| Failure::new(format!("serde-deserialize-err:{what}"), format!("{json} (bytes): {e}")))?;
    let back3: T = serde_json::from_value(serde_json::Value::String(text.to_string())).map_err(|e| Failure::new(format!("serde-deserialize-err:{what}"), format!("{json} (owned string): {e}")))?;
    ensure!(&back == v && &back2 == v && &back3 == v, format!("serde-roundtrip:{what}"), "{v:?} -> {json} -> {back:?} / {back2:?} / {back3:?}");
    Ok(())
}

fn test_civil(c: &CivilCase, cx: &mut Cx) -> CaseResult {
    let ns: i128 = c.ns.parse().unwrap();
    let ts = gen::mk_ts(ns);
    cx.nt_if(ns % NS_PER_SEC != 0 || ns < 0 || c.precision.is_some());
    cx.class_if(c.precision.is_some(), "reduced-precision");
    // default Display / FromStr
    let text = ts.to_string();
    let back: Timestamp = text.parse().map_err(|e| Failure::new("timestamp-reparse-err", format!("{text:?} does not parse: {e}")))?;
    ensure!(back == ts && back.as_nanosecond() == ns, "timestamp-roundtrip", "{ts:?} -> {text:?} -> {back:?}");
    if let Err(e) = gen::ts_sane(back) {
        fail!("timestamp-roundtrip-incoherent", "{text:?}: {e}");
    }
    // independent reader: must denote the same instant
    match read_rfc3339(&text) {
        Some((civil, off, used)) => {
            ensure!(used == text.len(), "timestamp-not-rfc3339", "{text:?}: trailing text after an RFC 3339 timestamp");
            let inst = civil - off.unwrap_or(0) as i128 * NS_PER_SEC;
            ensure!(inst == ns, "timestamp-independent-reader", "{text:?} denotes {inst}ns to an independent RFC 3339 reader, want {ns}");
        }
        None => fail!("timestamp-not-rfc3339", "{text:?} is not an RFC 3339 timestamp"),
    }
    // display_with_offset
    let off = Offset::from_seconds(c.off / 60 * 60).unwrap();
    let text = ts.display_with_offset(off).to_string();
    let back: Timestamp = text.parse().map_err(|e| Failure::new("timestamp-offset-reparse-err", format!("{text:?} does not parse: {e}")))?;
    ensure!(back == ts, "timestamp-offset-roundtrip", "{ts} with offset {off} -> {text:?} -> {back}");
    match read_rfc3339(&text) {
        Some((civil, o, _)) => ensure!(civil - o.unwrap_or(0) as i128 * NS_PER_SEC == ns, "timestamp-offset-independent-reader", "{text:?} denotes a different instant to an independent reader"),
        None => fail!("timestamp-offset-not-rfc3339", "{text:?} is not RFC 3339"),
    }
    {
        // the same text by the other public routes
        use jiff::fmt::temporal::Pieces;
        let pr = DateTimePrinter::new();
        let s2 = pr.timestamp_with_offset_to_string(&ts, off);
        let mut s3 = String::new();
        let _ = pr.print_timestamp_with_offset(&ts, off, &mut s3);
        ensure!(s2 == text && s3 == text, "timestamp-with-offset-routes-differ", "{ts} at {off}: display_with_offset {text:?}, printer {s2:?}, print_ {s3:?}");
        let p = Pieces::from((ts, off));
        ensure!(p.to_string() == text, "pieces-from-timestamp-offset-print", "{ts} at {off}: Pieces prints {:?}, Display prints {text:?}", p.to_string());
        let zulu = ts.to_string();
        let mut s4 = String::new();
        let _ = pr.print_timestamp(&ts, &mut s4);
        ensure!(s4 == zulu && pr.timestamp_to_string(&ts) == zulu && Pieces::from(ts).to_string() == zulu, "timestamp-routes-differ", "{ts:?}: Display {zulu:?}, print_timestamp {s4:?}, Pieces {:?}", Pieces::from(ts).to_string());
        let pp = Pieces::parse(&text).map_err(|e| Failure::new("pieces-parse-err", format!("{text:?}: {e}")))?;
        let back = pp.to_numeric_offset().and_then(|o| o.to_timestamp(pp.date().to_datetime(pp.time().unwrap_or(Time::midnight()))).ok());
        ensure!(back == Some(ts), "pieces-timestamp-roundtrip", "{text:?}: through Pieces = {back:?}, want {ts}");
        if let Some(p) = c.precision {
            let a = format!("{ts:.*}", p as usize);
            let b = DateTimePrinter::new().precision(Some(p)).timestamp_to_string(&ts);
            ensure!(a == b, "display-precision-differs-from-printer", "{ts:?}: format!(\"{{:.{p}}}\") = {a:?}, printer = {b:?}");
        }
    }
    // Display precision above nine digits is documented to mean nine (lossless), however large
    {
        const BIG: [usize; 16] = [9, 10, 19, 100, 255, 256, 257, 264, 265, 300, 511, 512, 768, 1024, 4096, 65535];
        let n = BIG[(ns.unsigned_abs() % BIG.len() as u128) as usize];
        let nine = DateTimePrinter::new().precision(Some(9));
        let a = format!("{ts:.*}", n);
        ensure!(a == nine.timestamp_to_string(&ts) && a.parse::<Timestamp>().ok() == Some(ts), "display-large-precision", "{ts:?}: format!(\"{{:.{n}}}\") = {a:?}");
        let b = format!("{:.*}", n, ts.display_with_offset(off));
        ensure!(b == nine.timestamp_with_offset_to_string(&ts, off) && b.parse::<Timestamp>().ok() == Some(ts), "display-large-precision", "{ts:?} at {off}: format!(\"{{:.{n}}}\") = {b:?}");
    }
    // civil types
    let (y, m, d, tod) = crate::props::c02::ref_civil(ns, c.off);
    let date: Date = gen::mk_date(y as i16, m as i8, d as i8);
    let time: Time = gen::mk_time(tod as i64);
    let dt: DateTime = date.to_datetime(time);
    let dtext = date.to_string();
    ensure!(dtext.parse::<Date>().ok() == Some(date), "date-roundtrip", "{date:?} -> {dtext:?} -> {:?}", dtext.parse::<Date>());
    let ttext = time.to_string();
    ensure!(ttext.parse::<Time>().ok() == Some(time), "time-roundtrip", "{time:?} -> {ttext:?} -> {:?}", ttext.parse::<Time>());
    let dttext = dt.to_string();
    ensure!(dttext.parse::<DateTime>().ok() == Some(dt), "datetime-roundtrip", "{dt:?} -> {dttext:?} -> {:?}", dttext.parse::<DateTime>());
    {
        let pr = DateTimePrinter::new();
        let (mut a, mut b, mut cc) = (String::new(), String::new(), String::new());
        let _ = (pr.print_date(&date, &mut a), pr.print_time(&time, &mut b), pr.print_datetime(&dt, &mut cc));
        ensure!(a == dtext && b == ttext && cc == dttext, "civil-print-routes-differ", "{dt}: print_date {a:?} print_time {b:?} print_datetime {cc:?}");
        use jiff::fmt::temporal::Pieces;
        ensure!(Pieces::from(date).to_string() == dtext && Pieces::from(dt).to_string() == dttext, "pieces-from-civil-print", "{dt}: Pieces prints {:?} / {:?}", Pieces::from(date).to_string(), Pieces::from(dt).to_string());
        let pp = Pieces::parse(&dttext).map_err(|e| Failure::new("pieces-parse-err", format!("{dttext:?}: {e}")))?;
        ensure!(pp.date() == date && pp.time() == Some(time) && pp.offset().is_none() && pp.time_zone_annotation().is_none(), "pieces-civil", "{dttext:?}: Pieces = {pp:?}");
        ensure!(dttext.as_bytes().len() == dttext.len() && DateTimeParser::new().parse_datetime(dttext.as_bytes()).ok() == Some(dt), "datetime-roundtrip", "{dttext:?} as bytes");
        {
            const BIG: [usize; 16] = [9, 10, 19, 100, 255, 256, 257, 264, 265, 300, 511, 512, 768, 1024, 4096, 65535];
            let n = BIG[(ns.unsigned_abs() % BIG.len() as u128) as usize];
            let nine = DateTimePrinter::new().precision(Some(9));
            let (a, b) = (format!("{dt:.*}", n), format!("{time:.*}", n));
            ensure!(a == nine.datetime_to_string(&dt) && a.parse::<DateTime>().ok() == Some(dt) && b == nine.time_to_string(&time) && b.parse::<Time>().ok() == Some(time), "display-large-precision", "{dt:?}: format!(\"{{:.{n}}}\") = {a:?} / {b:?}");
        }
        if let Some(p) = c.precision {
            let a = format!("{dt:.*}", p as usize);
            let b = DateTimePrinter::new().precision(Some(p)).datetime_to_string(&dt);
            let a2 = format!("{time:.*}", p as usize);
            let b2 = DateTimePrinter::new().precision(Some(p)).time_to_string(&time);
            ensure!(a == b && a2 == b2, "display-precision-differs-from-printer", "{dt:?}: format!(\"{{:.{p}}}\") = {a:?} / {a2:?}, printer = {b:?} / {b2:?}");
        }
    }
    serde_roundtrip(&ts, &ts.to_string(), "Timestamp")?;
    serde_roundtrip(&date, &dtext, "Date")?;
    serde_roundtrip(&time, &ttext, "Time")?;
    serde_roundtrip(&dt, &dttext, "DateTime")?;
    // printer options: the parsed value equals the original truncated to the precision
    let printer = DateTimePrinter::new().precision(c.precision).separator(c.sep).lowercase(c.lower);
    let parser = DateTimeParser::new();
    let want_tod = trunc_to(tod, c.precision);
    let want_dt = date.to_datetime(gen::mk_time(want_tod as i64));
    let s = printer.datetime_to_string(&dt);
    let p = parser.parse_datetime(&s).map_err(|e| Failure::new("printer-datetime-reparse-err", format!("{s:?}: {e}")))?;
    ensure!(p == want_dt, "printer-datetime-roundtrip", "{dt} printed {s:?} parsed {p} want {want_dt}");
    let s = printer.time_to_string(&time);
    let p = parser.parse_time(&s).map_err(|e| Failure::new("printer-time-reparse-err", format!("{s:?}: {e}")))?;
    ensure!(p == want_dt.time(), "printer-time-roundtrip", "{time} printed {s:?} parsed {p}");
    let s = printer.date_to_string(&date);
    ensure!(parser.parse_date(&s).ok() == Some(date), "printer-date-roundtrip", "{date} printed {s:?}");
    // timestamp through the printer: truncation applies to the printed UTC civil value
    let s = printer.timestamp_to_string(&ts);
    let p = parser.parse_timestamp(&s).map_err(|e| Failure::new("printer-timestamp-reparse-err", format!("{s:?}: {e}")))?;
    let (uy, um, ud, utod) = crate::props::c02::ref_civil(ns, 0);
    let want = rc::to_days(uy, um, ud) as i128 * NS_PER_DAY + trunc_to(utod, c.precision);
    ensure!(p.as_nanosecond() == want, "printer-timestamp-roundtrip", "{ts} printed {s:?} parsed {p} ({}) want {want}", p.as_nanosecond());
    match read_rfc3339(&s) {
        Some((civil, o, used)) => ensure!(used == s.len() && civil - o.unwrap_or(0) as i128 * NS_PER_SEC == want, "printer-timestamp-independent-reader", "{s:?} read independently differs"),
        None => fail!("printer-timestamp-not-rfc3339", "{s:?} is not RFC 3339"),
    }
    Ok(())
}

fn strat_civil() -> BoxedStrategy<CivilCase> {
    let sub = prop_oneof![
        Just(0i64), Just(1), Just(10), Just(100), Just(1_000), Just(10_000), Just(100_000), Just(1_000_000), Just(10_000_000), Just(100_000_000),
        Just(999_999_999), Just(123_456_789), Just(500_000_000), Just(120_000_000), Just(123_000), 0i64..1_000_000_000
    ];
    let ns = prop_oneof![
        3 => gen::ts_ns(),
        3 => (gen::biased(-377705023201, 253402207199), sub).prop_map(|(s, n)| (s as i128 * NS_PER_SEC + n as i128).clamp(TS_MIN_NS, TS_MAX_NS)),
    ];
    (ns, gen::offset_secs(), prop::option::of(0u8..=9), prop_oneof![Just(b'T'), Just(b' '), Just(b't')], any::<bool>())
        .prop_map(|(ns, off, precision, sep, lower)| CivilCase { ns: ns.to_string(), off, precision, sep: if sep == b't' { b'T' } else { sep }, lower })
        .boxed()
}

// --- Zoned ----------------------------------------------------------------------------------------

/// zones reachable by name through the global database (what the parser
/// will look up), paired with the reference reading of the same file
fn db_zones() -> &'static Vec<Arc<Zone>> {
    static U: std::sync::OnceLock<Vec<Arc<Zone>>> = std::sync::OnceLock::new();
    U.get_or_init(|| {
        let db = jiff::tz::db();
        let mut v = vec![];
        for name in db.available() {
            let name = name.as_str().to_string();
            let Ok(tz) = db.get(&name) else { continue };
            let Ok(bytes) = std::fs::read(format!("{}/{}", zones::ZONEINFO, name)) else { continue };
            let Some(rzone) = crate::refmodel::reftz::parse_tzif(&bytes) else { continue };
            if !rzone.footer_consistent() {
                continue;
            }
            let probes = zones::make_probes(&rzone, 2045);
            v.push(Arc::new(Zone { label: format!("db:{name}"), tz, has_footer: rzone.footer.is_some(), explicit: rzone.trans.len(), rz: rzone, bytes: None, probes }));
        }
        // fixed whole-minute offsets and UTC
        for o in [0, 3600, -3600, 19800, 20700, -34200, 93540, -93540, 60, -60] {
            v.push(zones::by_label(&format!("fixed:{o}")).unwrap());
        }
        v.push(zones::by_label("utc").unwrap());
        v
    })
}

#[derive(Serialize, Deserialize, Debug, Clone)]
struct ZonedCase {
    probe: ZoneProbe,
    /// Some(frac): place the instant inside the fold/sub-minute window of
    /// the probed transition
    fold_frac: Option<u16>,
    later: bool,
    precision: Option<u8>,
}

fn test_zoned(c: &ZonedCase, cx: &mut Cx) -> CaseResult {
    let (z, mut ns) = resolve_probe(db_zones(), &c.probe);
    if let (Some(frac), false) = (c.fold_frac, z.probes.is_empty()) {
        let t = z.probes[zones::pick(c.probe.trans_sel, z.probes.len())];
        let ob = z.rz.lookup(t - 1).off as i64;
        let oa = z.rz.lookup(t).off as i64;
        if ob > oa {
            // fold of length ob-oa: [t-(ob-oa), t) earlier pass, [t, t+(ob-oa)) later pass
            let len = (ob - oa) as i128 * NS_PER_SEC;
            let pos = (len * frac as i128) >> 16;
            ns = t as i128 * NS_PER_SEC + if c.later { pos } else { pos - len };
            ns = ns.clamp(TS_MIN_NS, TS_MAX_NS);
        }
    }
    let zdt: Zoned = crate::props::c06::mk_zoned(&z, ns);
    let (loc, off) = rz::local_of(&z.rz, ns);
    let fold = matches!(z.rz.resolve(loc.div_euclid(NS_PER_SEC) as i64), Civil::Fold(..));
    let subminute = off % 60 != 0;
    cx.class_if(fold, "in-fold");
    cx.class_if(subminute, "sub-minute-offset");
    cx.class_if(fold && subminute, "fold-and-sub-minute");
    cx.nt_if(fold || subminute || ns % NS_PER_SEC != 0);
    let text = zdt.to_string();
    let ctx = format!("[{}] {text}", z.label);
    let back: Zoned = text.parse().map_err(|e| Failure::new(format!("zoned-reparse-err{}", if fold && subminute { ":fold+sub-minute" } else { "" }), format!("{ctx}: does not parse back: {e}")))?;
    let tag = if fold && subminute { ":fold+sub-minute" } else if subminute { ":sub-minute" } else if fold { ":fold" } else { "" };
    // Inherent information loss of the text format: RFC 3339 offsets have
    // minute precision, so when both offsets of a fold round to the same
    // minute the printed text cannot say which pass is meant. Not judged.
    if let Civil::Fold(o1, o2) = z.rz.resolve(loc.div_euclid(NS_PER_SEC) as i64) {
        let r = |o: i32| (o as f64 / 60.0).round() as i64;
        if r(o1) == r(o2) {
            cx.tolerate("fold-offsets-equal-after-rounding-to-minute");
            return Ok(());
        }
    }
    ensure!(
        back.timestamp().as_nanosecond() == ns,
        format!("zoned-roundtrip-instant{tag}"),
        "{ctx}: parses back to {back} ({}ns, off by {}ns)",
        back.timestamp().as_nanosecond(),
        back.timestamp().as_nanosecond() - ns
    );
    ensure!(back == zdt && back.offset() == zdt.offset() && back.datetime() == zdt.datetime(), format!("zoned-roundtrip-fields{tag}"), "{ctx}: offset/civil fields differ after the round trip: {back:?}");
    ensure!(back.time_zone() == zdt.time_zone(), "zoned-roundtrip-zone", "{ctx}: time zone differs after the round trip: {:?} vs {:?}", back.time_zone(), zdt.time_zone());
    // the same text through the other parser configurations that still use the printed offset:
    // prefer-offset keeps the offset when it is valid for the zone (it is: the zone printed it),
    // so the instant must come back whatever the disambiguation setting
    {
        use jiff::tz::{Disambiguation, OffsetConflict};
        for (cname, conflict) in [("prefer-offset", OffsetConflict::PreferOffset), ("reject", OffsetConflict::Reject)] {
            for (dname, dis) in [("compatible", Disambiguation::Compatible), ("earlier", Disambiguation::Earlier), ("later", Disambiguation::Later), ("reject", Disambiguation::Reject)] {
                let parser = DateTimeParser::new().offset_conflict(conflict).disambiguation(dis);
                match parser.parse_zoned(&text) {
                    Ok(b2) => ensure!(
                        b2.timestamp().as_nanosecond() == ns && b2.offset() == zdt.offset(),
                        format!("zoned-roundtrip-instant:parser={cname}{tag}"),
                        "{ctx}: DateTimeParser(offset_conflict={cname}, disambiguation={dname}) parses back to {b2} ({}ns, off by {}ns)",
                        b2.timestamp().as_nanosecond(),
                        b2.timestamp().as_nanosecond() - ns
                    ),
                    Err(e) => fail!(format!("zoned-reparse-err:parser={cname}{tag}"), "{ctx}: DateTimeParser(offset_conflict={cname}, disambiguation={dname}): {e}"),
                }
            }
        }
    }
    // the other public routes to the same printed form and back: the Write-based printer into
    // each writer adapter, Display with a precision, bytes input, an explicit database, and the
    // Pieces view of the text
    {
        use jiff::fmt::temporal::Pieces;
        let printer = DateTimePrinter::new();
        let mut buf = String::new();
        let mut bytes: Vec<u8> = vec![];
        let mut io = jiff::fmt::StdIoWrite(gen::Trickle::new(1 + (ns.unsigned_abs() % 7) as usize));
        let mut fm = jiff::fmt::StdFmtWrite(String::new());
        let ok = printer.print_zoned(&zdt, &mut buf).is_ok() && printer.print_zoned(&zdt, &mut bytes).is_ok() && printer.print_zoned(&zdt, &mut io).is_ok() && printer.print_zoned(&zdt, &mut fm).is_ok();
        ensure!(ok && buf == text && bytes == text.as_bytes() && io.0.buf == text.as_bytes() && fm.0 == text, format!("print_zoned-differs-from-display{tag}"), "{ctx}: print_zoned wrote {buf:?} / {:?} / {:?} / {:?}", String::from_utf8_lossy(&bytes), io.0.text(), fm.0);
        if let Some(p) = c.precision {
            let a = format!("{zdt:.*}", p as usize);
            let b = DateTimePrinter::new().precision(Some(p)).zoned_to_string(&zdt);
            ensure!(a == b, format!("display-precision-differs-from-printer{tag}"), "{ctx}: format!(\"{{:.{p}}}\") = {a:?} but the printer with precision {p} gives {b:?}");
        }
        {
            const BIG: [usize; 16] = [9, 10, 19, 100, 255, 256, 257, 264, 265, 300, 511, 512, 768, 1024, 4096, 65535];
            let n = BIG[(ns.unsigned_abs() % BIG.len() as u128) as usize];
            let a = format!("{zdt:.*}", n);
            let b = DateTimePrinter::new().precision(Some(9)).zoned_to_string(&zdt);
            ensure!(a == b && a.parse::<Zoned>().ok().map(|x| x.timestamp().as_nanosecond()) == Some(ns), format!("display-large-precision{tag}"), "{ctx}: format!(\"{{:.{n}}}\") = {a:?}");
            let pz = jiff::fmt::temporal::Pieces::from(&zdt);
            let c2 = format!("{pz:.*}", n);
            ensure!(c2 == b, format!("display-large-precision{tag}"), "{ctx}: Pieces format!(\"{{:.{n}}}\") = {c2:?}");
        }
        let via_bytes = DateTimeParser::new().parse_zoned(text.as_bytes());
        let via_db = DateTimeParser::new().parse_zoned_with(jiff::tz::db(), &text);
        for (name, got) in [("bytes", via_bytes), ("parse_zoned_with(db)", via_db)] {
            match got {
                Ok(b2) => ensure!(b2.timestamp().as_nanosecond() == ns && b2.offset() == zdt.offset() && b2.time_zone() == zdt.time_zone(), format!("zoned-roundtrip-instant:{name}{tag}"), "{ctx}: via {name} parses back to {b2}"),
                Err(e) => fail!(format!("zoned-reparse-err:{name}{tag}"), "{ctx}: via {name}: {e}"),
            }
        }
        let pieces = Pieces::parse(&text).map_err(|e| Failure::new(format!("pieces-parse-err{tag}"), format!("{ctx}: Pieces::parse: {e}")))?;
        ensure!(pieces.date() == zdt.date() && pieces.time() == Some(zdt.time()), format!("pieces-civil{tag}"), "{ctx}: Pieces date/time = {} {:?}", pieces.date(), pieces.time());
        let ptz = pieces.to_time_zone().ok().flatten();
        ensure!(ptz.as_ref() == Some(zdt.time_zone()), format!("pieces-time-zone{tag}"), "{ctx}: Pieces::to_time_zone = {ptz:?}");
        let ptz = pieces.to_time_zone_with(jiff::tz::db()).ok().flatten();
        ensure!(ptz.as_ref() == Some(zdt.time_zone()), format!("pieces-time-zone{tag}"), "{ctx}: Pieces::to_time_zone_with(db) = {ptz:?}");
        if let Some(po) = pieces.to_numeric_offset() {
            ensure!((po.seconds() as i64 - off as i64).abs() <= 30 && (subminute || po.seconds() as i64 == off as i64), format!("pieces-offset{tag}"), "{ctx}: Pieces offset {po} for real offset {off}s");
        } else {
            ensure!(off == 0 && text.contains("Z["), format!("pieces-offset{tag}"), "{ctx}: Pieces has no numeric offset");
        }
        let ptext = pieces.to_string();
        let ptext2 = printer.pieces_to_string(&pieces);
        let mut ptext3 = String::new();
        let _ = printer.print_pieces(&pieces, &mut ptext3);
        ensure!(ptext == text && ptext2 == text && ptext3 == text, format!("pieces-print{tag}"), "{ctx}: parsed pieces print as {ptext:?} / {ptext2:?} / {ptext3:?}");
        let from_z = Pieces::from(&zdt);
        ensure!(from_z.to_string() == text, format!("pieces-from-zoned-print{tag}"), "{ctx}: Pieces::from(&zoned) prints {:?}", from_z.to_string());
        ensure!(from_z.clone().into_owned().to_string() == text, format!("pieces-from-zoned-print{tag}"), "{ctx}: Pieces::from(&zoned).into_owned() prints differently");
    }
    {
        let json = serde_json::to_string(&zdt).map_err(|e| Failure::new(format!("serde-serialize-err:Zoned{tag}"), format!("{ctx}: {e}")))?;
        ensure!(json == format!("\"{text}\""), format!("serde-differs-from-display:Zoned{tag}"), "{ctx}: serialises as {json}");
        let b: Zoned = serde_json::from_str(&json).map_err(|e| Failure::new(format!("serde-deserialize-err:Zoned{tag}"), format!("{ctx}: {e}")))?;
        let b2: Zoned = serde_json::from_slice(json.as_bytes()).map_err(|e| Failure::new(format!("serde-deserialize-err:Zoned{tag}"), format!("{ctx} (bytes): {e}")))?;
        for x in [&b, &b2] {
            ensure!(x.timestamp().as_nanosecond() == ns && x.offset() == zdt.offset() && x.time_zone() == zdt.time_zone() && x.datetime() == zdt.datetime(), format!("serde-roundtrip:Zoned{tag}"), "{ctx}: deserialises to {x}");
        }
    }
    // independent reader on the RFC 3339 prefix
    match read_rfc3339(&text) {
        Some((civil, o, used)) => {
            ensure!(text[used..].starts_with('[') && text.ends_with(']'), "zoned-annotation", "{ctx}: no RFC 9557 annotation after the timestamp");
            ensure!(civil == loc, "zoned-independent-civil", "{ctx}: civil part read independently is {civil}, want {loc}");
            let o = o.unwrap_or(0);
            if subminute {
                // RFC 9557: offset printed to the minute, "as close as possible"
                ensure!((o - off).abs() <= 30 && o % 60 == 0, "zoned-rounded-offset", "{ctx}: printed offset {o}s for real offset {off}s");
            } else {
                ensure!(o == off && civil - o as i128 * NS_PER_SEC == ns, "zoned-independent-instant", "{ctx}: independent reader gets a different instant");
            }
        }
        None => fail!("zoned-not-rfc9557", "{ctx}: not an RFC 3339 timestamp followed by an annotation"),
    }
    // reduced precision through the printer
    if let Some(p) = c.precision {
        let s = DateTimePrinter::new().precision(Some(p)).zoned_to_string(&zdt);
        let parsed = DateTimeParser::new().parse_zoned(&s).map_err(|e| Failure::new(format!("printer-zoned-reparse-err{tag}"), format!("[{}] {s:?}: {e}", z.label)))?;
        let tod = loc.rem_euclid(NS_PER_DAY);
        let want_loc = loc - tod + trunc_to(tod, Some(p));
        let got_loc = crate::props::c04::dt_to_civil(parsed.datetime());
        ensure!(got_loc == want_loc, format!("printer-zoned-roundtrip{tag}"), "[{}] {s:?} parsed civil {} want truncated civil {want_loc}", z.label, got_loc);
    }
    let _ = TimeZone::UTC;
    Ok(())
}

fn strat_zoned() -> BoxedStrategy<ZonedCase> {
    (strat_zone_probe(), prop::option::weighted(0.35, any::<u16>()), any::<bool>(), prop::option::weighted(0.2, 0u8..=9))
        .prop_map(|(probe, fold_frac, later, precision)| ZonedCase { probe, fold_frac, later, precision })
        .boxed()
}

pub fn property() -> Property {
    Property {
        id: "C09",
        level: "exploration",
        rule: "proptest: (a) timestamps (limit-biased seconds x all nine sub-second precisions and arbitrary fractions), their civil Date/Time/DateTime at arbitrary offsets, Display/FromStr and DateTimePrinter options (precision None/0..9, separator, lowercase), display_with_offset; (b) Zoned in every zone reachable by name through the global database (read from the same files by the reference reader), whole-minute fixed offsets and UTC, at instants around every transition and, for 35% of cases, placed inside the fold of the probed transition on the earlier or the later pass. Oracle: parse(print(v)) equals v (instant, civil fields, offset, zone), reduced precision = truncation, and an independent RFC 3339 reader written from the ABNF decodes the printed prefix to the same instant (sub-minute offsets: same civil time and an offset rounded to the minute). Non-trivial: fractional or negative instants, reduced precision, folds, sub-minute offsets.",
        assumptions: &["the global database resolves names from /usr/share/zoneinfo (TZDIR unset)", "years outside 0..=9999 use jiff's documented signed six-digit form, which the independent reader accepts as an extension"],
        checks: vec![
            Box::new(Prop { name: "c09.civil", quick: 2_400_000, thorough: 20_000_000, strategy: strat_civil, test: test_civil }),
            Box::new(Prop { name: "c09.zoned", quick: 3_200_000, thorough: 30_000_000, strategy: strat_zoned, test: test_zoned }),
        ],
        floors: |rec| {
            rec.floor("c09.zoned:in-fold", "c09.zoned:cases", 0.05);
            rec.floor("c09.zoned:sub-minute-offset", "c09.zoned:cases", 0.05);
            rec.floor("c09.zoned:fold-and-sub-minute", "c09.zoned:cases", 0.002);
        },
    }
}
