//! C15 Durations round-trip through the ISO 8601 and friendly formats.

use jiff::fmt::friendly::{self, Designator, Direction, FractionalUnit, Spacing};
use jiff::fmt::temporal;
use jiff::{SignedDuration, Span, Unit};
use proptest::prelude::*;
use serde::{Deserialize, Serialize};

use crate::engine::*;
use crate::gen::{self, SpanSpec, UNIT_NS};
use crate::props::c07::UNITS;
use crate::refmodel::wide::*;
use crate::{ensure, fail};

#[derive(Serialize, Deserialize, Debug, Clone, Copy, PartialEq)]
pub struct Config {
    pub designator: u8,
    pub spacing: u8,
    pub direction: u8,
    /// 0 none, 1 hour, 2 minute, 3 second, 4 millisecond, 5 microsecond
    pub fractional: u8,
    pub comma: bool,
    pub hms: bool,
    pub padding: Option<u8>,
    pub precision: Option<u8>,
    pub zero_unit: u8,
}

impl Config {
    fn is_default(&self) -> bool {
        *self == Config { designator: 2, spacing: 1, direction: 0, fractional: 0, comma: false, hms: false, padding: None, precision: None, zero_unit: 6 }
    }
    fn printer(&self) -> friendly::SpanPrinter {
        let mut p = friendly::SpanPrinter::new()
            .designator([Designator::Verbose, Designator::Short, Designator::Compact, Designator::HumanTime][self.designator as usize])
            .spacing([Spacing::None, Spacing::BetweenUnits, Spacing::BetweenUnitsAndDesignators][self.spacing as usize])
            .direction([Direction::Auto, Direction::Sign, Direction::ForceSign, Direction::Suffix][self.direction as usize])
            .fractional([None, Some(FractionalUnit::Hour), Some(FractionalUnit::Minute), Some(FractionalUnit::Second), Some(FractionalUnit::Millisecond), Some(FractionalUnit::Microsecond)][self.fractional as usize])
            .comma_after_designator(self.comma)
            .hours_minutes_seconds(self.hms)
            .precision(self.precision)
            .zero_unit(UNITS[self.zero_unit as usize]);
        if let Some(pad) = self.padding {
            p = p.padding(pad);
        }
        p
    }
    /// index into UNITS of the fractional unit in effect (None = no fractions)
    fn frac_unit(&self) -> Option<usize> {
        if self.hms {
            return Some(6);
        }
        match self.fractional {
            0 => None,
            1 => Some(4),
            2 => Some(5),
            3 => Some(6),
            4 => Some(7),
            _ => Some(8),
        }
    }
    /// documented as lossless: no reduced precision, no fractional hours/minutes
    fn lossless(&self) -> bool {
        match self.frac_unit() {
            None => true,
            Some(u) => self.precision.is_none() && u >= 6,
        }
    }
    /// one unit of the last printed digit, in nanoseconds (ceil)
    fn quantum_ns(&self) -> i128 {
        match self.frac_unit() {
            None => 1,
            Some(u) => {
                let digits = self.precision.unwrap_or(9).min(9) as u32;
                let q = UNIT_NS[u] / 10i128.pow(digits);
                q.max(1)
            }
        }
    }
}

pub fn strat_config() -> BoxedStrategy<Config> {
    let padding = prop_oneof![3 => Just(None), 1 => prop_oneof![Just(0u8), Just(1), Just(2), Just(5), Just(19), Just(20)].prop_map(Some)];
    let precision = prop_oneof![3 => Just(None), 2 => (0u8..=9).prop_map(Some), 1 => Just(Some(12u8))];
    (0u8..4, 0u8..3, 0u8..4, prop_oneof![3 => Just(0u8), 4 => 1u8..6], any::<bool>(), prop::bool::weighted(0.25), padding, precision, 0u8..10)
        .prop_map(|(designator, spacing, direction, fractional, comma, hms, padding, precision, zero_unit)| Config { designator, spacing, direction, fractional, comma, hms, padding, precision, zero_unit })
        .boxed()
}

// --- Span -------------------------------------------------------------------------------------------

#[derive(Serialize, Deserialize, Debug, Clone)]
struct SpanCase {
    span: SpanSpec,
    cfg: Config,
    lower: bool,
}

fn cal(s: &SpanSpec) -> [i64; 4] {
    [s.u[0], s.u[1], s.u[2], s.u[3]]
}

fn total_from(s: &SpanSpec, from: usize) -> i128 {
    (from..10).map(|i| s.u[i] as i128 * UNIT_NS[i]).sum()
}

fn test_span(c: &SpanCase, cx: &mut Cx) -> CaseResult {
    let span = c.span.to_span();
    let nz = c.span.u.iter().filter(|&&x| x != 0).count();
    let limitv = (0..10).any(|i| c.span.u[i] >= gen::SPAN_LIMITS[i] - 1);
    cx.class_if(!c.cfg.is_default(), "non-default-config");
    cx.class_if(limitv, "limit-value");
    cx.class_if(c.span.sign() < 0, "negative");
    cx.class_if(!c.cfg.lossless(), "lossy-config");
    cx.nt_if((nz >= 2 || c.span.u[7..].iter().any(|&x| x != 0) || c.span.sign() < 0 || limitv) && !c.cfg.is_default());
    // ---- ISO 8601
    let iso = temporal::SpanPrinter::new().lowercase(c.lower).span_to_string(&span);
    let p = temporal::SpanParser::new().parse_span(&iso).map_err(|e| Failure::new("iso-reparse-err", format!("{span:?} -> {iso:?}: {e}")))?;
    let ps = SpanSpec::from_span(&p);
    ensure!(
        ps.sign() == c.span.sign() && ps.u[..6] == c.span.u[..6] && total_from(&ps, 6) == total_from(&c.span, 6),
        "iso-roundtrip",
        "{span:?} -> {iso:?} -> {p:?}: years..minutes must be identical and the seconds-and-smaller total equal"
    );
    ensure!(span.to_string() == temporal::SpanPrinter::new().span_to_string(&span), "iso-display", "Display differs from the default ISO printer");
    ensure!(span.to_string().parse::<Span>().map(|x| SpanSpec::from_span(&x).u[..6] == c.span.u[..6]).unwrap_or(false), "iso-fromstr", "FromStr of Display output failed for {span:?}");
    // serde: the ISO form as a string, deserialising (from text and bytes) to the same fields
    {
        let json = serde_json::to_string(&span).map_err(|e| Failure::new("serde-serialize-err", format!("{span:?}: {e}")))?;
        ensure!(json == format!("\"{}\"", span.to_string()), "serde-differs-from-display", "{span:?} serialises as {json}");
        let b: Span = serde_json::from_str(&json).map_err(|e| Failure::new("serde-deserialize-err", format!("{json}: {e}")))?;
        let b2: Span = serde_json::from_slice(json.as_bytes()).map_err(|e| Failure::new("serde-deserialize-err", format!("{json} (bytes): {e}")))?;
        let want: Span = span.to_string().parse().map_err(|e| Failure::new("iso-fromstr", format!("{e}")))?;
        ensure!(b.fieldwise() == want.fieldwise() && b2.fieldwise() == want.fieldwise(), "serde-roundtrip", "{span:?} -> {json} -> {b:?} / {b2:?}, FromStr gives {want:?}");
    }
    // ---- friendly, default `{:#}`
    let alt = format!("{span:#}");
    let p = alt.parse::<Span>().map_err(|e| Failure::new("friendly-default-reparse-err", format!("{span:?} -> {alt:?}: {e}")))?;
    ensure!(p.fieldwise() == span.fieldwise(), "friendly-default-roundtrip", "{span:?} -> {alt:?} -> {p:?}");
    // ---- friendly, configured
    let printer = c.cfg.printer();
    let text = printer.span_to_string(&span);
    let ctx = format!("{span:?} cfg={:?} -> {text:?}", c.cfg);
    // the same text through the Write-based entry points and every writer adapter (a sink
    // that takes a few bytes per call included): what arrives must be what parses back
    {
        use jiff::fmt::{StdFmtWrite, StdIoWrite};
        let chunk = 1 + (c.span.u[9] as usize + nz) % 5;
        let mut a = String::new();
        let mut b: Vec<u8> = vec![];
        let mut t = StdIoWrite(gen::Trickle::new(chunk));
        let mut f = StdFmtWrite(String::new());
        let ok = printer.print_span(&span, &mut a).is_ok() && printer.print_span(&span, &mut b).is_ok() && printer.print_span(&span, &mut t).is_ok() && printer.print_span(&span, &mut f).is_ok();
        ensure!(ok && a == text && b == text.as_bytes() && t.0.buf == text.as_bytes() && f.0 == text, "friendly-print-routes-differ", "{ctx}: print_span wrote {a:?} / {:?} / {:?} (sink taking {chunk} bytes per call) / {:?}", String::from_utf8_lossy(&b), t.0.text(), f.0);
        let ip = temporal::SpanPrinter::new().lowercase(c.lower);
        let mut a = String::new();
        let mut t = StdIoWrite(gen::Trickle::new(chunk));
        let ok = ip.print_span(&span, &mut a).is_ok() && ip.print_span(&span, &mut t).is_ok();
        ensure!(ok && a == iso && t.0.buf == iso.as_bytes(), "iso-print-routes-differ", "{span:?}: print_span wrote {a:?} / {:?} (sink taking {chunk} bytes per call), span_to_string {iso:?}", t.0.text());
    }
    let parsed = friendly::SpanParser::new().parse_span(&text);
    let p = match parsed {
        Ok(p) => p,
        Err(e) => fail!(
            format!(
                "friendly-reparse-err{}{}",
                if c.cfg.comma && c.cfg.spacing == 0 { ":comma+spacing-none" } else { "" },
                if c.span.sign() < 0 && c.cfg.frac_unit().is_some() { ":negative+fractional" } else { "" }
            ),
            "{ctx}: the printed text is rejected by the parser: {e}"
        ),
    };
    let ps = SpanSpec::from_span(&p);
    ensure!(ps.sign() == c.span.sign() || (ps.sign() == 0 && !c.cfg.lossless()), "friendly-sign", "{ctx} -> {p:?}: sign differs");
    let fu = c.cfg.frac_unit();
    match fu {
        None => {
            // no fractions: unit for unit
            ensure!(p.fieldwise() == span.fieldwise(), "friendly-roundtrip-fieldwise", "{ctx} -> {p:?}: must be equal unit for unit");
        }
        Some(u) => {
            // units above the folding point are printed as they are; the
            // rest is folded into one total (HH:MM:SS: hours and below)
            let from = if c.cfg.hms { 4 } else { u };
            ensure!(cal(&ps) == cal(&c.span), "friendly-roundtrip-calendar", "{ctx} -> {p:?}: calendar units differ");
            if !c.cfg.hms {
                ensure!(ps.u[4..from] == c.span.u[4..from], "friendly-roundtrip-upper-units", "{ctx} -> {p:?}: units above the fractional unit differ");
            }
            let (a, b) = (total_from(&c.span, from), total_from(&ps, from));
            if c.cfg.lossless() {
                ensure!(a == b, "friendly-roundtrip-total", "{ctx} -> {p:?}: folded total {b}ns want {a}ns (lossless configuration)");
            } else {
                let q = c.cfg.quantum_ns();
                ensure!((a - b).abs() < q.max(1) + (q == 1) as i128 * 0, "friendly-lossy-bound", "{ctx} -> {p:?}: denotes {b}ns, original {a}ns, differs by {} >= one unit of the last printed digit ({q}ns)", (a - b).abs());
            }
        }
    }
    Ok(())
}

fn strat_span_case() -> BoxedStrategy<SpanCase> {
    (gen::span_spec(), strat_config(), any::<bool>()).prop_map(|(span, cfg, lower)| SpanCase { span, cfg, lower }).boxed()
}

// --- SignedDuration ------------------------------------------------------------------------------------

#[derive(Serialize, Deserialize, Debug, Clone)]
struct DurCase {
    secs: i64,
    nanos: i32,
    cfg: Config,
    lower: bool,
}

fn test_duration(c: &DurCase, cx: &mut Cx) -> CaseResult {
    // (with zero seconds the sign lives in the nanoseconds alone: the case's own sign is kept)
    let nanos = if c.secs < 0 { -c.nanos.abs() } else if c.secs > 0 { c.nanos.abs() } else { c.nanos };
    cx.class_if(c.secs == 0 && nanos < 0, "negative-sub-second");
    let d = SignedDuration::new(c.secs, nanos);
    let dn = d.as_nanos();
    let limitv = c.secs == i64::MIN || c.secs == i64::MAX || c.secs == i64::MIN + 1;
    cx.class_if(!c.cfg.is_default(), "non-default-config");
    cx.class_if(limitv, "limit-value");
    cx.class_if(dn < 0, "negative");
    cx.nt_if(!c.cfg.is_default() && (dn < 0 || nanos != 0 || limitv));
    let tag = if c.secs == i64::MIN { ":secs=i64::MIN" } else { "" };
    // ISO
    let iso = temporal::SpanPrinter::new().lowercase(c.lower).duration_to_string(&d);
    let p = temporal::SpanParser::new().parse_duration(&iso).map_err(|e| Failure::new(format!("iso-duration-reparse-err{tag}"), format!("{d:?} -> {iso:?}: {e}")))?;
    ensure!(p == d, format!("iso-duration-roundtrip{tag}"), "{d:?} -> {iso:?} -> {p:?}");
    ensure!(d.to_string().parse::<SignedDuration>().ok() == Some(d), format!("iso-duration-fromstr{tag}"), "Display/FromStr round trip failed for {d:?}: {}", d.to_string());
    {
        let json = serde_json::to_string(&d).map_err(|e| Failure::new(format!("serde-serialize-err{tag}"), format!("{d:?}: {e}")))?;
        ensure!(json == format!("\"{}\"", d.to_string()), format!("serde-differs-from-display{tag}"), "{d:?} serialises as {json}");
        let b: SignedDuration = serde_json::from_str(&json).map_err(|e| Failure::new(format!("serde-deserialize-err{tag}"), format!("{json}: {e}")))?;
        let b2: SignedDuration = serde_json::from_slice(json.as_bytes()).map_err(|e| Failure::new(format!("serde-deserialize-err{tag}"), format!("{json} (bytes): {e}")))?;
        ensure!(b == d && b2 == d, format!("serde-roundtrip{tag}"), "{d:?} -> {json} -> {b:?} / {b2:?}");
    }
    // friendly default
    let alt = format!("{d:#}");
    match alt.parse::<SignedDuration>() {
        Ok(p) => ensure!(p == d, format!("friendly-duration-default-roundtrip{tag}"), "{d:?} -> {alt:?} -> {p:?}"),
        Err(e) => fail!(format!("friendly-duration-default-reparse-err{tag}"), "{d:?} -> {alt:?}: {e}"),
    }
    // configured
    let text = c.cfg.printer().duration_to_string(&d);
    let ctx = format!("{d:?} cfg={:?} -> {text:?}", c.cfg);
    {
        use jiff::fmt::{StdFmtWrite, StdIoWrite};
        let printer = c.cfg.printer();
        let chunk = 1 + (nanos.unsigned_abs() as usize) % 5;
        let mut a = String::new();
        let mut b: Vec<u8> = vec![];
        let mut t = StdIoWrite(gen::Trickle::new(chunk));
        let mut f = StdFmtWrite(String::new());
        let ok = printer.print_duration(&d, &mut a).is_ok() && printer.print_duration(&d, &mut b).is_ok() && printer.print_duration(&d, &mut t).is_ok() && printer.print_duration(&d, &mut f).is_ok();
        ensure!(ok && a == text && b == text.as_bytes() && t.0.buf == text.as_bytes() && f.0 == text, format!("friendly-print-routes-differ{tag}"), "{ctx}: print_duration wrote {a:?} / {:?} / {:?} (sink taking {chunk} bytes per call) / {:?}", String::from_utf8_lossy(&b), t.0.text(), f.0);
        let ip = temporal::SpanPrinter::new().lowercase(c.lower);
        let mut a = String::new();
        let mut t = StdIoWrite(gen::Trickle::new(chunk));
        let ok = ip.print_duration(&d, &mut a).is_ok() && ip.print_duration(&d, &mut t).is_ok();
        ensure!(ok && a == iso && t.0.buf == iso.as_bytes(), format!("iso-print-routes-differ{tag}"), "{d:?}: print_duration wrote {a:?} / {:?} (sink taking {chunk} bytes per call), duration_to_string {iso:?}", t.0.text());
    }
    let p = match friendly::SpanParser::new().parse_duration(&text) {
        Ok(p) => p,
        Err(e) => fail!(
            format!(
                "friendly-duration-reparse-err{tag}{}{}",
                if c.cfg.comma && c.cfg.spacing == 0 { ":comma+spacing-none" } else { "" },
                if dn < 0 && c.cfg.frac_unit().is_some() { ":negative+fractional" } else { "" }
            ),
            "{ctx}: the printed text is rejected by the parser: {e}"
        ),
    };
    if c.cfg.lossless() {
        ensure!(p == d, format!("friendly-duration-roundtrip{tag}"), "{ctx} -> {p:?}: must be identical (lossless configuration)");
    } else {
        let q = c.cfg.quantum_ns();
        ensure!((p.as_nanos() - dn).abs() < q, format!("friendly-duration-lossy-bound{tag}"), "{ctx} -> {p:?}: differs by {}ns >= one unit of the last printed digit ({q}ns)", (p.as_nanos() - dn).abs());
    }
    // independent reader: the humantime crate, when the output only uses what it knows
    if c.cfg.designator == 3 && dn >= 0 && !c.cfg.hms && c.cfg.frac_unit().is_none() && !c.cfg.comma && c.cfg.spacing != 0 && c.cfg.direction == 0 && c.secs < 1_000_000_000_000 {
        match humantime::parse_duration(&text) {
            Ok(h) => ensure!(h.as_nanos() as i128 == dn, "humantime-differential", "{ctx}: humantime reads {h:?}"),
            Err(e) => fail!("humantime-rejects", "{ctx}: humantime rejects HumanTime-designator output: {e}"),
        }
        cx.class("humantime-checked");
    }
    let _ = Unit::Second;
    Ok(())
}

fn strat_dur_case() -> BoxedStrategy<DurCase> {
    let secs = prop_oneof![3 => gen::biased(i64::MIN, i64::MAX), 3 => gen::biased(-400_000, 400_000), 1 => Just(i64::MIN), 1 => Just(i64::MAX), 2 => Just(0i64)];
    let nanos = prop_oneof![Just(0i32), Just(1), Just(999_999_999), Just(500_000_000), Just(1_000_000), Just(123_456_789), 0i32..1_000_000_000, Just(-1i32), Just(-999_999_999), Just(-500_000_000), -999_999_999i32..0];
    // For a SignedDuration the zero unit is restricted to hours and below:
    // the friendly parser documents that calendar units cannot be parsed
    // into a SignedDuration, so `zero_unit(Unit::Year)` is a configuration
    // that only makes sense for spans.
    (secs, nanos, strat_config(), any::<bool>())
        .prop_map(|(secs, nanos, mut cfg, lower)| {
            if cfg.zero_unit < 4 {
                cfg.zero_unit = 4 + cfg.zero_unit;
            }
            DurCase { secs, nanos, cfg, lower }
        })
        .boxed()
}

pub fn property() -> Property {
    let _ = NS_PER_SEC;
    Property {
        id: "C15",
        level: "exploration",
        rule: "proptest: Span (limit-biased units, all unit mixes, both signs) and SignedDuration (i64 extremes, sub-second mixes) x friendly printer configuration drawn jointly (4 designators x 3 spacings x 4 directions x fractional {none,h,m,s,ms,us} x comma x HH:MM:SS x padding x precision {None,0..9,12} x zero unit) x ISO case option. Oracle: documented-lossless configurations (no reduced precision, no fractional hours/minutes) must parse back unit for unit (fractional/HMS: equal after folding the folded units into one i128 total; calendar units identical); ISO: years..minutes identical, equal total of seconds and smaller; every configuration: the text parses and denotes a value within one unit of the last printed digit. Designator::HumanTime output without fractions is additionally read by the humantime crate. Non-trivial: >= 2 non-zero units or sub-second units or negative or limit values under a non-default configuration.",
        assumptions: &[
            "days are 24h and weeks 7 days only for comparing the folded uniform totals; calendar units are compared fieldwise",
            "for SignedDuration the zero_unit option is drawn from hours..nanoseconds only (calendar units cannot be parsed into a SignedDuration, documented)",
        ],
        checks: vec![
            Box::new(Prop { name: "c15.span", quick: 3_200_000, thorough: 40_000_000, strategy: strat_span_case, test: test_span }),
            Box::new(Prop { name: "c15.duration", quick: 3_200_000, thorough: 40_000_000, strategy: strat_dur_case, test: test_duration }),
        ],
        floors: |rec| {
            rec.floor("c15.span:non-default-config", "c15.span:cases", 0.30);
            rec.floor("c15.span:limit-value", "c15.span:cases", 0.10);
            rec.floor("c15.span:negative", "c15.span:cases", 0.20);
            rec.floor("c15.duration:negative-sub-second", "c15.duration:cases", 0.02);
        },
    }
}
