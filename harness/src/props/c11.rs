//! C11 Span rounding, balancing, totals and comparison conserve the denoted duration.
//!
//! Oracles (all over the harness's own calendar/zone/wide-integer models, never jiff's arithmetic):
//!  * `c11.round`   – law level: units outside [largest, smallest] are zero, the smallest field is
//!                    a multiple of the increment, and with F(k) = r + (result with its smallest
//!                    field set to k) the end point r + span lies in the part of
//!                    [F(k-inc), F(k+inc)] that the rounding mode assigns to F(k) (ties and
//!                    boundaries strictly; a stated f64 band for calendar units strictly inside).
//!                    Uniform-unit cases are compared field by field with exact i128 rounding.
//!                    Refusals and invalid options must be errors.
//!  * `c11.total`   – exact rational count of the unit between r and r + span vs the f64.
//!  * `c11.compare` – ordering of r + a and r + b; uniform spans as exact nanosecond counts.
//!  * `c11.duration`– to_duration(relative) == (r + span) - r exactly; uniform checked_add/sub.

use std::cmp::Ordering;
use std::sync::Arc;

use jiff::{Span, SpanRelativeTo, SpanRound, Timestamp};
use proptest::prelude::*;
use serde::{Deserialize, Serialize};

use crate::engine::*;
use crate::gen::{self, SpanSpec, SPAN_LIMITS, UNIT_NS};
use crate::props::c03::{resolve_probe, strat_zone_probe, ZoneProbe};
use crate::props::c06::zone_universe;
use crate::props::c07::UNITS;
use crate::refmodel::refarith as ra;
use crate::refmodel::refzoned as rz;
use crate::refmodel::wide::*;
use crate::zones::{self, Zone};
use crate::{ensure, fail};

// --- cases ----------------------------------------------------------------------------------------

#[derive(Serialize, Deserialize, Debug, Clone)]
pub struct Case {
    /// 0 none, 1 Date, 2 DateTime, 3 Zoned, 4 days-are-24-hours marker
    refk: u8,
    d: (i16, i8, i8),
    t: i64,
    probe: ZoneProbe,
    a: SpanSpec,
    b: SpanSpec,
    smallest: u8,
    /// 10 = not given
    largest: u8,
    incr: i64,
    mode: u8,
}

enum Ref {
    None,
    Marker,
    Civil(ra::Civil),
    Zoned(Arc<Zone>, i128),
}

#[derive(Debug, Clone, Copy, PartialEq, Eq)]
enum AddErr {
    Range,
    Weird,
    NeedsRef,
}

#[derive(Debug, Clone, Copy)]
struct Parts {
    months: i128,
    days: i128,
    ns: i128,
}

fn parts(f: &[i128; 10]) -> Parts {
    let mut ns = 0i128;
    for i in 4..10 {
        ns += f[i] * UNIT_NS[i];
    }
    Parts { months: f[0] * 12 + f[1], days: f[2] * 7 + f[3], ns }
}

fn spec_fields(s: &SpanSpec) -> [i128; 10] {
    let mut f = [0i128; 10];
    for i in 0..10 {
        f[i] = s.get(i);
    }
    f
}

fn span_fields(s: &Span) -> [i128; 10] {
    [
        s.get_years() as i128,
        s.get_months() as i128,
        s.get_weeks() as i128,
        s.get_days() as i128,
        s.get_hours() as i128,
        s.get_minutes() as i128,
        s.get_seconds() as i128,
        s.get_milliseconds() as i128,
        s.get_microseconds() as i128,
        s.get_nanoseconds() as i128,
    ]
}

impl Ref {
    /// Position of the reference itself on its own number line (civil ns / instant ns / 0).
    fn origin(&self) -> i128 {
        match self {
            Ref::None | Ref::Marker => 0,
            Ref::Civil(c) => rz::civil_ns(*c),
            Ref::Zoned(_, t) => *t,
        }
    }

    /// r + (months, days, ns): months with day clamping, days on the wall clock, then exact time.
    fn add(&self, p: &Parts) -> Result<i128, AddErr> {
        match self {
            Ref::None => {
                if p.months != 0 || p.days != 0 {
                    return Err(AddErr::NeedsRef);
                }
                Ok(p.ns)
            }
            Ref::Marker => {
                if p.months != 0 {
                    return Err(AddErr::NeedsRef);
                }
                Ok(p.days * NS_PER_DAY + p.ns)
            }
            Ref::Civil(c) => {
                let (y, m, d) = ra::add_months(c.0, c.1, c.2, p.months).ok_or(AddErr::Range)?;
                let c2 = ra::datetime_add_ns((y, m, d, c.3), p.days * NS_PER_DAY + p.ns).ok_or(AddErr::Range)?;
                Ok(rz::civil_ns(c2))
            }
            Ref::Zoned(z, t) => {
                if p.months == 0 && p.days == 0 {
                    let r = *t + p.ns;
                    return if rz::in_ts_range(r) { Ok(r) } else { Err(AddErr::Range) };
                }
                let (loc, _) = rz::local_of(&z.rz, *t);
                let c = rz::civil_parts(loc);
                let (y, m, d) = ra::add_months(c.0, c.1, c.2, p.months).ok_or(AddErr::Range)?;
                let c2 = ra::datetime_add_ns((y, m, d, c.3), p.days * NS_PER_DAY).ok_or(AddErr::Range)?;
                let t1 = rz::compatible(&z.rz, rz::civil_ns(c2)).map_err(|_| AddErr::Weird)?;
                if !rz::in_ts_range(t1) {
                    return Err(AddErr::Range);
                }
                let r = t1 + p.ns;
                if rz::in_ts_range(r) {
                    Ok(r)
                } else {
                    Err(AddErr::Range)
                }
            }
        }
    }

    fn has_reference(&self) -> bool {
        matches!(self, Ref::Civil(_) | Ref::Zoned(..))
    }

    /// Smallest unit index from which all units are uniform for this reference.
    fn uniform_from(&self) -> usize {
        match self {
            Ref::None => 4,
            Ref::Marker => 2,
            Ref::Civil(_) => 2,
            Ref::Zoned(..) => 4,
        }
    }
}

fn make_ref(c: &Case) -> Ref {
    match c.refk % 5 {
        0 => Ref::None,
        4 => Ref::Marker,
        1 => Ref::Civil((c.d.0 as i64, c.d.1 as i64, c.d.2 as i64, 0)),
        2 => Ref::Civil((c.d.0 as i64, c.d.1 as i64, c.d.2 as i64, c.t as i128)),
        _ => {
            let (z, t) = resolve_probe(zone_universe(), &c.probe);
            Ref::Zoned(z, t)
        }
    }
}

/// Run `f` with jiff's relative-to value for this case.
fn with_rel<R>(c: &Case, rf: &Ref, f: impl FnOnce(Option<SpanRelativeTo<'_>>) -> R) -> R {
    match rf {
        Ref::None => f(None),
        Ref::Marker => f(Some(SpanRelativeTo::days_are_24_hours())),
        Ref::Civil(_) => {
            let d = gen::mk_date(c.d.0, c.d.1, c.d.2);
            if c.refk % 5 == 1 {
                f(Some(SpanRelativeTo::from(d)))
            } else {
                f(Some(SpanRelativeTo::from(d.to_datetime(gen::mk_time(c.t)))))
            }
        }
        Ref::Zoned(z, t) => {
            let zd = Timestamp::from_nanosecond(*t).unwrap().to_zoned(z.tz.clone());
            f(Some(SpanRelativeTo::from(&zd)))
        }
    }
}

fn largest_idx(f: &[i128; 10]) -> usize {
    (0..10).find(|&i| f[i] != 0).unwrap_or(9)
}

fn sign_of(f: &[i128; 10]) -> i128 {
    f.iter().find(|&&v| v != 0).map(|v| v.signum()).unwrap_or(0)
}

/// Why these options / this span must be refused, if they must.
fn invalid_reason(rf: &Ref, fa: &[i128; 10], u: usize, l_given: Option<usize>, inc: i64) -> Option<&'static str> {
    if let Some(lg) = l_given {
        if lg > u {
            return Some("largest-smaller-than-smallest");
        }
    }
    if inc <= 0 {
        return Some("increment-not-positive");
    }
    if u >= 4 {
        let limit: i64 = [24, 60, 60, 1000, 1000, 1000][u - 4];
        if inc >= limit || limit % inc != 0 {
            return Some("increment-does-not-divide-next-unit");
        }
    }
    let top = largest_idx(fa).min(u).min(l_given.unwrap_or(9));
    match rf {
        Ref::None if top <= 3 => Some("calendar-unit-without-reference"),
        Ref::Marker if top <= 1 => Some("years-or-months-with-24-hour-days-marker"),
        _ => None,
    }
}

const UNIT_NAMES: [&str; 10] = ["year", "month", "week", "day", "hour", "minute", "second", "millisecond", "microsecond", "nanosecond"];

fn refname(rf: &Ref) -> &'static str {
    match rf {
        Ref::None => "none",
        Ref::Marker => "marker",
        Ref::Civil(_) => "civil",
        Ref::Zoned(..) => "zoned",
    }
}

/// Generous "nothing is anywhere near a limit" predicate: when it holds an error is unexplained.
fn comfortably_in_range(rf: &Ref, fa: &[i128; 10], u: usize, l: usize, inc: i64) -> bool {
    let p = parts(fa);
    if p.months.abs() > 6000 || p.days.abs() > 150_000 || p.ns.abs() > 400 * 365 * NS_PER_DAY {
        return false;
    }
    let inc_ok = match u {
        0 => inc <= 500,
        1 => inc <= 6000,
        2 => inc <= 26_000,
        3 => inc <= 180_000,
        _ => true,
    };
    if !inc_ok {
        return false;
    }
    match rf {
        Ref::Civil(c) => {
            if c.0.abs() > 7000 {
                return false;
            }
        }
        Ref::Zoned(_, t) => {
            if t.abs() > 7000 * 365 * NS_PER_DAY {
                return false;
            }
        }
        _ => {}
    }
    // magnitude in units of `largest` must fit its limit with room to spare
    let approx_ns = p.months.abs() * 31 * NS_PER_DAY + p.days.abs() * NS_PER_DAY + p.ns.abs() + inc as i128 * [366 * NS_PER_DAY, 31 * NS_PER_DAY, UNIT_NS[2], UNIT_NS[3], UNIT_NS[4], UNIT_NS[5], UNIT_NS[6], UNIT_NS[7], UNIT_NS[8], 1][u];
    let unit_ns_low = [365 * NS_PER_DAY, 28 * NS_PER_DAY, UNIT_NS[2], UNIT_NS[3], UNIT_NS[4], UNIT_NS[5], UNIT_NS[6], UNIT_NS[7], UNIT_NS[8], 1][l];
    approx_ns / unit_ns_low < SPAN_LIMITS[l] as i128 / 4
}


/// Does the zone of a zoned reference skip a whole civil day (a gap of 24 hours or more) anywhere
/// near [lo, hi]? Next to such a transition one "day" can have zero length, and rounding to or
/// counting in days (or larger units landing there) is legitimately refused.
fn skips_a_day_near(rf: &Ref, a: i128, b: i128, slack_days: i128) -> bool {
    let Ref::Zoned(z, _) = rf else { return false };
    let lo = (a.min(b) - slack_days * NS_PER_DAY).clamp(TS_MIN_NS, TS_MAX_NS).div_euclid(NS_PER_SEC) as i64;
    let hi = (a.max(b) + slack_days * NS_PER_DAY).clamp(TS_MIN_NS, TS_MAX_NS).div_euclid(NS_PER_SEC) as i64;
    z.rz.transitions_between(lo, hi).iter().any(|(t, info)| info.off as i64 - z.rz.lookup(*t - 1).off as i64 >= 86_400)
}


/// For a zoned reference: is there a wall-clock datetime `W` = (a date, the reference's time of
/// day) that is later than the end point on the wall clock although its instant is not later
/// (or the mirror image for a negative direction)? That is exactly when Temporal's day counting
/// and the instant order disagree (only possible inside a fold).
fn wall_and_instant_order_disagree(rf: &Ref, end: i128) -> bool {
    let Ref::Zoned(z, t) = rf else { return false };
    if end == *t {
        return false;
    }
    let dir = (end - *t).signum();
    let wall_end = rz::local_of(&z.rz, end).0;
    let tod_r = rz::local_of(&z.rz, *t).0.rem_euclid(NS_PER_DAY);
    let mut w = wall_end.div_euclid(NS_PER_DAY) * NS_PER_DAY + tod_r;
    // the last wall-clock day point not beyond the end point (in the direction of travel) ...
    if (w - wall_end) * dir > 0 {
        w -= dir * NS_PER_DAY;
    }
    // ... and the next one, which is beyond it on the wall clock
    let w2 = w + dir * NS_PER_DAY;
    match rz::compatible(&z.rz, w2) {
        Ok(i2) => (i2 - end) * dir <= 0,
        Err(_) => false,
    }
}

// --- round ----------------------------------------------------------------------------------------

fn test_round(c: &Case, cx: &mut Cx) -> CaseResult {
    let rf = make_ref(c);
    let fa = spec_fields(&c.a);
    let a = c.a.to_span();
    let u = (c.smallest % 10) as usize;
    let l_given = if c.largest >= 10 { None } else { Some(c.largest as usize) };
    let inc = c.incr;
    let mode = MODES[(c.mode % 9) as usize];
    let res = with_rel(c, &rf, |rel| {
        // the setters are applied in a case-dependent order: the result must not depend on it
        let order = (c.incr as u64 ^ (c.mode as u64) << 3 ^ (c.smallest as u64) << 7 ^ c.a.u[3] as u64) % 6;
        let mut o = SpanRound::new();
        if order % 2 == 1 {
            if let Some(r) = rel {
                o = o.relative(r);
            }
            if let Some(lg) = l_given {
                o = o.largest(UNITS[lg]);
            }
        }
        o = match order / 2 {
            0 => o.smallest(UNITS[u]).mode(mode.to_jiff()).increment(inc),
            1 => o.increment(inc).smallest(UNITS[u]).mode(mode.to_jiff()),
            _ => o.mode(mode.to_jiff()).increment(inc).smallest(UNITS[u]),
        };
        if order % 2 == 0 {
            if let Some(lg) = l_given {
                o = o.largest(UNITS[lg]);
            }
            if let Some(r) = rel {
                o = o.relative(r);
            }
        }
        a.round(o)
    });
    let what = format!("{:?}.round(smallest={}, largest={}, increment={inc}, mode={mode:?}, relative={})", c.a, UNIT_NAMES[u], l_given.map(|i| UNIT_NAMES[i]).unwrap_or("default"), refname(&rf));
    if let Some(reason) = invalid_reason(&rf, &fa, u, l_given, inc) {
        cx.class("round: options that must be refused");
        cx.nt();
        ensure!(res.is_err(), format!("round-accepts:{reason}"), "{what} returned {:?} although {reason}", res);
        return Ok(());
    }
    let l = l_given.unwrap_or(largest_idx(&fa).min(u));
    let sa = sign_of(&fa);
    cx.class_if(sa < 0, "round: negative span");
    cx.class_if(u <= 3 || l <= 3, "round: calendar unit is smallest or largest");
    cx.class_if(inc > 1, "round: increment > 1");
    cx.class(match &rf {
        Ref::None => "round: no reference",
        Ref::Marker => "round: days-are-24-hours marker",
        Ref::Civil(_) => "round: civil reference",
        Ref::Zoned(..) => "round: zoned reference",
    });
    let origin = rf.origin();
    let end = match rf.add(&parts(&fa)) {
        Ok(e) => e,
        Err(AddErr::Range) => {
            cx.class("round: reference + span is out of range (no verdict)");
            return Ok(());
        }
        Err(_) => {
            cx.class("round: reference arithmetic undecided (no verdict)");
            return Ok(());
        }
    };
    if let Ref::Zoned(z, t) = &rf {
        let near = z.probes.iter().any(|&p| {
            let pn = p as i128 * NS_PER_SEC;
            (pn - *t).abs() < 2 * NS_PER_DAY || (pn - end).abs() < 2 * NS_PER_DAY
        });
        cx.class_if(near, "round: zoned reference or end within 2 days of a transition");
    }
    let r = match res {
        Ok(r) => r,
        Err(e) => {
            if u <= 3 && skips_a_day_near(&rf, origin, end, 800 + inc.clamp(0, 200_000) as i128 * [366, 31, 7, 1][u]) {
                cx.class("round: Err next to a day-skipping transition (no verdict)");
                return Ok(());
            }
            if comfortably_in_range(&rf, &fa, u, l, inc) {
                fail!(format!("round-spurious-error:relative={}", refname(&rf)), "{what} fails although nothing is near a limit: {e}");
            }
            cx.class("round: Err near a limit (no verdict)");
            return Ok(());
        }
    };
    cx.nt_if(sa < 0 || u <= 3 || l <= 3 || r.fieldwise() != a.fieldwise());
    let fr = span_fields(&r);
    // (a) unit window
    for i in 0..10 {
        if fr[i] != 0 {
            ensure!(i >= l, "round-unit-above-largest", "{what} = {r:?}: {} is non-zero but largest is {}", UNIT_NAMES[i], UNIT_NAMES[l]);
            ensure!(i <= u, "round-unit-below-smallest", "{what} = {r:?}: {} is non-zero but smallest is {}", UNIT_NAMES[i], UNIT_NAMES[u]);
        }
    }
    // (b) multiple of the increment
    if fr[u] % inc as i128 != 0 {
        cx.soft_fail(
            format!("round-smallest-field-not-multiple-of-increment:smallest={},largest={},relative={}", UNIT_NAMES[u], UNIT_NAMES[l], refname(&rf)),
            format!("{what} = {r:?}: the {} field {} is not a multiple of {inc}", UNIT_NAMES[u], fr[u]),
        );
    }
    // (c) the rounded end point is the neighbour the mode prescribes
    let at = |k: i128| -> Result<i128, AddErr> {
        let mut f = fr;
        f[u] = k;
        rf.add(&parts(&f))
    };
    let k = fr[u];
    let x = match at(k) {
        Ok(x) => x,
        Err(AddErr::Weird) => {
            cx.class("round: reference arithmetic undecided (no verdict)");
            return Ok(());
        }
        Err(_) => {
            // (jiff rounds civil-relative spans of days and below without touching the reference)
            cx.class("round: reference + result is out of range (no verdict)");
            return Ok(());
        }
    };
    if u == 9 && inc == 1 {
        cx.class("round: pure balancing (smallest = ns, increment 1)");
        ensure!(x == end, "balance-changes-end", "{what} = {r:?}: reference + balanced = {x} but reference + span = {end}");
    }
    let (lo, hi) = (at(k - inc as i128), at(k + inc as i128));
    // Which sides are needed depends on where `end` lies relative to x.
    let verdict = judge(mode, sa, x, end, lo.ok(), hi.ok(), origin);
    if let (Some(l0), Some(h0)) = (lo.as_ref().ok(), hi.as_ref().ok()) {
        cx.class_if(end != x && (2 * (end - x).abs() == (*h0 - x).abs() || 2 * (end - x).abs() == (x - *l0).abs()), "round: end point exactly half way to a neighbouring multiple");
    }
    match verdict {
        Judge::Ok => {}
        Judge::Tie => cx.class("round: exact tie under half-even (either neighbour accepted)"),
        Judge::Degenerate => cx.class("round: zero-length or unavailable unit window (no verdict)"),
        Judge::Bad(why, dist, window) => {
            // stated tolerance: jiff evaluates the progress of calendar units in f64
            // (`Nudge::relative_calendar`: truncated + numer/denom*increment); strictly inside a
            // band of (|end - reference| + 4 windows) * 2^-50 around a decision point either
            // neighbour is accepted. Exact boundaries and exact ties are never tolerated.
            // (the f64 path is taken for smallest >= day with a zoned reference and for
            // smallest >= week with a civil one; civil day rounding is exact integer arithmetic)
            let float_path = match &rf {
                Ref::Zoned(..) => u <= 3,
                Ref::Civil(_) => u <= 2,
                _ => false,
            };
            let band = if float_path && dist != 0 { ((end - origin).abs() + 4 * window) >> 50 } else { 0 };
            // Temporal's bubbling (jiff's documented model) replaces e.g. `1y 31d` by `1y 1mo`
            // whenever r + 1y 31d has reached r + 1y 1mo; when that month step lands on a clamped
            // day of month (Mar 31 + 1mo = Apr 30) the bubbled result is *earlier* than the
            // un-bubbled one, and can fall on the wrong side of the end point. No verdict there.
            let ref_day = match &rf {
                Ref::Civil(c) => c.2,
                Ref::Zoned(z, t) => rz::civil_parts(rz::local_of(&z.rz, *t).0).2,
                _ => 0,
            };
            let landed_day = match &rf {
                Ref::Civil(_) => rz::civil_parts(x).2,
                Ref::Zoned(z, _) => rz::civil_parts(rz::local_of(&z.rz, x).0).2,
                _ => 0,
            };
            // Temporal's NudgeToZonedTime (jiff's documented model): when the rounded time reaches
            // the end of the (zone-aware) day, the day count is bumped and the *remainder beyond
            // the day* is rounded again. If that day's length is not a multiple of the increment
            // (23 h day, 12 h increment) the result is not the nearest reachable multiple. No verdict.
            let odd_day = if let (Ref::Zoned(..), true, true) = (&rf, u >= 4, fr[..4].iter().any(|&v| v != 0)) {
                let mut date_part = fr;
                for v in date_part[4..].iter_mut() {
                    *v = 0;
                }
                let mut prev = date_part;
                prev[3] -= sign_of(&fr).max(-1).min(1);
                match (rf.add(&parts(&date_part)), rf.add(&parts(&prev))) {
                    (Ok(e1), Ok(e0)) => (e1 - e0).abs() % (inc as i128 * UNIT_NS[u]) != 0,
                    _ => false,
                }
            } else {
                false
            };
            let later_fold_instant = |t: i128| -> bool {
                match &rf {
                    Ref::Zoned(z, _) => rz::compatible(&z.rz, rz::local_of(&z.rz, t).0).map_or(false, |c| c != t),
                    _ => false,
                }
            };
            if later_fold_instant(origin) || later_fold_instant(end) || later_fold_instant(x) {
                // wall-clock arithmetic resolves a repeated civil time to its earlier instant, so
                // reference + (anything that lands on that civil time) cannot be the later one:
                // the neighbouring multiples computed by addition are off by the fold length
                // (the same situation as C07's listed finding)
                cx.class("round: reference, end point or result is the later instant of a fold (no verdict)");
            } else if wall_and_instant_order_disagree(&rf, end) {
                // Temporal's zoned difference (jiff's documented model) counts whole days on the
                // wall clock. When the end point lies inside a fold so that `date(end) at the
                // reference's time of day` is later on the wall clock but not later as an instant,
                // the balanced span carries a time part of a whole day or more, and rounding its
                // calendar part treats the end point as lying *before* that day boundary.
                cx.class("round: wall-clock and instant order disagree at the end point (fold; Temporal semantics; no verdict)");
            } else if u <= 3 && skips_a_day_near(&rf, origin, end, 40 + 3 * inc.clamp(0, 200_000) as i128 * [366, 31, 7, 1][u]) {
                // day arithmetic is not monotone next to a gap of 24 hours or more (r - 2d can be
                // later than r - 1d): the unit windows the statement speaks of do not exist
                cx.class("round: next to a day-skipping transition (no verdict)");
            } else if odd_day {
                cx.class("round: time rounded across a day whose length is not a multiple of the increment (Temporal semantics; no verdict)");
            } else if fr[2..].iter().all(|&v| v == 0) && (fr[0] != 0 || fr[1] != 0) && landed_day < ref_day {
                cx.class("round: bubbled onto a clamped day of month (Temporal semantics; no verdict)");
            } else if band > 0 && dist != 0 && dist.abs() <= band + 1 {
                cx.class("round: inside the stated f64 band of a decision point (either neighbour accepted)");
            } else {
                cx.soft_fail(
                    format!("round-not-mode-neighbour:{why}:mode={mode:?}:smallest={}:relative={}", if u <= 3 { UNIT_NAMES[u] } else { "time-unit" }, refname(&rf)),
                    format!("{what} = {r:?}: reference+result = {x}, reference+span = {end}, neighbours {:?} / {:?}: {why} (off by {dist} ns of a {window} ns window)", lo.ok(), hi.ok()),
                );
            }
        }
    }
    // (c') with increment 1 and a calendar smallest unit, rounding away from zero lands on the
    // result of rounding toward zero or exactly one unit further (in the decomposition of the
    // truncated result). This pins the prefix of larger units, which the neighbour test above
    // deliberately leaves open: `29d` to weeks with largest=month must be 4w or 5w, not `1mo`.
    if inc == 1 && u <= 3 && end != origin {
        let both = with_rel(c, &rf, |rel| {
            let mk = |m: jiff::RoundMode| {
                let mut o = SpanRound::new().smallest(UNITS[u]).mode(m).increment(1);
                if let Some(lg) = l_given {
                    o = o.largest(UNITS[lg]);
                }
                if let Some(r) = rel {
                    o = o.relative(r);
                }
                a.round(o)
            };
            (mk(jiff::RoundMode::Trunc), mk(jiff::RoundMode::Expand))
        });
        if let (Ok(rt), Ok(re)) = both {
            let (ft, fe) = (span_fields(&rt), span_fields(&re));
            let dir = (end - origin).signum();
            let mut ft1 = ft;
            ft1[u] += dir;
            if let (Ok(xt), Ok(xe), Ok(xt1)) = (rf.add(&parts(&ft)), rf.add(&parts(&fe)), rf.add(&parts(&ft1))) {
                cx.class("round: expand compared with trunc (increment 1, calendar smallest unit)");
                if xe != xt && xe != xt1 {
                    let later_fold_instant = |t: i128| -> bool {
                        match &rf {
                            Ref::Zoned(z, _) => rz::compatible(&z.rz, rz::local_of(&z.rz, t).0).map_or(false, |c| c != t),
                            _ => false,
                        }
                    };
                    let ref_day = match &rf {
                        Ref::Civil(c) => c.2,
                        Ref::Zoned(z, t) => rz::civil_parts(rz::local_of(&z.rz, *t).0).2,
                        _ => 0,
                    };
                    let day_of = |p: i128| match &rf {
                        Ref::Civil(_) => rz::civil_parts(p).2,
                        Ref::Zoned(z, _) => rz::civil_parts(rz::local_of(&z.rz, p).0).2,
                        _ => 0,
                    };
                    if later_fold_instant(origin) || later_fold_instant(end) || later_fold_instant(xe) || later_fold_instant(xt) || wall_and_instant_order_disagree(&rf, end) || skips_a_day_near(&rf, origin, end, 800) {
                        cx.class("round: expand vs trunc next to a fold or day-skipping transition (no verdict)");
                    } else if day_of(xe) < ref_day || day_of(xt) < ref_day || day_of(xt1) < ref_day {
                        cx.class("round: expand vs trunc on a clamped day of month (Temporal semantics; no verdict)");
                    } else {
                        cx.soft_fail(
                            format!("round-expand-not-adjacent-to-trunc:smallest={}:relative={}", UNIT_NAMES[u], refname(&rf)),
                            format!("{:?}.round(smallest={}, largest={}, relative={}): trunc = {rt:?} (reference+ = {xt}), expand = {re:?} (reference+ = {xe}); one {} further than trunc is {xt1}", c.a, UNIT_NAMES[u], l_given.map(|i| UNIT_NAMES[i]).unwrap_or("default"), refname(&rf), UNIT_NAMES[u]),
                        );
                    }
                }
            }
        }
    }
    // (d) uniform units: exact answer
    let uniform = largest_idx(&fa).min(l) >= rf.uniform_from() && (u >= 4 || !rf.has_reference() || (matches!(rf, Ref::Civil(_)) && u == 3));
    if uniform {
        cx.class("round: uniform units, compared exactly");
        let p = parts(&fa);
        let n = p.days * NS_PER_DAY + p.ns;
        let n2 = round_to(n, inc as i128 * UNIT_NS[u], mode);
        let mut want = [0i128; 10];
        let mut rest = n2;
        for i in l..=u {
            want[i] = rest / UNIT_NS[i];
            rest -= want[i] * UNIT_NS[i];
        }
        ensure!(rest == 0, "HARNESS-PANIC", "uniform balance left a remainder");
        ensure!(want == fr, "round-uniform-differs", "{what} = {r:?}, exact rounding of {n} ns gives fields {want:?}");
    }
    Ok(())
}

enum Judge {
    Ok,
    Tie,
    Degenerate,
    /// (what is wrong, distance in ns from the violated decision point, window length)
    Bad(&'static str, i128, i128),
}

/// Is `x` the value `mode` prescribes for `end`, given the neighbouring multiples lo < x < hi?
/// `sa` is the sign of the span (for trunc/expand: toward/away from the reference).
fn judge(mode: Mode, sa: i128, x: i128, end: i128, lo: Option<i128>, hi: Option<i128>, origin: i128) -> Judge {
    if end == x {
        return Judge::Ok;
    }
    // direction of "toward zero" on the number line
    // (the direction in which the end point actually lies: next to a gap longer than a day the
    // balanced span can have the opposite sign of the span as written)
    let dir = if end != origin { (end - origin).signum() } else { sa };
    // normalise: work with d = end - x and the neighbour on that side
    let above = end > x;
    let (nb, window) = if above {
        match hi {
            Some(h) if h > x => (h, h - x),
            _ => return Judge::Degenerate,
        }
    } else {
        match lo {
            Some(l) if l < x => (l, x - l),
            _ => return Judge::Degenerate,
        }
    };
    let d = (end - x).abs();
    if d >= window {
        // beyond the neighbouring multiple: never right
        return Judge::Bad("end is not between the neighbouring multiples", d - window + 1, window);
    }
    let _ = nb;
    // x is "down" for this end when it lies toward -inf of end
    let x_is_below = above;
    let allowed_nonhalf = match mode {
        Mode::Floor => x_is_below,
        Mode::Ceil => !x_is_below,
        // toward zero: x must be on the origin side of end
        Mode::Trunc => (dir > 0) == x_is_below,
        Mode::Expand => (dir > 0) != x_is_below,
        _ => true,
    };
    match mode {
        Mode::Floor | Mode::Ceil | Mode::Trunc | Mode::Expand => {
            if allowed_nonhalf {
                Judge::Ok
            } else {
                // the decision point is x itself (end must not be on this side of x)
                Judge::Bad("rounded in the wrong direction", d, window)
            }
        }
        _ => {
            // nearest: 2d < window fine; 2d > window wrong; tie by rule
            if 2 * d < window {
                Judge::Ok
            } else if 2 * d > window {
                Judge::Bad("the other neighbour is nearer", (2 * d - window + 1) / 2, window)
            } else {
                // exact tie: x was chosen over the other neighbour
                let chose_below = x_is_below;
                let ok = match mode {
                    Mode::HalfFloor => chose_below,
                    Mode::HalfCeil => !chose_below,
                    Mode::HalfTrunc => (dir > 0) == chose_below,
                    Mode::HalfExpand => (dir > 0) != chose_below,
                    _ => return Judge::Tie,
                };
                if ok {
                    Judge::Ok
                } else {
                    Judge::Bad("exact tie broken against the mode", 0, window)
                }
            }
        }
    }
}

/// The tuple shorthands (`(Unit, Date)`, `(Span, &Zoned)`, `(&Span, DateTime)`, ...) are the
/// `SpanRelativeTo` forms under another spelling: same answer or the same refusal.
fn shorthand_forms(c: &Case, rf: &Ref, a: Span, b: Span, u: usize) -> CaseResult {
    fn same_span(x: &Result<Span, jiff::Error>, y: &Result<Span, jiff::Error>) -> bool {
        match (x, y) {
            (Ok(p), Ok(q)) => p.fieldwise() == q.fieldwise(),
            (Err(_), Err(_)) => true,
            _ => false,
        }
    }
    fn same_f(x: &Result<f64, jiff::Error>, y: &Result<f64, jiff::Error>) -> bool {
        match (x, y) {
            (Ok(p), Ok(q)) => p.to_bits() == q.to_bits() || (p.is_nan() && q.is_nan()),
            (Err(_), Err(_)) => true,
            _ => false,
        }
    }
    fn same_o(x: &Result<std::cmp::Ordering, jiff::Error>, y: &Result<std::cmp::Ordering, jiff::Error>) -> bool {
        match (x, y) {
            (Ok(p), Ok(q)) => p == q,
            (Err(_), Err(_)) => true,
            _ => false,
        }
    }
    let unit = UNITS[u];
    macro_rules! forms {
        ($r:expr, $rel:expr, $name:expr) => {{
            let t0 = a.total((unit, $rel));
            let t1 = a.total((unit, $r));
            ensure!(same_f(&t0, &t1), "shorthand-differs:total", "{:?}.total(({}, {})) = {t1:?} but with SpanRelativeTo {t0:?}", c.a, UNIT_NAMES[u], $name);
            let c0 = a.compare((b, $rel));
            let (c1, c2) = (a.compare((b, $r)), a.compare((&b, $r)));
            ensure!(same_o(&c0, &c1) && same_o(&c0, &c2), "shorthand-differs:compare", "{:?}.compare(({:?}, {})) = {c1:?} / {c2:?} but with SpanRelativeTo {c0:?}", c.a, c.b, $name);
            let (s0, d0) = (a.checked_add((b, $rel)), a.checked_sub((b, $rel)));
            let (s1, s2) = (a.checked_add((b, $r)), a.checked_add((&b, $r)));
            let (d1, d2) = (a.checked_sub((b, $r)), a.checked_sub((&b, $r)));
            ensure!(same_span(&s0, &s1) && same_span(&s0, &s2) && same_span(&d0, &d1) && same_span(&d0, &d2), "shorthand-differs:checked_add", "{:?} +/- ({:?}, {}): {s1:?} / {s2:?} / {d1:?} / {d2:?} but with SpanRelativeTo {s0:?} / {d0:?}", c.a, c.b, $name);
        }};
    }
    match rf {
        Ref::None | Ref::Marker => {}
        Ref::Civil(_) => {
            let d = gen::mk_date(c.d.0, c.d.1, c.d.2);
            if c.refk % 5 == 1 {
                forms!(d, SpanRelativeTo::from(d), "Date");
            } else {
                let dt = d.to_datetime(gen::mk_time(c.t));
                forms!(dt, SpanRelativeTo::from(dt), "DateTime");
            }
        }
        Ref::Zoned(z, t) => {
            let zd = Timestamp::from_nanosecond(*t).unwrap().to_zoned(z.tz.clone());
            forms!(&zd, SpanRelativeTo::from(&zd), "&Zoned");
        }
    }
    Ok(())
}

// --- total ----------------------------------------------------------------------------------------

fn test_total(c: &Case, cx: &mut Cx) -> CaseResult {
    let rf = make_ref(c);
    let fa = spec_fields(&c.a);
    let a = c.a.to_span();
    let u = (c.smallest % 10) as usize;
    let res = with_rel(c, &rf, |rel| match rel {
        None => a.total(UNITS[u]),
        Some(r) => a.total((UNITS[u], r)),
    });
    let what = format!("{:?}.total({}, relative={})", c.a, UNIT_NAMES[u], refname(&rf));
    let top = largest_idx(&fa).min(u);
    let refuse = match &rf {
        Ref::None if top <= 3 => Some("calendar-unit-without-reference"),
        Ref::Marker if top <= 1 => Some("years-or-months-with-24-hour-days-marker"),
        _ => None,
    };
    if let Some(reason) = refuse {
        cx.class("total: must be refused");
        cx.nt();
        ensure!(res.is_err(), format!("total-accepts:{reason}"), "{what} returned {:?} although {reason}", res);
        return Ok(());
    }
    let origin = rf.origin();
    let end = match rf.add(&parts(&fa)) {
        Ok(e) => e,
        Err(_) => {
            cx.class("total: reference + span out of range or undecided (no verdict)");
            return Ok(());
        }
    };
    let got = match res {
        Ok(v) => v,
        Err(e) => {
            if u <= 3 && skips_a_day_near(&rf, origin, end, 800) {
                cx.class("total: Err next to a day-skipping transition (no verdict)");
                return Ok(());
            }
            if comfortably_in_range(&rf, &fa, u, u, 1) {
                fail!(format!("total-spurious-error:relative={}", refname(&rf)), "{what} fails although nothing is near a limit: {e}");
            }
            cx.class("total: Err near a limit (no verdict)");
            return Ok(());
        }
    };
    ensure!(got.is_finite(), "total-not-finite", "{what} = {got}");
    if u <= 3 && skips_a_day_near(&rf, origin, end, 800) {
        // day arithmetic is not monotone next to a gap of 24 hours or more: no unit windows
        cx.class("total: next to a day-skipping transition (no verdict)");
        return Ok(());
    }
    // exact value as whole + num/den
    let uniform_unit = u >= rf.uniform_from();
    let (whole, num, den): (i128, i128, i128) = if uniform_unit {
        cx.class("total: uniform unit");
        // everything above the unit contributes through the end point: count = (end - origin)/unit
        let delta = end - origin;
        (delta / UNIT_NS[u], delta % UNIT_NS[u], UNIT_NS[u])
    } else {
        cx.class("total: calendar unit (window by search)");
        cx.nt();
        // largest k (in the direction of the span) with r + k*u not beyond end
        let dir = (end - origin).signum();
        if dir == 0 {
            (0, 0, 1)
        } else {
            let unit_at = |k: i128| -> Result<i128, AddErr> {
                let mut f = [0i128; 10];
                f[u] = k;
                rf.add(&parts(&f))
            };
            let approx = [365 * NS_PER_DAY + NS_PER_DAY / 4, 30 * NS_PER_DAY, 7 * NS_PER_DAY, NS_PER_DAY][u];
            let mut k = (end - origin).abs() / approx;
            // walk to the bracket: pos(k) <= |end| < pos(k+1) in direction dir
            let mut guard = 0;
            loop {
                guard += 1;
                if guard > 400 {
                    cx.class("total: window search did not settle (no verdict)");
                    return Ok(());
                }
                let p0 = match unit_at(dir * k) {
                    Ok(p) => p,
                    Err(_) => {
                        cx.class("total: window out of range or undecided (no verdict)");
                        return Ok(());
                    }
                };
                if (p0 - end) * dir > 0 {
                    if k == 0 {
                        cx.class("total: window search did not settle (no verdict)");
                        return Ok(());
                    }
                    k -= 1;
                    continue;
                }
                let p1 = match unit_at(dir * (k + 1)) {
                    Ok(p) => p,
                    Err(_) => {
                        cx.class("total: window out of range or undecided (no verdict)");
                        return Ok(());
                    }
                };
                if (p1 - end) * dir <= 0 {
                    k += 1;
                    continue;
                }
                if p1 == p0 {
                    cx.class("total: zero-length window (no verdict)");
                    return Ok(());
                }
                break (dir * k, dir * (end - p0).abs(), (p1 - p0).abs());
            }
        }
    };
    // compare got with whole + num/den: |got*den - (whole*den + num)| <= tol
    let exact = whole as f64 + num as f64 / den as f64;
    let tol = exact.abs() * 2f64.powi(-44) + 1e-9;
    cx.nt_if(num != 0);
    // Day-of-month clamping makes "whole months between" ambiguous: from Mar 31, 17240 months
    // lands on Nov 30 (clamped), and Temporal's difference algorithm (jiff's documented model)
    // then counts 17239 months + 30 days, measuring the fraction in the window *before* the
    // clamped date. Where r + whole units is a clamped date, that reading is accepted too.
    let mut alt: Option<f64> = None;
    // The same happens with a zoned reference when the end point's wall clock reads earlier
    // than that of r + whole units although its instant is later (inside a fold): Temporal's
    // wall-clock comparison then counts one unit less and a fraction above 1.
    if !uniform_unit && whole != 0 {
        let ref_day = match &rf {
            Ref::Civil(c) => c.2,
            Ref::Zoned(z, t) => rz::civil_parts(rz::local_of(&z.rz, *t).0).2,
            _ => 0,
        };
        let at = |k: i128| -> Result<i128, AddErr> {
            let mut f = [0i128; 10];
            f[u] = k;
            rf.add(&parts(&f))
        };
        let toward_zero = whole - whole.signum();
        if let (Ok(p0), Ok(q0)) = (at(whole), at(toward_zero)) {
            let landed_day = match &rf {
                Ref::Civil(_) => rz::civil_parts(p0).2,
                Ref::Zoned(z, _) => rz::civil_parts(rz::local_of(&z.rz, p0).0).2,
                _ => 0,
            };
            if (landed_day < ref_day && u <= 1 || matches!(rf, Ref::Zoned(..))) && p0 != q0 {
                
                alt = Some(toward_zero as f64 + whole.signum() as f64 * ((end - q0).abs() as f64 / (p0 - q0).abs() as f64));
            }
        }
    }
    if (got - exact).abs() > tol && alt.map_or(false, |a| (got - a).abs() <= tol) {
        cx.class("total: matches Temporal's reading at a clamped day of month / fold (accepted)");
    } else if (got - exact).abs() > tol {
        cx.soft_fail(
            format!("total-differs:unit={}:relative={}", if u <= 3 { UNIT_NAMES[u] } else { "time-unit" }, refname(&rf)),
            format!("{what} = {got:e}, exact count is {whole} + {num}/{den} = {exact:e}"),
        );
    }
    // whole-number answers must be exact when the operands are exactly representable
    // (only when the nanosecond count itself is exactly representable: jiff divides two f64s)
    if num == 0 && uniform_unit && (end - origin).abs() < (1i128 << 53) {
        ensure!(got == whole as f64, format!("total-integer-not-exact:relative={}", refname(&rf)), "{what} = {got:e}, exact count is the integer {whole}");
    }
    Ok(())
}

// --- compare --------------------------------------------------------------------------------------

fn test_compare(c: &Case, cx: &mut Cx) -> CaseResult {
    let rf = make_ref(c);
    let (fa, fb) = (spec_fields(&c.a), spec_fields(&c.b));
    let (a, b) = (c.a.to_span(), c.b.to_span());
    let res = with_rel(c, &rf, |rel| match rel {
        None => a.compare(b),
        Some(r) => a.compare((b, r)),
    });
    let what = format!("{:?}.compare({:?}, relative={})", c.a, c.b, refname(&rf));
    shorthand_forms(c, &rf, a, b, (c.smallest % 10) as usize)?;
    let top = largest_idx(&fa).min(largest_idx(&fb));
    let refuse = match &rf {
        Ref::None if top <= 3 => Some("calendar-unit-without-reference"),
        Ref::Marker if top <= 1 => Some("years-or-months-with-24-hour-days-marker"),
        _ => None,
    };
    if let Some(reason) = refuse {
        cx.class("compare: must be refused");
        cx.nt();
        ensure!(res.is_err(), format!("compare-accepts:{reason}"), "{what} returned {:?} although {reason}", res);
        return Ok(());
    }
    let (ea, eb) = match (rf.add(&parts(&fa)), rf.add(&parts(&fb))) {
        (Ok(x), Ok(y)) => (x, y),
        _ => {
            cx.class("compare: reference + span out of range or undecided (no verdict)");
            return Ok(());
        }
    };
    let got = match res {
        Ok(o) => o,
        Err(e) => {
            if comfortably_in_range(&rf, &fa, 9, 9, 1) && comfortably_in_range(&rf, &fb, 9, 9, 1) {
                fail!(format!("compare-spurious-error:relative={}", refname(&rf)), "{what} fails although nothing is near a limit: {e}");
            }
            cx.class("compare: Err near a limit (no verdict)");
            return Ok(());
        }
    };
    let want = ea.cmp(&eb);
    cx.nt_if(fa != fb);
    cx.class(match want {
        Ordering::Less => "compare: less",
        Ordering::Equal => "compare: equal",
        Ordering::Greater => "compare: greater",
    });
    cx.class_if(want == Ordering::Equal && fa != fb, "compare: equal end points from different fields");
    ensure!(got == want, format!("compare-differs:relative={}", refname(&rf)), "{what} = {got:?} but reference+a = {ea} and reference+b = {eb} ({want:?})");
    Ok(())
}

// --- to_duration and uniform addition -----------------------------------------------------------

fn test_duration(c: &Case, cx: &mut Cx) -> CaseResult {
    let rf = make_ref(c);
    let (fa, fb) = (spec_fields(&c.a), spec_fields(&c.b));
    let (a, b) = (c.a.to_span(), c.b.to_span());
    // to_duration(relative) = (r + span) - r
    if let Ref::Civil(_) | Ref::Zoned(..) | Ref::Marker = &rf {
        let res = with_rel(c, &rf, |rel| a.to_duration(rel.unwrap()));
        let what = format!("{:?}.to_duration(relative={})", c.a, refname(&rf));
        let refuse = matches!(rf, Ref::Marker) && largest_idx(&fa) <= 1;
        if refuse {
            ensure!(res.is_err(), "to_duration-accepts:years-or-months-with-24-hour-days-marker", "{what} = {res:?}");
        } else if let Ok(end) = rf.add(&parts(&fa)) {
            match res {
                Ok(d) => {
                    cx.nt_if(largest_idx(&fa) <= 3);
                    cx.class("to_duration: compared");
                    let got = d.as_nanos();
                    ensure!(got == end - rf.origin(), format!("to_duration-differs:relative={}", refname(&rf)), "{what} = {got} ns but (reference+span)-reference = {} ns", end - rf.origin());
                }
                Err(e) => {
                    if comfortably_in_range(&rf, &fa, 9, 9, 1) {
                        fail!(format!("to_duration-spurious-error:relative={}", refname(&rf)), "{what} fails although nothing is near a limit: {e}");
                    }
                }
            }
        }
    }
    // sums relative to a datetime conserve the end point: r + (a + b) == (r + a) + b, and the
    // same with -b (the documented construction: add both spans to the reference one after the
    // other, then take the balanced difference from the reference)
    if rf.has_reference() {
        let step = |from: &Ref, f: &[i128; 10]| -> Option<(Ref, i128)> {
            let pos = from.add(&parts(f)).ok()?;
            let next = match from {
                Ref::Civil(_) => Ref::Civil(rz::civil_parts(pos)),
                Ref::Zoned(z, _) => Ref::Zoned(z.clone(), pos),
                _ => return None,
            };
            Some((next, pos))
        };
        let neg_b = {
            let mut f = fb;
            for v in f.iter_mut() {
                *v = -*v;
            }
            f
        };
        for (name, fb2, res) in [
            ("checked_add", fb, with_rel(c, &rf, |rel| a.checked_add((b, rel.unwrap())))),
            ("checked_sub", neg_b, with_rel(c, &rf, |rel| a.checked_sub((b, rel.unwrap())))),
        ] {
            let what = format!("{:?}.{name}({:?}, relative={})", c.a, c.b, refname(&rf));
            let Some((mid, _)) = step(&rf, &fa) else { continue };
            let Some((_, want)) = step(&mid, &fb2) else { continue };
            let Ok(s) = res else { continue };
            let fs = span_fields(&s);
            let Ok(got) = rf.add(&parts(&fs)) else { continue };
            cx.class("relative add/sub: end point compared");
            cx.nt_if(largest_idx(&fa) <= 3 || largest_idx(&fb) <= 3);
            if got != want {
                // the balanced difference itself is C07's subject; its listed finding (the end
                // point is the later instant of a fold) shows through here
                let in_fold = match &rf {
                    Ref::Zoned(z, _) => {
                        let near = |t: i128| z.rz.transitions_between((t.div_euclid(NS_PER_SEC) - 90_000) as i64, (t.div_euclid(NS_PER_SEC) + 90_000) as i64).iter().any(|(tt, info)| (info.off as i64) < z.rz.lookup(*tt - 1).off as i64 || info.off as i64 - z.rz.lookup(*tt - 1).off as i64 >= 86_400);
                        near(want) || near(rf.origin()) || near(mid.origin())
                    }
                    _ => false,
                };
                if in_fold {
                    cx.class("relative add/sub: end point within a day of a fold or day-skipping gap (C07's listed finding; no verdict)");
                } else {
                    cx.soft_fail(format!("relative-{name}-moves-end-point:relative={}", refname(&rf)), format!("{what} = {s:?}: reference + result = {got}, but (reference + a) {} b = {want}", if name == "checked_add" { "+" } else { "-" }));
                }
            }
            let lg = largest_idx(&fa).min(largest_idx(&fb));
            for i in 0..lg {
                if fs[i] != 0 {
                    cx.soft_fail(format!("relative-{name}-unit-above-operands:relative={}", refname(&rf)), format!("{what} = {s:?}: {} is non-zero", UNIT_NAMES[i]));
                }
            }
        }
    }
    // uniform units: sums and differences are exact nanosecond counts
    let from = rf.uniform_from();
    if largest_idx(&fa) >= from && largest_idx(&fb) >= from {
        let (na, nb) = (parts(&fa), parts(&fb));
        let (na, nb) = (na.days * NS_PER_DAY + na.ns, nb.days * NS_PER_DAY + nb.ns);
        for (name, want, res) in [
            ("checked_add", na + nb, with_rel(c, &rf, |rel| match rel {
                None => a.checked_add(b),
                Some(r) => a.checked_add((b, r)),
            })),
            ("checked_sub", na - nb, with_rel(c, &rf, |rel| match rel {
                None => a.checked_sub(b),
                Some(r) => a.checked_sub((b, r)),
            })),
        ] {
            let what = format!("{:?}.{name}({:?}, relative={})", c.a, c.b, refname(&rf));
            match res {
                Ok(s) => {
                    cx.class("uniform add/sub: compared");
                    cx.nt_if(na != 0 && nb != 0);
                    let fs = span_fields(&s);
                    ensure!(fs[0] == 0 && fs[1] == 0, "add-invents-calendar-units", "{what} = {s:?}");
                    let p = parts(&fs);
                    let got = p.days * NS_PER_DAY + p.ns;
                    ensure!(got == want, format!("uniform-{name}-differs:relative={}", refname(&rf)), "{what} = {s:?} = {got} ns, exact is {want} ns");
                    let lg = largest_idx(&fa).min(largest_idx(&fb));
                    for i in 0..lg {
                        ensure!(fs[i] == 0, format!("uniform-{name}-unit-above-operands"), "{what} = {s:?}: {} is non-zero", UNIT_NAMES[i]);
                    }
                }
                Err(e) => {
                    if comfortably_in_range(&rf, &fa, 9, 9, 1) && comfortably_in_range(&rf, &fb, 9, 9, 1) && want.abs() < (1i128 << 62) {
                        fail!(format!("uniform-{name}-spurious-error:relative={}", refname(&rf)), "{what} fails although nothing is near a limit: {e}");
                    }
                }
            }
        }
    }
    Ok(())
}

// --- generators -----------------------------------------------------------------------------------

fn small_mag(i: usize) -> BoxedStrategy<i64> {
    let lim = SPAN_LIMITS[i];
    let typical: i64 = [30, 40, 60, 90, 80, 150, 150, 2500, 2500, 2500][i];
    prop_oneof![
        8 => Just(0i64),
        2 => Just(1i64),
        12 => 0i64..=typical,
        4 => 0i64..=(typical * 40).min(lim),
        1 => prop_oneof![2 => 0i64..=lim, 1 => Just(lim), 1 => Just(lim - 1)],
    ]
    .boxed()
}

/// Spans that mostly keep reference + span in range.
fn moderate_span() -> BoxedStrategy<SpanSpec> {
    let masks: Vec<[bool; 10]> = vec![
        [true; 10],
        [true, true, true, true, false, false, false, false, false, false],
        [false, false, true, true, true, true, true, true, true, true],
        [false, false, false, true, true, true, true, false, false, true],
        [false, false, false, false, true, true, true, true, true, true],
        [true, true, false, true, true, false, false, false, false, false],
        [false, true, true, true, false, false, false, false, false, false],
    ];
    (proptest::sample::select(masks), any::<bool>())
        .prop_flat_map(|(mask, neg)| {
            let units: Vec<BoxedStrategy<i64>> = (0..10).map(|i| if mask[i] { small_mag(i) } else { Just(0i64).boxed() }).collect();
            units.prop_map(move |v| {
                let mut u = [0i64; 10];
                u.copy_from_slice(&v);
                SpanSpec { neg, u }
            })
        })
        .boxed()
}

fn strat_case() -> BoxedStrategy<Case> {
    let incr = prop_oneof![
        6 => Just(1i64),
        5 => proptest::sample::select(vec![2i64, 3, 4, 5, 6, 10, 12, 15, 20, 30, 100, 250, 500]),
        2 => proptest::sample::select(vec![7i64, 8, 9, 11, 13, 24, 25, 60, 1000]),
        1 => 1i64..=400,
        1 => proptest::sample::select(vec![0i64, -1, i64::MAX, i64::MIN, 1_000_000]),
    ];
    let date = prop_oneof![
        6 => (1850i16..=2150, 1i8..=12, 1i8..=31),
        2 => (-9999i16..=9999, 1i8..=12, 1i8..=31),
        2 => (1999i16..=2030, prop_oneof![Just(1i8), Just(2), Just(3), Just(12)], prop_oneof![Just(28i8), Just(29), Just(30), Just(31), Just(1)]),
    ]
    .prop_map(|(y, m, d)| {
        let dim = crate::refmodel::refcal::days_in_month(y as i64, m as i64) as i8;
        (y, m, d.min(dim))
    });
    (
        (prop_oneof![2 => Just(0u8), 2 => Just(1u8), 3 => Just(2u8), 5 => Just(3u8), 2 => Just(4u8)], date, gen::tod_ns(), strat_zone_probe()),
        (moderate_span(), moderate_span(), 0u8..10, prop_oneof![3 => Just(10u8), 5 => 0u8..10], incr, 0u8..9),
        (any::<u8>(), any::<u8>()),
    )
        .prop_map(|((refk, d, t, probe), (a, b, smallest, largest, incr, mode), (tweak, tie))| {
            // for most cases make the options well-formed: largest not below smallest, and for
            // time units an increment that divides the next unit
            let (mut a, mut b, mut smallest, mut largest) = (a, b, smallest, largest);
            // without a reference (or with the 24-hour-days marker) keep most cases inside what
            // is accepted: hours and below (weeks and below); the rest exercises the refusals
            let floor_unit: u8 = match refk { 0 => 4, 4 => 2, _ => 0 };
            if floor_unit > 0 && tweak % 7 != 0 {
                for i in 0..floor_unit as usize {
                    a.u[i] = 0;
                    b.u[i] = 0;
                }
                smallest = floor_unit + smallest % (10 - floor_unit);
                if largest < 10 {
                    largest = floor_unit + largest % (10 - floor_unit);
                }
            }
            if largest < 10 && largest > smallest && tweak % 8 != 0 {
                largest = smallest;
            }
            let mut incr = incr;
            if smallest >= 4 && tweak % 16 != 1 && incr > 0 {
                let limit: i64 = [24, 60, 60, 1000, 1000, 1000][smallest as usize - 4];
                if incr >= limit || limit % incr != 0 {
                    let divs: Vec<i64> = (1..limit).filter(|d| limit % d == 0).collect();
                    incr = divs[(incr as usize) % divs.len()];
                }
            }
            // a quarter of the cases: `a` sits exactly (or, for months and years, plausibly) half
            // way between two multiples of increment x smallest unit, optionally one nanosecond
            // off: ties decide the half-* modes and are vanishingly rare otherwise
            if tie % 4 == 0 && incr > 0 && incr <= 1000 {
                let u = smallest as usize;
                for i in (u + 1)..10 {
                    a.u[i] = 0;
                }
                a.u[u] = a.u[u] / incr * incr;
                let k = (tie / 4) as i64;
                match u {
                    0 => {
                        // half a year: 6 months per year of increment, or half the days
                        if k % 2 == 0 {
                            a.u[1] = (incr * 6).min(SPAN_LIMITS[1]);
                        } else {
                            a.u[3] = [182, 183][(k / 2 % 2) as usize];
                            a.u[4] = [12, 0][(k / 2 % 2) as usize];
                        }
                    }
                    1 => {
                        a.u[3] = [14, 14, 15, 15][(k % 4) as usize];
                        a.u[4] = [0, 12, 0, 12][(k % 4) as usize];
                    }
                    2 => a.u[4] = (incr * 84).min(SPAN_LIMITS[4]),
                    3 => a.u[4] = (incr * 12).min(SPAN_LIMITS[4]),
                    4 => a.u[5] = incr * 30,
                    5 => a.u[6] = incr * 30,
                    6 => a.u[7] = incr * 500,
                    7 => a.u[8] = incr * 500,
                    8 => a.u[9] = incr * 500,
                    _ => {}
                }
                if u < 9 {
                    a.u[9] = [0, 0, 1, 0][(k / 4 % 4) as usize];
                    if k / 4 % 4 == 3 && a.u[8] == 0 && u < 8 {
                        // one nanosecond short of the tie
                        let j = ((u + 1).max(2)..9).rev().find(|&j| a.u[j] > 0);
                        if let Some(j) = j {
                            a.u[j] -= 1;
                            // borrow: one unit of j = UNIT in ns, minus 1 ns
                            let unit_ns: i128 = UNIT_NS[j];
                            let rest = unit_ns - 1;
                            a.u[6] += (rest / 1_000_000_000) as i64;
                            a.u[7] += (rest / 1_000_000 % 1000) as i64;
                            a.u[8] += (rest / 1000 % 1000) as i64;
                            a.u[9] += (rest % 1000) as i64;
                        }
                    }
                }
            }
            // b is often a near copy of a (equal or nearly equal end points)
            let b = match (tweak / 7) % 5 {
                0 => a.clone(),
                1 => {
                    // the same duration expressed in other fields: move one unit down
                    let mut b = a.clone();
                    if b.u[4] > 0 && b.u[5] + 60 <= SPAN_LIMITS[5] {
                        b.u[4] -= 1;
                        b.u[5] += 60;
                    } else if b.u[2] > 0 && b.u[3] + 7 <= SPAN_LIMITS[3] {
                        b.u[2] -= 1;
                        b.u[3] += 7;
                    } else if b.u[0] > 0 && b.u[1] + 12 <= SPAN_LIMITS[1] {
                        b.u[0] -= 1;
                        b.u[1] += 12;
                    }
                    b
                }
                _ => b,
            };
            Case { refk, d, t, probe, a, b, smallest, largest, incr, mode }
        })
        .boxed()
}

// --- compare with both end points inside one repeated hour ------------------------------------------

/// `r` is placed so that `r + days` lands in (or next to) the wall-clock window of a fold; one span
/// goes there by calendar days, the other by hours: the two end points can show the same or the
/// reversed wall-clock reading while their instants are ordered the other way round.
#[derive(Serialize, Deserialize, Debug, Clone)]
pub struct FoldCmp {
    zone_sel: u16,
    trans_sel: u16,
    days: u8,
    x_frac: u16,
    ma: u16,
    mb: u16,
    b_in_hours: bool,
    negative: bool,
}

fn strat_fold_cmp() -> BoxedStrategy<FoldCmp> {
    (any::<u16>(), any::<u16>(), 1u8..=3, any::<u16>(), 0u16..=150, 0u16..=150, any::<bool>(), prop::bool::weighted(0.2))
        .prop_map(|(zone_sel, trans_sel, days, x_frac, ma, mb, b_in_hours, negative)| FoldCmp { zone_sel, trans_sel, days, x_frac, ma, mb, b_in_hours, negative })
        .boxed()
}

fn test_fold_cmp(c: &FoldCmp, cx: &mut Cx) -> CaseResult {
    let zs = zone_universe();
    let z = zs[zones::pick(c.zone_sel, zs.len())].clone();
    if z.probes.is_empty() {
        cx.tolerate("zone-without-transitions");
        return Ok(());
    }
    let t = z.probes[zones::pick(c.trans_sel, z.probes.len())];
    let (ob, oa) = (z.rz.lookup(t - 1).off as i128, z.rz.lookup(t).off as i128);
    let len = ob - oa;
    if len <= 0 || len > 4 * 3600 {
        cx.tolerate("not-a-fold");
        return Ok(());
    }
    // wall clock of the fold window: [t + oa, t + ob); r's wall clock is that window (with half
    // an hour of margin on both sides) `days` civil days earlier (later for negative spans)
    let sgn: i128 = if c.negative { -1 } else { 1 };
    let x = -1800 + ((len + 3600) * c.x_frac as i128 >> 16);
    let r_local = (t as i128 + oa + x) * NS_PER_SEC - sgn * c.days as i128 * NS_PER_DAY;
    let Ok(r) = rz::compatible(&z.rz, r_local) else {
        cx.tolerate("reference-not-resolvable");
        return Ok(());
    };
    if !rz::in_ts_range(r) {
        cx.tolerate("reference-out-of-range");
        return Ok(());
    }
    let mut ua = [0i64; 10];
    ua[3] = c.days as i64;
    ua[5] = c.ma as i64;
    let mut ub = [0i64; 10];
    if c.b_in_hours {
        ub[4] = c.days as i64 * 24;
    } else {
        ub[3] = c.days as i64;
    }
    ub[5] = c.mb as i64;
    let (sa, sb) = (SpanSpec { neg: c.negative, u: ua }, SpanSpec { neg: c.negative, u: ub });
    let (fa, fb) = (spec_fields(&sa), spec_fields(&sb));
    let rf = Ref::Zoned(z.clone(), r);
    let (ea, eb) = match (rf.add(&parts(&fa)), rf.add(&parts(&fb))) {
        (Ok(p), Ok(q)) => (p, q),
        _ => {
            cx.class("compare: reference + span out of range or undecided (no verdict)");
            return Ok(());
        }
    };
    let (la, lb) = (rz::local_of(&z.rz, ea).0, rz::local_of(&z.rz, eb).0);
    let in_fold = |e: i128| (t as i128 - len) * NS_PER_SEC <= e && e < (t as i128 + len) * NS_PER_SEC;
    cx.class_if(in_fold(ea) && in_fold(eb), "both end points in the repeated hour");
    cx.class_if(ea.cmp(&eb) != la.cmp(&lb), "wall-clock order differs from instant order");
    cx.nt_if(in_fold(ea) || in_fold(eb));
    let zd = Timestamp::from_nanosecond(r).unwrap().to_zoned(z.tz.clone());
    let (a, b) = (sa.to_span(), sb.to_span());
    let what = format!("[{}] r = {zd}: {a:?}.compare({b:?})", z.label);
    let got = a.compare((b, &zd)).map_err(|e| Failure::new("compare-spurious-error:relative=zoned", format!("{what}: {e}")))?;
    let rev = b.compare((a, &zd)).map_err(|e| Failure::new("compare-spurious-error:relative=zoned", format!("{what} (reversed): {e}")))?;
    let want = ea.cmp(&eb);
    ensure!(got == want && rev == want.reverse(), "compare-differs:relative=zoned", "{what} = {got:?} (reversed: {rev:?}) but r + a is the instant {ea} and r + b the instant {eb} ({want:?})");
    Ok(())
}

pub fn property() -> Property {
    Property {
        id: "C11",
        level: "exploration",
        rule: "round: the span is negative, or a calendar unit is smallest or largest, or rounding changed the span, or the options must be refused; total: the count has a fractional part or the unit is a calendar unit; compare: the two spans differ; duration/add: calendar units involved or both operands non-zero",
        assumptions: &[
            "reference + span is computed by the harness's models (walked calendar, RFC 8536/POSIX zone reader, i128): months with day clamping, days on the wall clock with 'compatible' resolution, then exact time",
            "stated tolerance: for smallest >= day with a zoned reference (>= week with a civil one) jiff evaluates progress in f64; an end point strictly inside (|end - reference| + 4 unit windows) * 2^-50 of a decision point may go to either neighbour; exact boundaries and exact ties are judged strictly; half-even ties accept either neighbour",
            "total: relative error <= 2^-44 plus 1e-9 absolute; integer counts below 2^52 exactly",
            "errors are judged only when the options are invalid (must be Err) or nothing is anywhere near a limit (must be Ok)",
        ],
        checks: vec![
            Box::new(Prop { name: "c11.round", quick: 5_000_000, thorough: 150_000_000, strategy: strat_case, test: test_round }),
            Box::new(Prop { name: "c11.total", quick: 2_000_000, thorough: 60_000_000, strategy: strat_case, test: test_total }),
            Box::new(Prop { name: "c11.compare", quick: 2_000_000, thorough: 60_000_000, strategy: strat_case, test: test_compare }),
            Box::new(Prop { name: "c11.duration", quick: 1_000_000, thorough: 30_000_000, strategy: strat_case, test: test_duration }),
            Box::new(Prop { name: "c11.compare_fold", quick: 400_000, thorough: 10_000_000, strategy: strat_fold_cmp, test: test_fold_cmp }),
        ],
        floors: |rec| {
            rec.floor("c11.round:round: calendar unit is smallest or largest", "c11.round:cases", 0.25);
            rec.floor("c11.round:round: zoned reference or end within 2 days of a transition", "c11.round:cases", 0.10);
            rec.floor("c11.round:round: increment > 1", "c11.round:cases", 0.20);
            rec.floor("c11.round:round: uniform units, compared exactly", "c11.round:cases", 0.05);
            rec.floor("c11.round:round: end point exactly half way to a neighbouring multiple", "c11.round:cases", 0.01);
            rec.floor("c11.total:total: calendar unit (window by search)", "c11.total:cases", 0.10);
            rec.floor("c11.compare:compare: equal end points from different fields", "c11.compare:cases", 0.01);
            rec.floor("c11.compare_fold:wall-clock order differs from instant order", "c11.compare_fold:cases", 0.02);
            rec.floor("c11.compare_fold:both end points in the repeated hour", "c11.compare_fold:cases", 0.05);
        },
    }
}

/// `jv c11-show <replay.json>`: describe a saved case (debugging aid).
pub fn show(path: &str) {
    let v: serde_json::Value = serde_json::from_str(&std::fs::read_to_string(path).expect("read")).expect("json");
    let c: Case = serde_json::from_value(v["case"].clone()).expect("case");
    let rf = make_ref(&c);
    match &rf {
        Ref::Zoned(z, t) => {
            let zd = Timestamp::from_nanosecond(*t).unwrap().to_zoned(z.tz.clone());
            println!("reference: zoned {} = {zd} (t={t})", z.label);
        }
        Ref::Civil(c) => println!("reference: civil {c:?}"),
        _ => println!("reference: {}", refname(&rf)),
    }
    println!("a = {:?} = {:?}", c.a, c.a.to_span());
    println!("b = {:?}", c.b);
    println!("smallest={} largest={} incr={} mode={:?}", UNIT_NAMES[(c.smallest % 10) as usize], c.largest, c.incr, MODES[(c.mode % 9) as usize]);
    println!("reference + a = {:?}", rf.add(&parts(&spec_fields(&c.a))));
}
