//! Interpreter for "handle programs" over jiff::tz::TimeZone (C20), shared by
//! the proptest check and the libFuzzer/ASan target (`#[path]` include).
//! Depends only on jiff and std.

use jiff::civil::DateTime;
use jiff::tz::{Offset, TimeZone};
use jiff::Timestamp;

pub const POOL: usize = 8;

pub static TZIF_FILES: &[(&str, &[u8])] = &[
    ("Verif/NegDst", include_bytes!("../../corpus/tzif/slim/Verif/NegDst")),
    ("Verif/Q45", include_bytes!("../../corpus/tzif/fat/Verif/Q45")),
    ("Verif/Gone", include_bytes!("../../corpus/tzif/slim/Verif/Gone")),
    ("Verif/OddSec", include_bytes!("../../corpus/tzif/fat/Verif/OddSec")),
    ("Verif/NoDst", include_bytes!("../../corpus/tzif/slim/Verif/NoDst")),
];

pub static POSIX: &[&str] = &["EST5EDT,M3.2.0,M11.1.0", "IST-1GMT0,M10.5.0,M3.5.0/1", "<+0545>-5:45", "AEST-10AEDT,M10.1.0,M4.1.0/3"];

static STATIC_NY: TimeZone = jiff::tz::get!("America/New_York");
static STATIC_LONDON: TimeZone = jiff::tz::get!("Europe/London");
static STATIC_KOLKATA: TimeZone = jiff::tz::get!("Asia/Kolkata");

#[derive(Clone, Copy, Debug, PartialEq, Eq)]
pub enum Payload {
    Utc,
    Unknown,
    Fixed(i32),
    Posix(usize),
    Tzif(usize),
    Static(usize),
}

impl Payload {
    pub fn build(self) -> TimeZone {
        match self {
            Payload::Utc => TimeZone::UTC,
            Payload::Unknown => TimeZone::unknown(),
            Payload::Fixed(s) => TimeZone::fixed(Offset::from_seconds(s).unwrap()),
            Payload::Posix(i) => TimeZone::posix(POSIX[i]).unwrap(),
            Payload::Tzif(i) => TimeZone::tzif(TZIF_FILES[i].0, TZIF_FILES[i].1).unwrap(),
            Payload::Static(i) => [&STATIC_NY, &STATIC_LONDON, &STATIC_KOLKATA][i].clone(),
        }
    }
    pub fn heap_backed(self) -> bool {
        matches!(self, Payload::Posix(_) | Payload::Tzif(_))
    }
    /// model equality: fixed(0) is documented to be UTC
    pub fn normalized(self) -> Payload {
        match self {
            Payload::Fixed(0) => Payload::Utc,
            p => p,
        }
    }
}

#[derive(Clone, Debug)]
pub enum Op {
    New(usize, Payload),
    Clone(usize, usize),
    Drop(usize),
    /// move the handle into a Zoned and take it back out
    ThroughZoned(usize, i64),
    /// move the handle into an AmbiguousZoned and take it back out
    ThroughAmbiguous(usize, i64),
    Eq(usize, usize),
    Query(usize, i64, i32),
    Thread(usize, i64),
    Swap(usize, usize),
    /// `pool[dst].clone_from(&pool[src])`: 0 directly, 1 through `Option::clone_from`,
    /// 2 through `Vec::clone_from` (both forward to the element)
    CloneFrom(usize, usize, u8),
}

/// Decode a program from raw bytes (fuzz target): 4 bytes per op.
pub fn decode(data: &[u8]) -> Vec<Op> {
    let mut ops = vec![];
    for c in data.chunks_exact(4).take(64) {
        let a = (c[1] as usize) % POOL;
        let b = (c[2] as usize) % POOL;
        let v = i64::from_le_bytes([c[1], c[2], c[3], c[0], c[2], c[3], 0, 0]) % 253_402_207_200;
        let op = match c[0] % 16 {
            0 | 1 | 2 => {
                let p = match c[2] % 9 {
                    0 => Payload::Utc,
                    1 => Payload::Unknown,
                    2 | 3 => Payload::Fixed((i32::from(c[3]) * 367 + i32::from(c[2]) * 97) % 93600 * if c[3] % 2 == 0 { 1 } else { -1 }),
                    4 | 5 => Payload::Posix(c[3] as usize % POSIX.len()),
                    6 | 7 => Payload::Tzif(c[3] as usize % TZIF_FILES.len()),
                    _ => Payload::Static(c[3] as usize % 3),
                };
                Op::New(a, p)
            }
            3 | 4 => Op::Clone(a, b),
            5 => Op::CloneFrom(a, b, c[3] % 3),
            6 | 7 => Op::Drop(a),
            8 => Op::ThroughZoned(a, v),
            9 => Op::ThroughAmbiguous(a, v),
            10 => Op::Eq(a, b),
            11 | 12 | 13 => Op::Query(a, v, i32::from(c[3]) * 3_921_568),
            14 => Op::Thread(a, v),
            _ => Op::Swap(a, b),
        };
        ops.push(op);
    }
    ops
}

fn query(tz: &TimeZone, secs: i64, nanos: i32) -> (i32, bool, String, String, Option<i64>, Option<i64>) {
    let ts = Timestamp::new(secs.clamp(-377705023201, 253402207200), if secs <= -377705023201 { 0 } else { nanos % 1_000_000_000 }).unwrap_or(Timestamp::UNIX_EPOCH);
    let info = tz.to_offset_info(ts);
    let dt: DateTime = tz.to_datetime(ts);
    let amb = tz.to_ambiguous_timestamp(dt);
    let kind = format!("{:?}", amb.offset());
    (
        info.offset().seconds(),
        info.dst() == jiff::tz::Dst::Yes,
        info.abbreviation().to_string(),
        kind,
        tz.following(ts).next().map(|t| t.timestamp().as_second()),
        tz.preceding(ts).next().map(|t| t.timestamp().as_second()),
    )
}

/// Live heap blocks of the current thread, when a counting allocator is
/// installed (harness); None under the fuzzer.
pub type BlockCounter = Option<fn() -> isize>;

pub struct Stats {
    pub heap_clone_drop_checks: u32,
    pub queries: u32,
    pub nonlast_drops_followed_by_query: u32,
}

/// Run a program against the reference model. Returns Err(signature: message).
pub fn run(ops: &[Op], blocks: BlockCounter) -> Result<Stats, String> {
    let mut pool: Vec<Option<(TimeZone, Payload, u32)>> = (0..POOL).map(|_| None).collect();
    // group ids: handles created by clone share a group; used for the allocation model
    let mut next_group = 0u32;
    let mut stats = Stats { heap_clone_drop_checks: 0, queries: 0, nonlast_drops_followed_by_query: 0 };
    let mut pending_nonlast_drop = false;
    let count = |b: BlockCounter| b.map(|f| f());
    let base = count(blocks);
    let group_size = |pool: &Vec<Option<(TimeZone, Payload, u32)>>, g: u32| pool.iter().flatten().filter(|h| h.2 == g).count();
    for (step, op) in ops.iter().enumerate() {
        match *op {
            Op::New(i, p) => {
                // dropping whatever was in the slot first
                if let Some((old, op_, g)) = pool[i].take() {
                    let last = group_size(&pool, g) == 0;
                    let b0 = count(blocks);
                    drop(old);
                    if let (Some(b0), Some(b1)) = (b0, count(blocks)) {
                        if op_.heap_backed() && !last && b1 != b0 {
                            return Err(format!("alloc-model-nonlast-drop: step {step}: dropping a non-last handle of {op_:?} changed live heap blocks by {}", b1 - b0));
                        }
                        if op_.heap_backed() && last && b1 >= b0 {
                            return Err(format!("alloc-model-last-drop: step {step}: dropping the last handle of {op_:?} freed nothing ({} -> {})", b0, b1));
                        }
                    }
                }
                let b0 = count(blocks);
                let tz = p.build();
                if let (Some(b0), Some(b1)) = (b0, count(blocks)) {
                    if p.heap_backed() && b1 <= b0 {
                        return Err(format!("alloc-model-create: step {step}: creating {p:?} allocated no heap block"));
                    }
                    if !p.heap_backed() && b1 != b0 {
                        return Err(format!("alloc-model-create-inline: step {step}: creating {p:?} changed live heap blocks by {}", b1 - b0));
                    }
                }
                pool[i] = Some((tz, p, next_group));
                next_group += 1;
            }
            Op::Clone(src, dst) => {
                if src == dst {
                    continue;
                }
                let Some((tz, p, g)) = pool[src].as_ref().map(|h| (&h.0, h.1, h.2)) else { continue };
                let b0 = count(blocks);
                let c = tz.clone();
                if let (Some(b0), Some(b1)) = (b0, count(blocks)) {
                    if b1 != b0 {
                        return Err(format!("alloc-model-clone: step {step}: cloning a handle of {p:?} changed live heap blocks by {}", b1 - b0));
                    }
                    stats.heap_clone_drop_checks += 1;
                }
                if &c != tz || tz != &c {
                    return Err(format!("eq-clone: step {step}: a clone of {p:?} is not equal to its source"));
                }
                // the destination's old content is dropped by assignment
                let old = pool[dst].take();
                drop(old);
                pool[dst] = Some((c, p, g));
            }
            Op::Drop(i) => {
                if let Some((tz, p, g)) = pool[i].take() {
                    let last = group_size(&pool, g) == 0;
                    let b0 = count(blocks);
                    drop(tz);
                    if let (Some(b0), Some(b1)) = (b0, count(blocks)) {
                        if p.heap_backed() {
                            if !last && b1 != b0 {
                                return Err(format!("alloc-model-nonlast-drop: step {step}: dropping a non-last handle of {p:?} changed live heap blocks by {}", b1 - b0));
                            }
                            if last && b1 >= b0 {
                                return Err(format!("alloc-model-last-drop: step {step}: dropping the last handle of {p:?} freed nothing"));
                            }
                        } else if b1 != b0 {
                            return Err(format!("alloc-model-inline-drop: step {step}: dropping {p:?} changed live heap blocks by {}", b1 - b0));
                        }
                        stats.heap_clone_drop_checks += 1;
                    }
                    if !last && p.heap_backed() {
                        pending_nonlast_drop = true;
                    }
                }
            }
            Op::ThroughZoned(i, secs) => {
                if let Some((tz, p, g)) = pool[i].take() {
                    let ts = Timestamp::from_second(secs.clamp(-377705023201, 253402207200)).unwrap();
                    let z = ts.to_zoned(tz);
                    let back = z.time_zone().clone();
                    let z2 = z.clone();
                    drop(z);
                    if z2.time_zone() != &back {
                        return Err(format!("eq-through-zoned: step {step}: {p:?}"));
                    }
                    drop(z2);
                    pool[i] = Some((back, p, g));
                }
            }
            Op::ThroughAmbiguous(i, secs) => {
                if let Some((tz, p, g)) = pool[i].take() {
                    let ts = Timestamp::from_second(secs.clamp(-377705023201, 253402207200)).unwrap();
                    let dt = tz.to_datetime(ts);
                    let az = tz.into_ambiguous_zoned(dt);
                    let _ = az.clone().compatible();
                    let back = az.into_time_zone();
                    pool[i] = Some((back, p, g));
                }
            }
            Op::Eq(i, j) => {
                if let (Some(a), Some(b)) = (pool[i].as_ref(), pool[j].as_ref()) {
                    let (ab, ba) = (a.0 == b.0, b.0 == a.0);
                    if ab != ba {
                        return Err(format!("eq-not-symmetric: step {step}: {:?} vs {:?}", a.1, b.1));
                    }
                    if a.0 != a.0 {
                        return Err(format!("eq-not-reflexive: step {step}: {:?}", a.1));
                    }
                    let want = a.1.normalized() == b.1.normalized();
                    // static and bytes-built zones of different data must differ; same payload must be equal
                    if want && !ab {
                        return Err(format!("eq-same-payload-unequal: step {step}: two handles of {:?} compare unequal", a.1));
                    }
                    if !want && ab {
                        return Err(format!("eq-different-payload-equal: step {step}: {:?} == {:?}", a.1, b.1));
                    }
                }
            }
            Op::Query(i, secs, nanos) => {
                if let Some((tz, p, _)) = pool[i].as_ref() {
                    let got = query(tz, secs, nanos);
                    let fresh = p.build();
                    let want = query(&fresh, secs, nanos);
                    if got != want {
                        return Err(format!("query-differs-from-fresh: step {step}: handle of {p:?} answers {got:?}, a freshly built zone answers {want:?}"));
                    }
                    if let Payload::Fixed(s) = *p {
                        if got.0 != s || tz.to_fixed_offset().map(|o| o.seconds()).ok() != Some(s) {
                            return Err(format!("fixed-offset-not-reproduced: step {step}: fixed({s}) reports {} / {:?}", got.0, tz.to_fixed_offset()));
                        }
                    }
                    stats.queries += 1;
                    if pending_nonlast_drop {
                        stats.nonlast_drops_followed_by_query += 1;
                        pending_nonlast_drop = false;
                    }
                }
            }
            Op::Thread(i, secs) => {
                // the allocation model is single-threaded: thread bookkeeping
                // would disturb the per-thread block counter
                if blocks.is_some() {
                    continue;
                }
                if let Some((tz, p, _)) = pool[i].as_ref() {
                    let c = tz.clone();
                    let p = *p;
                    let h = std::thread::spawn(move || {
                        let r = query(&c, secs, 0);
                        let c2 = c.clone();
                        drop(c);
                        let r2 = query(&c2, secs, 0);
                        (r, r2)
                    });
                    let (r, r2) = h.join().map_err(|_| format!("thread-panicked: step {step}"))?;
                    let want = query(tz, secs, 0);
                    if r != want || r2 != want {
                        return Err(format!("query-differs-on-thread: step {step}: {p:?}"));
                    }
                }
            }
            Op::Swap(i, j) => {
                pool.swap(i, j);
            }
            Op::CloneFrom(src, dst, via) => {
                if src == dst {
                    continue;
                }
                let Some((p, g)) = pool[src].as_ref().map(|h| (h.1, h.2)) else { continue };
                let Some((mut d, dp, dg)) = pool[dst].take() else { continue };
                let dst_was_last = group_size(&pool, dg) == 0 && dg != g;
                let b0 = count(blocks);
                {
                    let s = &pool[src].as_ref().unwrap().0;
                    match via {
                        0 => d.clone_from(s),
                        1 => {
                            let mut od = Some(d);
                            od.clone_from(&Some(s.clone()));
                            d = od.unwrap();
                        }
                        _ => {
                            let mut vd = vec![d];
                            vd.clone_from(&vec![s.clone()]);
                            d = vd.pop().unwrap();
                        }
                    }
                    if &d != s || s != &d {
                        return Err(format!("eq-clone: step {step}: after clone_from a handle of {p:?} is not equal to its source"));
                    }
                }
                if let (Some(b0), Some(b1)) = (b0, count(blocks)) {
                    // the only heap effect allowed: the destination's old zone is freed if this
                    // was its last handle
                    if !(dp.heap_backed() && dst_was_last) && b1 != b0 {
                        return Err(format!("alloc-model-clone: step {step}: clone_from({p:?}) into a handle of {dp:?} (not its last) changed live heap blocks by {}", b1 - b0));
                    }
                    if dp.heap_backed() && dst_was_last && b1 >= b0 {
                        return Err(format!("alloc-model-last-drop: step {step}: clone_from over the last handle of {dp:?} freed nothing"));
                    }
                    stats.heap_clone_drop_checks += 1;
                }
                pool[dst] = Some((d, p, g));
            }
        }
    }
    // end of program: everything dropped => live blocks back to the baseline
    pool.clear();
    if let (Some(b0), Some(b1)) = (base, count(blocks)) {
        if b1 != b0 {
            return Err(format!("alloc-model-leak: live heap blocks at the end of the program differ from the start by {}", b1 - b0));
        }
    }
    Ok(stats)
}
