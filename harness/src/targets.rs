//! Parser targets for C17, shared verbatim by the proptest mutation engine
//! (harness) and the libFuzzer targets (/verif/fuzz, via `#[path]`).
//!
//! Every target takes raw bytes and returns `Err(signature: description)`
//! when an oracle clause fails. Panics are *not* caught here: the caller
//! (catch_unwind in the harness, libFuzzer's crash handling in the fuzz
//! crate) turns them into failures. This file depends only on `jiff` and std.

use jiff::civil::{Date, DateTime, Time};
use jiff::fmt::{friendly, rfc2822, strtime, temporal};
use jiff::tz::TimeZone;
use jiff::{SignedDuration, Span, Timestamp, Zoned};

pub type R = Result<(), String>;

thread_local! {
    /// number of sub-parsers that accepted the current input (for the
    /// non-triviality classification of the mutation engine)
    pub static ACCEPTED: std::cell::Cell<u32> = const { std::cell::Cell::new(0) };
}
fn accept() {
    ACCEPTED.with(|a| a.set(a.get() + 1));
}

macro_rules! bail {
    ($sig:expr, $($arg:tt)*) => { return Err(format!("{}: {}", $sig, format!($($arg)*))) };
}

const TS_MIN_NS: i128 = -377705023201 * 1_000_000_000;
const TS_MAX_NS: i128 = 253402207200 * 1_000_000_000 + 999_999_999;
const SPAN_LIMITS: [i64; 10] = [19_998, 239_976, 1_043_497, 7_304_484, 175_307_616, 10_518_456_960, 631_107_417_600, 631_107_417_600_000, 631_107_417_600_000_000, i64::MAX];

fn ts_ok(what: &str, ts: Timestamp) -> R {
    let ns = ts.as_nanosecond();
    if !(TS_MIN_NS..=TS_MAX_NS).contains(&ns) {
        bail!(format!("{what}-out-of-range"), "timestamp {ns}ns outside the supported range");
    }
    let (s, n) = (ts.as_second(), ts.subsec_nanosecond());
    if s as i128 * 1_000_000_000 + n as i128 != ns || (s > 0 && n < 0) || (s < 0 && n > 0) {
        bail!(format!("{what}-incoherent"), "second {s} / nanosecond {n} disagree with {ns}");
    }
    Ok(())
}

fn span_units(s: &Span) -> [i64; 10] {
    [s.get_years() as i64, s.get_months() as i64, s.get_weeks() as i64, s.get_days() as i64, s.get_hours() as i64, s.get_minutes(), s.get_seconds(), s.get_milliseconds(), s.get_microseconds(), s.get_nanoseconds()]
}

fn span_ok(what: &str, s: &Span) -> R {
    let u = span_units(s);
    let mut sign = 0i64;
    for i in 0..10 {
        if u[i].unsigned_abs() > SPAN_LIMITS[i] as u64 {
            bail!(format!("{what}-unit-over-limit"), "unit {i} = {} exceeds its limit", u[i]);
        }
        if u[i] != 0 {
            if sign != 0 && sign != u[i].signum() {
                bail!(format!("{what}-mixed-signs"), "{u:?}");
            }
            sign = u[i].signum();
        }
    }
    // print -> parse
    let text = s.to_string();
    match text.parse::<Span>() {
        Ok(p) => {
            let (a, b) = (span_units(s), span_units(&p));
            let sub = |x: &[i64; 10]| x[6] as i128 * 1_000_000_000 + x[7] as i128 * 1_000_000 + x[8] as i128 * 1000 + x[9] as i128;
            if a[..6] != b[..6] || sub(&a) != sub(&b) {
                bail!(format!("{what}-reprint-differs"), "{s:?} -> {text:?} -> {p:?}");
            }
        }
        Err(e) => bail!(format!("{what}-reprint-unparseable"), "{s:?} -> {text:?}: {e}"),
    }
    Ok(())
}

/// Temporal (RFC 3339 / 9557 / ISO 8601) datetime parsers.
pub fn temporal_datetime(data: &[u8]) -> R {
    let p = temporal::DateTimeParser::new();
    if let Ok(ts) = p.parse_timestamp(data) {
        accept();
        ts_ok("temporal-timestamp", ts)?;
        let back: Result<Timestamp, _> = ts.to_string().parse();
        if back.as_ref().ok() != Some(&ts) {
            bail!("temporal-timestamp-reprint", "{ts:?} -> {:?}", back);
        }
    }
    if let Ok(z) = p.parse_zoned(data) {
        accept();
        ts_ok("temporal-zoned", z.timestamp())?;
        if z.time_zone().to_offset(z.timestamp()) != z.offset() || z.offset().to_datetime(z.timestamp()) != z.datetime() {
            bail!("temporal-zoned-inconsistent", "{z:?}");
        }
        // print -> parse (only when the zone can be named in the text)
        if z.time_zone().iana_name().is_some() || z.offset().seconds() % 60 == 0 {
            let text = z.to_string();
            match text.parse::<Zoned>() {
                Ok(b) => {
                    // a fold whose offsets agree to the minute cannot be told apart in text
                    if b.datetime() != z.datetime() {
                        bail!("temporal-zoned-reprint", "{z} -> {text:?} -> {b}");
                    }
                }
                Err(e) => bail!("temporal-zoned-reprint-unparseable", "{text:?}: {e}"),
            }
        }
    }
    if let Ok(d) = p.parse_date(data) {
        accept();
        if d.to_string().parse::<Date>().ok() != Some(d) {
            bail!("temporal-date-reprint", "{d:?}");
        }
    }
    if let Ok(t) = p.parse_time(data) {
        accept();
        if t.to_string().parse::<Time>().ok() != Some(t) {
            bail!("temporal-time-reprint", "{t:?}");
        }
    }
    if let Ok(dt) = p.parse_datetime(data) {
        accept();
        if dt.to_string().parse::<DateTime>().ok() != Some(dt) {
            bail!("temporal-datetime-reprint", "{dt:?}");
        }
    }
    if let Ok(pieces) = p.parse_pieces(data) {
        accept();
        let _ = pieces.date();
        let _ = pieces.time();
        if let Some(o) = pieces.to_numeric_offset() {
            if o.seconds().abs() > 93599 {
                bail!("pieces-offset-out-of-range", "{o:?}");
            }
        }
        let _ = pieces.to_time_zone();
        let text = pieces.to_string();
        if temporal::DateTimeParser::new().parse_pieces(&text).is_err() {
            bail!("pieces-reprint-unparseable", "{text:?}");
        }
    }
    let _ = p.parse_time_zone(data);
    Ok(())
}

/// ISO 8601 and friendly duration parsers.
pub fn durations(data: &[u8]) -> R {
    if let Ok(s) = temporal::SpanParser::new().parse_span(data) {
        accept();
        span_ok("iso-span", &s)?;
    }
    if let Ok(d) = temporal::SpanParser::new().parse_duration(data) {
        accept();
        if d.to_string().parse::<SignedDuration>().ok() != Some(d) {
            bail!("iso-duration-reprint", "{d:?}");
        }
    }
    if let Ok(s) = friendly::SpanParser::new().parse_span(data) {
        accept();
        span_ok("friendly-span", &s)?;
        let text = format!("{s:#}");
        match friendly::SpanParser::new().parse_span(&text) {
            Ok(p) if span_units(&p) == span_units(&s) => {}
            other => bail!("friendly-span-reprint", "{s:?} -> {text:?} -> {other:?}"),
        }
    }
    if let Ok(d) = friendly::SpanParser::new().parse_duration(data) {
        accept();
        // (durations with i64::MIN seconds do not re-parse from the friendly form: listed C15 finding)
        if d.as_secs() != i64::MIN {
            let text = format!("{d:#}");
            if friendly::SpanParser::new().parse_duration(&text).ok() != Some(d) {
                bail!("friendly-duration-reprint", "{d:?} -> {text:?}");
            }
        }
    }
    if let Ok(text) = std::str::from_utf8(data) {
        accept();
        if let Ok(s) = text.parse::<Span>() {
            span_ok("fromstr-span", &s)?;
        }
        let _ = text.parse::<SignedDuration>();
    }
    Ok(())
}

pub fn rfc2822_target(data: &[u8]) -> R {
    let p = rfc2822::DateTimeParser::new();
    if let Ok(z) = p.parse_zoned(data) {
        accept();
        ts_ok("rfc2822-zoned", z.timestamp())?;
        if z.offset().to_datetime(z.timestamp()) != z.datetime() {
            bail!("rfc2822-zoned-inconsistent", "{z:?}");
        }
        if (0..=9999).contains(&z.year()) {
            match rfc2822::to_string(&z) {
                // a value that came out of this parser has whole seconds and a whole-minute
                // offset: printing and re-parsing must give it back exactly
                Ok(text) => match rfc2822::parse(&text) {
                    Ok(b) if b.timestamp() == z.timestamp() && b.offset() == z.offset() && b.datetime() == z.datetime() => {}
                    other => bail!("rfc2822-reprint", "{z} -> {text:?} -> {other:?}"),
                },
                Err(e) => bail!("rfc2822-print-err", "{z}: {e}"),
            }
        }
    }
    if let Ok(ts) = p.parse_timestamp(data) {
        accept();
        ts_ok("rfc2822-timestamp", ts)?;
        // both printers of a timestamp (RFC 2822 and the RFC 9110 / HTTP form) give text that
        // parses back to the same instant; they fail only for years outside 0..=9999
        let utc_year = jiff::tz::Offset::UTC.to_datetime(ts).year();
        let pr = rfc2822::DateTimePrinter::new();
        for (what, printed) in [("rfc2822-timestamp-reprint", pr.timestamp_to_string(&ts)), ("rfc9110-timestamp-reprint", pr.timestamp_to_rfc9110_string(&ts))] {
            match printed {
                Ok(text) => match p.parse_timestamp(&text) {
                    Ok(b) if b == ts => {}
                    other => bail!(what, "{ts} -> {text:?} -> {other:?}"),
                },
                Err(e) => {
                    if (0..=9999).contains(&utc_year) {
                        bail!(what, "{ts}: printing failed although the UTC year {utc_year} is representable: {e}");
                    }
                }
            }
        }
    }
    Ok(())
}

/// strptime/strftime with fuzz-controlled format and input: the data is
/// split at the first 0xFF (or NUL) byte into (format, input).
pub fn strtime_target(data: &[u8]) -> R {
    let split = data.iter().position(|&b| b == 0xFF || b == 0).unwrap_or(data.len());
    let (fmt, input) = (&data[..split], data.get(split + 1..).unwrap_or(&[]));
    // the prefix parser: Ok or Err, and what it says it consumed is a prefix of the input
    if let Ok((_, used)) = strtime::BrokenDownTime::parse_prefix(fmt, input) {
        accept();
        if used > input.len() {
            bail!("strptime-prefix-length", "parse_prefix({:?}, {:?}) consumed {used} of {} bytes", String::from_utf8_lossy(fmt), String::from_utf8_lossy(input), input.len());
        }
    }
    // ... and when the whole input parses, the prefix parser consumes all of it
    if strtime::parse(fmt, input).is_ok() {
        match strtime::BrokenDownTime::parse_prefix(fmt, input) {
            Ok((_, used)) if used == input.len() => {}
            other => bail!("strptime-prefix-disagrees", "parse({:?}, {:?}) succeeds but parse_prefix gives {:?}", String::from_utf8_lossy(fmt), String::from_utf8_lossy(input), other.map(|x| x.1).map_err(|e| e.to_string())),
        }
    }
    if let Ok(tm) = strtime::parse(fmt, input) {
        accept();
        if let Ok(ts) = tm.to_timestamp() {
            accept();
            ts_ok("strptime-timestamp", ts)?;
        }
        if let Ok(z) = tm.to_zoned() {
            accept();
            ts_ok("strptime-zoned", z.timestamp())?;
            if z.time_zone().to_offset(z.timestamp()) != z.offset() {
                bail!("strptime-zoned-inconsistent", "{z:?}");
            }
        }
        let _ = tm.to_datetime();
        let _ = tm.to_date();
        let _ = tm.to_time();
        // formatting what was parsed with the same format must not panic
        let _ = tm.to_string(fmt);
    }
    // strftime with an arbitrary format on fixed values
    let z = Timestamp::from_second(1_720_084_029).unwrap().to_zoned(TimeZone::fixed(jiff::tz::offset(-4)));
    let _ = strtime::format(fmt, &z);
    let _ = strtime::format(fmt, z.datetime());
    let _ = strtime::format(fmt, Timestamp::MIN);
    let _ = strtime::format(fmt, jiff::civil::DateTime::MAX);
    Ok(())
}

/// Deterministic battery of lookups on a freshly built time zone.
pub fn tz_battery(what: &str, tz: &TimeZone, seeds: &[i64]) -> R {
    let mut instants: Vec<Timestamp> = vec![Timestamp::MIN, Timestamp::MAX, Timestamp::UNIX_EPOCH];
    for &s in seeds {
        if let Ok(t) = Timestamp::new(s.clamp(-377705023201, 253402207200), (s % 1_000_000_000) as i32) {
            accept();
            instants.push(t);
        }
    }
    // the zone's own transitions: a bounded walk in both directions. For
    // arbitrary accepted data only "no panic, bounded work" is required
    // (ordering of the transitions of well-formed zones is C14's business).
    for tr in tz.following(Timestamp::MIN).take(400) {
        instants.push(tr.timestamp());
    }
    for tr in tz.preceding(Timestamp::MAX).take(400) {
        instants.push(tr.timestamp());
    }
    for ts in instants {
        for d in [-1i64, 0, 1] {
            let Ok(t) = ts.checked_add(SignedDuration::new(d, if d == 0 { 0 } else { 500_000_000 * d as i32 })) else { continue };
            let info = tz.to_offset_info(t);
            let off = info.offset();
            if off.seconds().abs() > 93599 {
                bail!(format!("{what}-offset-out-of-range"), "{off:?} at {t}");
            }
            let _ = info.abbreviation().len();
            if tz.to_offset(t) != off {
                bail!(format!("{what}-to-offset-mismatch"), "at {t}");
            }
            let dt = tz.to_datetime(t);
            let amb = tz.to_ambiguous_timestamp(dt);
            let _ = amb.clone().compatible();
            let _ = amb.clone().earlier();
            let _ = amb.clone().later();
            let _ = amb.unambiguous();
            let z = t.to_zoned(tz.clone());
            if z.offset() != off {
                bail!(format!("{what}-zoned-offset"), "at {t}");
            }
            let _ = z.to_string();
            let _ = tz.following(t).next();
            let _ = tz.preceding(t).next();
        }
    }
    let _ = tz.to_ambiguous_timestamp(DateTime::MIN).compatible();
    let _ = tz.to_ambiguous_timestamp(DateTime::MAX).compatible();
    Ok(())
}

fn seeds_from(data: &[u8]) -> Vec<i64> {
    // 16 pseudo-random instants derived from the input (FNV-1a stream)
    let mut h: u64 = 0xcbf29ce484222325;
    for &b in data.iter().take(4096) {
        h ^= b as u64;
        h = h.wrapping_mul(0x100000001b3);
    }
    let mut v = vec![];
    for i in 0..16u64 {
        h ^= i;
        h = h.wrapping_mul(0x100000001b3);
        let r = (h >> 1) as i64;
        v.push(r % 631_107_230_401 - 377_705_023_201);
    }
    v
}

pub fn posix_tz(data: &[u8]) -> R {
    let Ok(text) = std::str::from_utf8(data) else {
        return Ok(());
    };
    if let Ok(tz) = TimeZone::posix(text) {
        accept();
        tz_battery("posix", &tz, &seeds_from(data))?;
        // an accepted POSIX time zone prints to text that parses back to an equal zone with
        // the same answers
        let printed = match temporal::DateTimePrinter::new().time_zone_to_string(&tz) {
            Ok(p) => p,
            Err(e) => bail!("posix-unprintable", "{text:?} is accepted but cannot be printed: {e}"),
        };
        let again = [("TimeZone::posix", TimeZone::posix(&printed)), ("parse_time_zone", temporal::DateTimeParser::new().parse_time_zone(&printed))];
        for (what, back) in again {
            let back = match back {
                Ok(b) => b,
                Err(e) => bail!("posix-reprint-unparseable", "{text:?} prints as {printed:?}, which {what} rejects: {e}"),
            };
            if back != tz {
                bail!("posix-reprint-not-equal", "{text:?} prints as {printed:?}, which {what} parses to a different zone");
            }
            for s in seeds_from(data) {
                if let Ok(ts) = jiff::Timestamp::from_second(s) {
                    let (x, y) = (tz.to_offset_info(ts), back.to_offset_info(ts));
                    if x.offset() != y.offset() || x.dst() != y.dst() || x.abbreviation() != y.abbreviation() {
                        bail!("posix-reprint-differs", "{text:?} -> {printed:?} ({what}): at {ts} the original says {:?} and the re-parsed zone {:?}", x, y);
                    }
                }
            }
        }
    }
    Ok(())
}

pub fn tzif(data: &[u8]) -> R {
    if let Ok(tz) = TimeZone::tzif("Fuzz/Zone", data) {
        accept();
        tz_battery("tzif", &tz, &seeds_from(data))?;
        let tz2 = tz.clone();
        if tz2 != tz {
            bail!("tzif-clone-not-equal", "");
        }
    }
    Ok(())
}

pub const TARGETS: &[(&str, fn(&[u8]) -> R)] = &[
    ("temporal_datetime", temporal_datetime),
    ("durations", durations),
    ("rfc2822", rfc2822_target),
    ("strtime", strtime_target),
    ("posix_tz", posix_tz),
    ("tzif", tzif),
];
