//! `jv`: property-based testing / fuzzing harness deciding the jiff
//! properties C01..C20. See /verif/DESIGN.md.

pub mod engine;
pub mod gen;
pub mod props;
pub mod refmodel;
pub mod scratch;
pub mod zones;

use engine::{Opts, Tier};

fn usage() -> ! {
    eprintln!(
        "usage: jv run <ID> [--tier quick|thorough] [--seed N] [--only substr]\n       jv replay <file> [--strict]\n       jv list\n       jv selftest"
    );
    std::process::exit(2)
}

fn main() {
    engine::install_panic_hook();
    let args: Vec<String> = std::env::args().skip(1).collect();
    if args.is_empty() {
        usage();
    }
    let mut tier = match std::env::var("VERIF_TIER").ok().as_deref() {
        Some("thorough") => Tier::Thorough,
        _ => Tier::Quick,
    };
    let mut seed: u64 = std::env::var("VERIF_SEED")
        .ok()
        .and_then(|s| s.trim().parse::<i128>().ok())
        .map(|v| v as u64)
        .unwrap_or(0);
    let mut only: Option<String> = None;
    let mut strict = false;
    let mut threads: usize = std::env::var("VERIF_THREADS")
        .ok()
        .and_then(|s| s.parse().ok())
        .unwrap_or_else(|| {
            std::thread::available_parallelism().map(|n| n.get()).unwrap_or(8)
        });
    let mut pos = vec![];
    let mut i = 0;
    while i < args.len() {
        match args[i].as_str() {
            "--tier" => {
                i += 1;
                tier = match args.get(i).map(|s| s.as_str()) {
                    Some("quick") => Tier::Quick,
                    Some("thorough") => Tier::Thorough,
                    _ => usage(),
                };
            }
            "--seed" => {
                i += 1;
                seed = args.get(i).and_then(|s| s.parse().ok()).unwrap_or_else(|| usage());
            }
            "--only" => {
                i += 1;
                only = args.get(i).cloned();
            }
            "--threads" => {
                i += 1;
                threads = args.get(i).and_then(|s| s.parse().ok()).unwrap_or_else(|| usage());
            }
            "--strict" => strict = true,
            a => pos.push(a.to_string()),
        }
        i += 1;
    }
    refmodel::refcal::selftest();
    let props = props::all();
    match pos.first().map(|s| s.as_str()) {
        Some("list") => {
            for p in &props {
                println!("{}", p.id);
                for c in &p.checks {
                    println!("  {}", c.name());
                }
            }
        }
        Some("scratch") => scratch::run(),
        Some("selftest") => {
            println!("refcal ok");
        }
        Some("run") => {
            let id = pos.get(1).unwrap_or_else(|| usage());
            let Some(p) = props.iter().find(|p| p.id.eq_ignore_ascii_case(id)) else {
                eprintln!("unknown property {id}");
                std::process::exit(2);
            };
            let code = engine::run_property(
                p,
                Opts { tier, seed, threads },
                only.as_deref(),
            );
            std::process::exit(code);
        }
        Some("replay") => {
            let f = pos.get(1).unwrap_or_else(|| usage());
            std::process::exit(engine::replay_file(&props, &f.into(), strict));
        }
        _ => usage(),
    }
}
