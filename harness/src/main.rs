//! `jv`: property-based testing / fuzzing harness deciding the jiff
//! properties C01..C20. See /verif/DESIGN.md.

pub mod engine;
pub mod gen;
pub mod handles;
pub mod props;
pub mod refmodel;
pub mod relbuild;
pub mod scratch;
pub mod targets;
pub mod tzfiles;
pub mod zones;

use engine::{Opts, Tier};

fn usage() -> ! {
    eprintln!(
        "usage: jv run <ID> [--tier quick|thorough] [--seed N] [--only substr]\n       jv replay <file> [--strict]\n       jv list\n       jv selftest"
    );
    std::process::exit(2)
}

fn main() {
    engine::install_panic_hook();
    let args: Vec<String> = std::env::args().skip(1).collect();
    if args.is_empty() {
        usage();
    }
    let mut tier = match std::env::var("VERIF_TIER").ok().as_deref() {
        Some("thorough") => Tier::Thorough,
        _ => Tier::Quick,
    };
    let mut seed: u64 = std::env::var("VERIF_SEED")
        .ok()
        .and_then(|s| s.trim().parse::<i128>().ok())
        .map(|v| v as u64)
        .unwrap_or(0);
    let mut only: Option<String> = None;
    let mut strict = false;
    let mut threads: usize = std::env::var("VERIF_THREADS")
        .ok()
        .and_then(|s| s.parse().ok())
        .unwrap_or_else(|| {
            std::thread::available_parallelism().map(|n| n.get()).unwrap_or(8)
        });
    let mut pos = vec![];
    let mut i = 0;
    while i < args.len() {
        match args[i].as_str() {
            "--tier" => {
                i += 1;
                tier = match args.get(i).map(|s| s.as_str()) {
                    Some("quick") => Tier::Quick,
                    Some("thorough") => Tier::Thorough,
                    _ => usage(),
                };
            }
            "--seed" => {
                i += 1;
                seed = args.get(i).and_then(|s| s.parse().ok()).unwrap_or_else(|| usage());
            }
            "--only" => {
                i += 1;
                only = args.get(i).cloned();
            }
            "--threads" => {
                i += 1;
                threads = args.get(i).and_then(|s| s.parse().ok()).unwrap_or_else(|| usage());
            }
            "--strict" => strict = true,
            a => pos.push(a.to_string()),
        }
        i += 1;
    }
    refmodel::refcal::selftest();
    let props = props::all();
    match pos.first().map(|s| s.as_str()) {
        Some("list") => {
            for p in &props {
                println!("{}", p.id);
                for c in &p.checks {
                    println!("  {}", c.name());
                }
            }
        }
        Some("scratch") => scratch::run(),
        Some("c18-dump") => {
            // jv c18-dump bundled:<name> : every probe answer of one bundled zone (to diff two builds)
            let label = pos.get(1).unwrap_or_else(|| usage());
            let name = label.trim_start_matches("bundled:");
            if let Some((_, b)) = jiff_tzdb::get(name) {
                let rz = refmodel::reftz::parse_tzif(b).unwrap();
                let tz = jiff::tz::TimeZone::tzif("Verif/Anon", b).unwrap();
                let mut v: Vec<i128> = vec![refmodel::wide::TS_MIN_NS, refmodel::wide::TS_MAX_NS, 0, -1];
                for t in zones::make_probes(&rz, 2045) {
                    for d in [-1_000_000_000i128, -1, 0, 500_000_000] {
                        v.push((t as i128 * 1_000_000_000 + d).clamp(refmodel::wide::TS_MIN_NS, refmodel::wide::TS_MAX_NS));
                    }
                }
                for p in v {
                    println!("{p}\t{}", props::c18::answer(&tz, p));
                }
            }
        }
        Some("c05-serve") => std::process::exit(props::c05::serve()),
        Some("c05-rows") => props::c05::print_rows(),
        Some("const-serve") => std::process::exit(relbuild::serve()),
        Some("c11-show") => props::c11::show(pos.get(1).unwrap_or_else(|| usage())),
        Some("c18-digest") => {
            for l in props::c18::digest_lines() {
                println!("{l}");
            }
        }
        Some("fuzz-replay") => {
            // jv fuzz-replay <target> <file> <property>: re-execute a saved libFuzzer input through
            // the same oracle in the plain harness (debug assertions on)
            let target = pos.get(1).unwrap_or_else(|| usage());
            let file = pos.get(2).unwrap_or_else(|| usage());
            let prop = pos.get(3).map(|s| s.as_str()).unwrap_or("C17");
            let data = std::fs::read(file).unwrap_or_else(|e| {
                eprintln!("cannot read {file}: {e}");
                std::process::exit(2)
            });
            let f = if target == "tz_handles" {
                props::c20::fuzz_entry as fn(&[u8]) -> Result<(), String>
            } else {
                match targets::TARGETS.iter().find(|t| t.0 == target) {
                    Some(t) => t.1,
                    None => {
                        eprintln!("unknown fuzz target {target}");
                        std::process::exit(2)
                    }
                }
            };
            let r = engine::guard("fuzz-replay", || f(&data));
            match r {
                Ok(Ok(())) => {
                    println!("REPLAY-PASS property={prop} target={target}");
                }
                Ok(Err(e)) => {
                    println!("VIOLATION property={prop} replay={file}");
                    println!("  {e}");
                    std::process::exit(1);
                }
                Err(fl) => {
                    println!("VIOLATION property={prop} replay={file}");
                    println!("  {}", fl.msg);
                    std::process::exit(1);
                }
            }
        }
        Some("selftest") => {
            println!("refcal ok");
        }
        Some("run") => {
            let id = pos.get(1).unwrap_or_else(|| usage());
            let Some(p) = props.iter().find(|p| p.id.eq_ignore_ascii_case(id)) else {
                eprintln!("unknown property {id}");
                std::process::exit(2);
            };
            let code = engine::run_property(
                p,
                Opts { tier, seed, threads },
                only.as_deref(),
            );
            std::process::exit(code);
        }
        Some("replay") => {
            let f = pos.get(1).unwrap_or_else(|| usage());
            std::process::exit(engine::replay_file(&props, &f.into(), strict));
        }
        _ => usage(),
    }
}

// --- counting allocator (per-thread current/peak heap bytes) -----------------
// Used by C17 (heap use proportional to input size) and C20 (allocation model).
pub mod heap {
    use std::alloc::{GlobalAlloc, Layout, System};
    use std::cell::Cell;

    thread_local! {
        static CUR: Cell<isize> = const { Cell::new(0) };
        static PEAK: Cell<isize> = const { Cell::new(0) };
        static BLOCKS: Cell<isize> = const { Cell::new(0) };
    }

    pub struct Counting;

    thread_local! {
        /// While set, blocks with alignment <= 8 are handed out at an address that is 8 mod 16
        /// (a legal placement that glibc's malloc never produces on x86-64, but 32-bit and some
        /// embedded allocators do). Used by C20 to expose alignment assumptions in tagged
        /// pointers.
        static SHIFT: Cell<bool> = const { Cell::new(false) };
    }

    /// Blocks with alignment <= 16 carry a 16-byte header so that the payload can be placed at
    /// base+16 (16-aligned, the usual case) or base+8 (8 mod 16). Which one a block uses is
    /// read back from its address on free.
    const HDR: usize = 16;

    #[inline]
    fn outer(l: Layout) -> Layout {
        // (size + 16 cannot overflow for any layout jiff or the harness requests; a failure here
        // would be a harness bug and aborts like any allocation failure)
        Layout::from_size_align(l.size() + HDR, HDR).expect("layout")
    }

    #[inline]
    fn count_alloc(size: usize) {
        let _ = CUR.try_with(|c| {
            c.set(c.get() + size as isize);
            let _ = PEAK.try_with(|p| {
                if c.get() > p.get() {
                    p.set(c.get())
                }
            });
        });
        let _ = BLOCKS.try_with(|b| b.set(b.get() + 1));
    }

    unsafe impl GlobalAlloc for Counting {
        unsafe fn alloc(&self, l: Layout) -> *mut u8 {
            if l.align() > HDR {
                let p = System.alloc(l);
                if !p.is_null() {
                    count_alloc(l.size());
                }
                return p;
            }
            let base = System.alloc(outer(l));
            if base.is_null() {
                return base;
            }
            count_alloc(l.size());
            let shift = l.align() <= 8 && SHIFT.try_with(|s| s.get()).unwrap_or(false);
            if shift {
                base.add(8)
            } else {
                base.add(HDR)
            }
        }
        unsafe fn dealloc(&self, p: *mut u8, l: Layout) {
            if l.align() > HDR {
                System.dealloc(p, l);
            } else {
                let base = if (p as usize) & 15 == 8 { p.sub(8) } else { p.sub(HDR) };
                System.dealloc(base, outer(l));
            }
            let _ = CUR.try_with(|c| c.set(c.get() - l.size() as isize));
            let _ = BLOCKS.try_with(|b| b.set(b.get() - 1));
        }
        unsafe fn realloc(&self, p: *mut u8, l: Layout, new: usize) -> *mut u8 {
            let shifted = l.align() <= HDR && (p as usize) & 15 == 8;
            let want_shift = l.align() <= 8 && SHIFT.try_with(|s| s.get()).unwrap_or(false);
            let q = if l.align() > HDR {
                System.realloc(p, l, new)
            } else if !shifted && !want_shift {
                let base = System.realloc(p.sub(HDR), outer(l), new + HDR);
                if base.is_null() {
                    base
                } else {
                    base.add(HDR)
                }
            } else {
                // move between placements by hand
                let nl = Layout::from_size_align_unchecked(new, l.align());
                let base = System.alloc(outer(nl));
                if base.is_null() {
                    return base;
                }
                let q = if want_shift { base.add(8) } else { base.add(HDR) };
                std::ptr::copy_nonoverlapping(p, q, l.size().min(new));
                let old_base = if shifted { p.sub(8) } else { p.sub(HDR) };
                System.dealloc(old_base, outer(l));
                q
            };
            if !q.is_null() {
                let _ = CUR.try_with(|c| {
                    c.set(c.get() + new as isize - l.size() as isize);
                    let _ = PEAK.try_with(|p| {
                        if c.get() > p.get() {
                            p.set(c.get())
                        }
                    });
                });
            }
            q
        }
    }

    /// Place this thread's new small-alignment blocks at 8 mod 16 (true) or 0 mod 16 (false).
    /// Returns the previous setting.
    pub fn set_shift(on: bool) -> bool {
        SHIFT.with(|s| s.replace(on))
    }

    /// (current bytes, live blocks) allocated by this thread so far (net)
    pub fn snapshot() -> (isize, isize) {
        (CUR.with(|c| c.get()), BLOCKS.with(|b| b.get()))
    }
    /// Reset the peak to the current level and return the current level.
    pub fn reset_peak() -> isize {
        let c = CUR.with(|c| c.get());
        PEAK.with(|p| p.set(c));
        c
    }
    pub fn peak() -> isize {
        PEAK.with(|p| p.get())
    }
}

#[global_allocator]
static GLOBAL: heap::Counting = heap::Counting;

/// Compile-time zones produced by jiff's static macros (see build.rs).
pub mod static_zones {
    include!(concat!(env!("OUT_DIR"), "/static_zones.rs"));
}
