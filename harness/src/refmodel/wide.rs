//! Exact wide-integer helpers (i128 nanoseconds, rational rounding).

pub const NS_PER_SEC: i128 = 1_000_000_000;
pub const NS_PER_DAY: i128 = 86_400 * NS_PER_SEC;

pub const TS_MIN_NS: i128 = -377705023201 * NS_PER_SEC;
pub const TS_MAX_NS: i128 = 253402207200 * NS_PER_SEC + 999_999_999;

#[derive(Clone, Copy, Debug, PartialEq, Eq, serde::Serialize, serde::Deserialize)]
pub enum Mode {
    Ceil,
    Floor,
    Expand,
    Trunc,
    HalfCeil,
    HalfFloor,
    HalfExpand,
    HalfTrunc,
    HalfEven,
}

pub const MODES: [Mode; 9] = [
    Mode::Ceil,
    Mode::Floor,
    Mode::Expand,
    Mode::Trunc,
    Mode::HalfCeil,
    Mode::HalfFloor,
    Mode::HalfExpand,
    Mode::HalfTrunc,
    Mode::HalfEven,
];

impl Mode {
    pub fn to_jiff(self) -> jiff::RoundMode {
        use jiff::RoundMode as R;
        match self {
            Mode::Ceil => R::Ceil,
            Mode::Floor => R::Floor,
            Mode::Expand => R::Expand,
            Mode::Trunc => R::Trunc,
            Mode::HalfCeil => R::HalfCeil,
            Mode::HalfFloor => R::HalfFloor,
            Mode::HalfExpand => R::HalfExpand,
            Mode::HalfTrunc => R::HalfTrunc,
            Mode::HalfEven => R::HalfEven,
        }
    }
}

/// Round x to a multiple of inc (inc > 0) under `mode`, written from the
/// definitions: floor/ceil toward -inf/+inf regardless of sign, trunc/expand
/// toward/away from zero, half-* = nearest with ties by the named rule,
/// half-even = tie to the even multiple.
pub fn round_to(x: i128, inc: i128, mode: Mode) -> i128 {
    assert!(inc > 0);
    let lo = x.div_euclid(inc) * inc; // floor multiple
    let r = x - lo; // 0 <= r < inc
    if r == 0 {
        return x;
    }
    let hi = lo + inc;
    let neg = x < 0;
    let twice = 2 * r;
    let pick_nearest = |tie_hi: bool| -> i128 {
        if twice < inc {
            lo
        } else if twice > inc {
            hi
        } else if tie_hi {
            hi
        } else {
            lo
        }
    };
    match mode {
        Mode::Floor => lo,
        Mode::Ceil => hi,
        Mode::Trunc => {
            if neg {
                hi
            } else {
                lo
            }
        }
        Mode::Expand => {
            if neg {
                lo
            } else {
                hi
            }
        }
        Mode::HalfCeil => pick_nearest(true),
        Mode::HalfFloor => pick_nearest(false),
        Mode::HalfExpand => pick_nearest(!neg),
        Mode::HalfTrunc => pick_nearest(neg),
        Mode::HalfEven => {
            let lo_even = (lo / inc).rem_euclid(2) == 0;
            pick_nearest(!lo_even)
        }
    }
}
