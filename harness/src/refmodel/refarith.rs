//! Reference civil arithmetic on day numbers and nanoseconds-of-day.

use super::refcal as rc;
use super::wide::*;
use crate::gen::SpanSpec;

pub type Ymd = (i64, i64, i64);
pub type Civil = (i64, i64, i64, i128);

/// Add months with day-of-month clamping. None if the year leaves
/// -9999..=9999.
pub fn add_months(y: i64, m: i64, d: i64, months: i128) -> Option<Ymd> {
    let idx = y as i128 * 12 + (m as i128 - 1) + months;
    let ny = idx.div_euclid(12);
    let nm = idx.rem_euclid(12) as i64 + 1;
    if !(-9999..=9999).contains(&ny) {
        return None;
    }
    let ny = ny as i64;
    Some((ny, nm, d.min(rc::days_in_month(ny, nm))))
}

pub fn days_in_range(dn: i128) -> bool {
    dn >= rc::DAY_MIN as i128 && dn <= rc::DAY_MAX as i128
}

/// Date + span: years/months (clamp), then weeks/days, then time units
/// truncated toward zero to whole days.
pub fn date_add(ymd: Ymd, s: &SpanSpec) -> Option<Ymd> {
    let (y, m, d) = add_months(ymd.0, ymd.1, ymd.2, s.months())?;
    let dn = rc::to_days(y, m, d) as i128 + s.days() + s.time_ns() / NS_PER_DAY;
    if !days_in_range(dn) {
        return None;
    }
    Some(rc::from_days(dn as i64))
}

/// DateTime + span: years/months (clamp), weeks/days, time units carried
/// across midnight in 24-hour days.
pub fn datetime_add(c: Civil, s: &SpanSpec) -> Option<Civil> {
    let (y, m, d) = add_months(c.0, c.1, c.2, s.months())?;
    let total = c.3 + s.time_ns();
    let carry = total.div_euclid(NS_PER_DAY);
    let tod = total.rem_euclid(NS_PER_DAY);
    let dn = rc::to_days(y, m, d) as i128 + s.days() + carry;
    if !days_in_range(dn) {
        return None;
    }
    let (y, m, d) = rc::from_days(dn as i64);
    Some((y, m, d, tod))
}

/// DateTime + exact nanoseconds.
pub fn datetime_add_ns(c: Civil, ns: i128) -> Option<Civil> {
    let total = rc::to_days(c.0, c.1, c.2) as i128 * NS_PER_DAY + c.3 + ns;
    let dn = total.div_euclid(NS_PER_DAY);
    if !days_in_range(dn) {
        return None;
    }
    let (y, m, d) = rc::from_days(dn as i64);
    Some((y, m, d, total.rem_euclid(NS_PER_DAY)))
}
