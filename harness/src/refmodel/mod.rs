pub mod refarith;
pub mod refcal;
pub mod reftz;
pub mod refzoned;
pub mod wide;
