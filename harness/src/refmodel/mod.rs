pub mod refarith;
pub mod refcal;
pub mod reftz;
pub mod wide;
