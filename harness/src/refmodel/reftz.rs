//! Independent reference reader for TZif (RFC 8536) + POSIX TZ strings.
//!
//! Written from the RFC text; shares no code with jiff. Semantics:
//! - local time type of the latest transition <= t;
//! - time type 0 before the first transition (RFC 8536 3.2);
//! - the footer TZ string from the last transition on (if present and
//!   non-empty), else the last transition's type; with no transitions at all:
//!   footer if present, else type 0;
//! - transition times outside jiff's documented timestamp range are clamped
//!   into it (documented input normalisation in jiff: shared/tzif.rs).
//! POSIX rules are evaluated per *local rule year*: DST starts at local
//! (date, time) interpreted in standard time and ends at local (date, time)
//! interpreted in daylight time.

use super::refcal;

pub const TS_MIN: i64 = -377705023201;
pub const TS_MAX: i64 = 253402207200;

#[derive(Clone, Debug, PartialEq, Eq, Hash)]
pub struct Info {
    pub off: i32,
    pub dst: bool,
    pub abbr: String,
}

#[derive(Clone, Debug, PartialEq, Eq)]
pub enum Day {
    /// Jn: 1..=365, Feb 29 never counted
    J(i32),
    /// n: 0..=365, Feb 29 counted
    N(i32),
    /// Mm.w.d
    M(i32, i32, i32),
}

#[derive(Clone, Debug, PartialEq, Eq)]
pub struct Rule {
    pub dst: Info,
    pub start: (Day, i32),
    pub end: (Day, i32),
}

#[derive(Clone, Debug, PartialEq, Eq)]
pub struct Posix {
    pub std: Info,
    pub rule: Option<Rule>,
}

#[derive(Clone, Debug)]
pub struct RefZone {
    /// (instant, type index), sorted, clamped into jiff's range
    pub trans: Vec<(i64, usize)>,
    pub types: Vec<Info>,
    pub footer: Option<Posix>,
    pub footer_text: Option<String>,
    pub version: u8,
}

fn be32(b: &[u8]) -> i64 {
    i32::from_be_bytes([b[0], b[1], b[2], b[3]]) as i64
}
fn be64(b: &[u8]) -> i64 {
    i64::from_be_bytes([b[0], b[1], b[2], b[3], b[4], b[5], b[6], b[7]])
}
fn ube32(b: &[u8]) -> usize {
    u32::from_be_bytes([b[0], b[1], b[2], b[3]]) as usize
}

struct Header {
    isut: usize,
    isstd: usize,
    leap: usize,
    timecnt: usize,
    typecnt: usize,
    charcnt: usize,
}

fn header(b: &[u8]) -> Option<(u8, Header)> {
    if b.len() < 44 || &b[..4] != b"TZif" {
        return None;
    }
    Some((
        b[4],
        Header {
            isut: ube32(&b[20..]),
            isstd: ube32(&b[24..]),
            leap: ube32(&b[28..]),
            timecnt: ube32(&b[32..]),
            typecnt: ube32(&b[36..]),
            charcnt: ube32(&b[40..]),
        },
    ))
}

impl Header {
    fn body_len(&self, tsz: usize) -> usize {
        self.timecnt * tsz
            + self.timecnt
            + self.typecnt * 6
            + self.charcnt
            + self.leap * (tsz + 4)
            + self.isstd
            + self.isut
    }
}

pub fn parse_tzif(data: &[u8]) -> Option<RefZone> {
    let (ver, h1) = header(data)?;
    let v1len = h1.body_len(4);
    let (body, tsz, h, ver) = if ver == 0 {
        (data.get(44..)?, 4usize, h1, 0u8)
    } else {
        let h2 = data.get(44 + v1len..)?;
        let (_, h) = header(h2)?;
        (h2.get(44..)?, 8usize, h, ver)
    };
    if body.len() < h.body_len(tsz) || h.typecnt == 0 {
        return None;
    }
    let mut p = 0usize;
    let mut times = Vec::with_capacity(h.timecnt);
    for i in 0..h.timecnt {
        let b = &body[p + i * tsz..];
        times.push(if tsz == 4 { be32(b) } else { be64(b) });
    }
    p += h.timecnt * tsz;
    let idx: Vec<usize> =
        body[p..p + h.timecnt].iter().map(|&x| x as usize).collect();
    p += h.timecnt;
    let mut raw = vec![];
    for i in 0..h.typecnt {
        let b = &body[p + i * 6..];
        raw.push((be32(b) as i32, b[4] != 0, b[5] as usize));
    }
    p += h.typecnt * 6;
    let chars = &body[p..p + h.charcnt];
    p += h.charcnt;
    p += h.leap * (tsz + 4) + h.isstd + h.isut;
    let mut types = vec![];
    for &(off, dst, ai) in &raw {
        let tail = chars.get(ai..)?;
        let end = tail.iter().position(|&c| c == 0)?;
        types.push(Info {
            off,
            dst,
            abbr: String::from_utf8_lossy(&tail[..end]).to_string(),
        });
    }
    if idx.iter().any(|&i| i >= types.len()) {
        return None;
    }
    let mut footer = None;
    let mut footer_text = None;
    if ver != 0 {
        let rest = body.get(p..)?;
        if rest.first() == Some(&b'\n') {
            if let Some(e) = rest[1..].iter().position(|&c| c == b'\n') {
                let s = std::str::from_utf8(&rest[1..1 + e]).ok()?;
                if !s.is_empty() {
                    footer = Some(parse_posix(s)?);
                    footer_text = Some(s.to_string());
                }
            }
        }
    }
    // strictly ascending per RFC
    for w in times.windows(2) {
        if w[0] >= w[1] {
            return None;
        }
    }
    let trans = times
        .iter()
        .zip(idx.iter())
        .map(|(&t, &i)| (t.clamp(TS_MIN, TS_MAX), i))
        .collect();
    Some(RefZone { trans, types, footer, footer_text, version: ver })
}

// --- POSIX TZ ---------------------------------------------------------------

struct P<'a> {
    b: &'a [u8],
    i: usize,
}

impl<'a> P<'a> {
    fn peek(&self) -> Option<u8> {
        self.b.get(self.i).copied()
    }
    fn eat(&mut self, c: u8) -> bool {
        if self.peek() == Some(c) {
            self.i += 1;
            true
        } else {
            false
        }
    }
    fn abbr(&mut self) -> Option<String> {
        if self.eat(b'<') {
            let st = self.i;
            while let Some(c) = self.peek() {
                if c == b'>' {
                    break;
                }
                if !(c.is_ascii_alphanumeric() || c == b'+' || c == b'-') {
                    return None;
                }
                self.i += 1;
            }
            let s = &self.b[st..self.i];
            if !self.eat(b'>') || s.len() < 3 {
                return None;
            }
            Some(String::from_utf8_lossy(s).to_string())
        } else {
            let st = self.i;
            while self.peek().map_or(false, |c| c.is_ascii_alphabetic()) {
                self.i += 1;
            }
            if self.i - st < 3 {
                return None;
            }
            Some(String::from_utf8_lossy(&self.b[st..self.i]).to_string())
        }
    }
    fn num(&mut self, maxdigits: usize) -> Option<i32> {
        let st = self.i;
        while self.peek().map_or(false, |c| c.is_ascii_digit())
            && self.i - st < maxdigits
        {
            self.i += 1;
        }
        if st == self.i {
            return None;
        }
        std::str::from_utf8(&self.b[st..self.i]).ok()?.parse().ok()
    }
    /// [+-]h[h[h]][:mm[:ss]] -> seconds, signed as written
    fn hms(&mut self, maxh: i32) -> Option<i32> {
        let mut sign = 1;
        if self.eat(b'-') {
            sign = -1;
        } else {
            self.eat(b'+');
        }
        let h = self.num(3)?;
        if h > maxh {
            return None;
        }
        let mut t = h * 3600;
        if self.eat(b':') {
            let m = self.num(2)?;
            if m > 59 {
                return None;
            }
            t += m * 60;
            if self.eat(b':') {
                let s = self.num(2)?;
                if s > 59 {
                    return None;
                }
                t += s;
            }
        }
        Some(sign * t)
    }
    fn day(&mut self) -> Option<(Day, i32)> {
        let d = if self.eat(b'J') {
            let n = self.num(3)?;
            if !(1..=365).contains(&n) {
                return None;
            }
            Day::J(n)
        } else if self.eat(b'M') {
            let m = self.num(2)?;
            if !self.eat(b'.') {
                return None;
            }
            let w = self.num(1)?;
            if !self.eat(b'.') {
                return None;
            }
            let d = self.num(1)?;
            if !(1..=12).contains(&m)
                || !(1..=5).contains(&w)
                || !(0..=6).contains(&d)
            {
                return None;
            }
            Day::M(m, w, d)
        } else {
            let n = self.num(3)?;
            if !(0..=365).contains(&n) {
                return None;
            }
            Day::N(n)
        };
        let mut t = 7200;
        if self.eat(b'/') {
            t = self.hms(167)?;
        }
        Some((d, t))
    }
}

pub fn parse_posix(s: &str) -> Option<Posix> {
    let mut p = P { b: s.as_bytes(), i: 0 };
    let sa = p.abbr()?;
    let so = -p.hms(24)?;
    let std = Info { off: so, dst: false, abbr: sa };
    if p.i >= p.b.len() {
        return Some(Posix { std, rule: None });
    }
    let da = p.abbr()?;
    let mut dof = so + 3600;
    if p.peek() != Some(b',') {
        dof = -p.hms(24)?;
    }
    if !p.eat(b',') {
        return None;
    }
    let st = p.day()?;
    if !p.eat(b',') {
        return None;
    }
    let en = p.day()?;
    if p.i != p.b.len() {
        return None;
    }
    Some(Posix {
        std,
        rule: Some(Rule {
            dst: Info { off: dof, dst: true, abbr: da },
            start: st,
            end: en,
        }),
    })
}

fn day_to_days(d: &Day, y: i64) -> i64 {
    match *d {
        Day::J(n) => {
            let mut n = n as i64;
            if refcal::is_leap(y) && n >= 60 {
                n += 1;
            }
            refcal::jan1(y) + n - 1
        }
        Day::N(n) => refcal::jan1(y) + n as i64,
        Day::M(m, w, wd) => {
            let first = refcal::to_days(y, m as i64, 1);
            // weekday with 0 = Sunday
            let fw = (refcal::weekday_mon0(first) + 1) % 7;
            let mut d =
                first + (wd as i64 - fw).rem_euclid(7) + (w as i64 - 1) * 7;
            let last = first + refcal::days_in_month(y, m as i64) - 1;
            while d > last {
                d -= 7;
            }
            d
        }
    }
}

impl Posix {
    /// (instant, info in force from then on) for local rule year y.
    pub fn year_transitions(&self, y: i64) -> Vec<(i64, Info)> {
        let Some(r) = &self.rule else { return vec![] };
        let s = day_to_days(&r.start.0, y) * 86400 + r.start.1 as i64
            - self.std.off as i64;
        let e = day_to_days(&r.end.0, y) * 86400 + r.end.1 as i64
            - r.dst.off as i64;
        vec![(s, r.dst.clone()), (e, self.std.clone())]
    }

    pub fn transitions_between(&self, lo: i64, hi: i64) -> Vec<(i64, Info)> {
        if self.rule.is_none() || lo > hi {
            return vec![];
        }
        let y0 = (refcal::from_days(lo.div_euclid(86400)).0 - 1).max(-10000);
        let y1 = (refcal::from_days(hi.div_euclid(86400)).0 + 1).min(10000);
        let mut v = vec![];
        for y in y0..=y1 {
            for t in self.year_transitions(y) {
                if t.0 >= lo && t.0 <= hi {
                    v.push(t);
                }
            }
        }
        v.sort_by_key(|t| t.0);
        v
    }

    pub fn lookup(&self, t: i64) -> Info {
        if self.rule.is_none() {
            return self.std.clone();
        }
        let y = refcal::from_days(t.div_euclid(86400)).0;
        let mut v = vec![];
        for yy in (y - 1).max(-10000)..=(y + 1).min(10000) {
            v.extend(self.year_transitions(yy));
        }
        v.sort_by_key(|t| t.0);
        let mut cur = None;
        for (ti, info) in v {
            if ti <= t {
                cur = Some(info);
            }
        }
        cur.unwrap_or_else(|| self.std.clone())
    }

    /// True when every transition instant and its wall-clock images stay
    /// at least `margin` seconds inside the rule's calendar year and both
    /// periods are non-empty: the class of rules where jiff's documented
    /// year clamping is irrelevant (all real tzdb footers).
    pub fn is_tame(&self, margin: i64) -> bool {
        let Some(r) = &self.rule else { return true };
        for y in [1999i64, 2000, 2001, 2004, 2023, 2024] {
            let ys = refcal::jan1(y) * 86400;
            let ye = refcal::jan1(y + 1) * 86400;
            let tr = self.year_transitions(y);
            for (t, _) in &tr {
                for off in [0i64, self.std.off as i64, r.dst.off as i64] {
                    let w = t + off;
                    if w < ys + margin || w >= ye - margin {
                        return false;
                    }
                }
            }
            if (tr[0].0 - tr[1].0).abs() < margin {
                return false;
            }
        }
        true
    }
}

#[derive(Clone, Debug, PartialEq, Eq)]
pub enum Civil {
    Unambiguous(i32),
    /// (offset of the earlier instant, offset of the later instant)
    Fold(i32, i32),
    /// (offset just before the gap, offset just after)
    Gap(i32, i32),
    /// three or more instants, or overlapping windows: outside C04's statement
    Weird,
}

impl RefZone {
    pub fn posix_only(p: Posix) -> RefZone {
        RefZone { trans: vec![], types: vec![p.std.clone()], footer: Some(p), footer_text: None, version: 3 }
    }

    pub fn fixed(off: i32) -> RefZone {
        RefZone {
            trans: vec![],
            types: vec![Info { off, dst: false, abbr: String::new() }],
            footer: None,
            footer_text: None,
            version: 0,
        }
    }

    /// t = floor seconds of the instant
    pub fn lookup(&self, t: i64) -> Info {
        match self.trans.last() {
            None => match &self.footer {
                Some(p) => p.lookup(t),
                None => self.types[0].clone(),
            },
            Some(&(last, li)) => {
                if t >= last {
                    return match &self.footer {
                        Some(p) => p.lookup(t),
                        None => self.types[li].clone(),
                    };
                }
                let pos = self.trans.partition_point(|&(ti, _)| ti <= t);
                let cur = if pos > 0 { self.trans[pos - 1].1 } else { 0 };
                self.types[cur].clone()
            }
        }
    }

    /// RFC 8536 3.3: the footer must be consistent with the last transition.
    pub fn footer_consistent(&self) -> bool {
        match (&self.footer, self.trans.last()) {
            (Some(p), Some(&(t, i))) => p.lookup(t) == self.types[i],
            _ => true,
        }
    }

    /// All transitions (explicit and rule generated) with lo <= T <= hi, as
    /// (T, info from T on).
    pub fn transitions_between(&self, lo: i64, hi: i64) -> Vec<(i64, Info)> {
        let mut v: Vec<(i64, Info)> = self
            .trans
            .iter()
            .filter(|&&(t, _)| t >= lo && t <= hi)
            .map(|&(t, i)| (t, self.types[i].clone()))
            .collect();
        if let Some(p) = &self.footer {
            let lo2 = match self.trans.last() {
                Some(&(last, _)) => lo.max(last + 1),
                None => lo,
            };
            if lo2 <= hi {
                v.extend(p.transitions_between(lo2, hi));
            }
        }
        v.sort_by_key(|t| t.0);
        v
    }

    /// Like `transitions_between` but only those where the info really
    /// changes, with the info before.
    pub fn real_changes_between(
        &self,
        lo: i64,
        hi: i64,
    ) -> Vec<(i64, Info, Info)> {
        let mut out = vec![];
        for (t, after) in self.transitions_between(lo, hi) {
            let before = self.lookup(t - 1);
            if before != after {
                out.push((t, before, after));
            }
        }
        out
    }

    pub fn offsets(&self) -> Vec<i32> {
        let mut v: Vec<i32> = self.types.iter().map(|t| t.off).collect();
        if let Some(p) = &self.footer {
            v.push(p.std.off);
            if let Some(r) = &p.rule {
                v.push(r.dst.off);
            }
        }
        v.sort();
        v.dedup();
        v
    }

    /// Classify civil second `c` (seconds since 1970-01-01T00:00:00 *local*)
    /// from the instant direction only.
    pub fn resolve(&self, c: i64) -> Civil {
        const W: i64 = 190_000; // > 2 * 25:59:59
        let lo = c - W;
        let hi = c + W;
        let mut segs: Vec<(i64, i32)> = vec![(i64::MIN, self.lookup(lo).off)];
        for (t, info) in self.transitions_between(lo + 1, hi) {
            segs.push((t, info.off));
        }
        let mut hits: Vec<(i64, i32)> = vec![];
        for i in 0..segs.len() {
            let (s, o) = segs[i];
            let e = if i + 1 < segs.len() { segs[i + 1].0 } else { i64::MAX };
            let t = c - o as i64;
            if t >= s && t < e {
                hits.push((t, o));
            }
        }
        match hits.len() {
            1 => Civil::Unambiguous(hits[0].1),
            2 => Civil::Fold(hits[0].1, hits[1].1),
            0 => {
                let mut gaps = vec![];
                for i in 1..segs.len() {
                    let (t, oa) = segs[i];
                    let ob = segs[i - 1].1;
                    if oa > ob && c >= t + ob as i64 && c < t + oa as i64 {
                        gaps.push((ob, oa));
                    }
                }
                if gaps.len() == 1 {
                    Civil::Gap(gaps[0].0, gaps[0].1)
                } else {
                    Civil::Weird
                }
            }
            _ => Civil::Weird,
        }
    }
}
