//! Reference zoned arithmetic over reftz + refarith.

use super::refarith as ra;
use super::refcal as rc;
use super::reftz::{Civil, RefZone};
use super::wide::*;
use crate::gen::SpanSpec;

/// Local civil nanoseconds and offset at instant t.
pub fn local_of(z: &RefZone, t: i128) -> (i128, i32) {
    let off = z.lookup(t.div_euclid(NS_PER_SEC) as i64).off;
    (t + off as i128 * NS_PER_SEC, off)
}

pub fn civil_parts(c: i128) -> ra::Civil {
    let (y, m, d) = rc::from_days(c.div_euclid(NS_PER_DAY) as i64);
    (y, m, d, c.rem_euclid(NS_PER_DAY))
}

pub fn civil_ns(c: ra::Civil) -> i128 {
    rc::to_days(c.0, c.1, c.2) as i128 * NS_PER_DAY + c.3
}

#[derive(Debug, Clone, PartialEq, Eq)]
pub enum Res {
    Instant(i128),
    /// must be an error
    Err,
    /// the reference cannot decide (documented/tolerated class)
    Skip(&'static str),
}

/// compatible disambiguation of a civil time (ns)
pub fn compatible(z: &RefZone, c: i128) -> Result<i128, &'static str> {
    match z.resolve(c.div_euclid(NS_PER_SEC) as i64) {
        Civil::Unambiguous(o) => Ok(c - o as i128 * NS_PER_SEC),
        Civil::Gap(b, _) => Ok(c - b as i128 * NS_PER_SEC),
        Civil::Fold(b, _) => Ok(c - b as i128 * NS_PER_SEC),
        Civil::Weird => Err("weird-civil"),
    }
}

pub fn in_ts_range(t: i128) -> bool {
    (TS_MIN_NS..=TS_MAX_NS).contains(&t)
}

/// Zoned + span per C06: calendar units on the wall clock (compatible), time
/// units as exact elapsed time.
pub fn zoned_add(z: &RefZone, t: i128, s: &SpanSpec) -> Res {
    if !s.has_calendar() {
        let r = t + s.time_ns();
        return if in_ts_range(r) { Res::Instant(r) } else { Res::Err };
    }
    let (loc, _) = local_of(z, t);
    let cal = SpanSpec { neg: s.neg, u: [s.u[0], s.u[1], s.u[2], s.u[3], 0, 0, 0, 0, 0, 0] };
    let Some(c2) = ra::datetime_add(civil_parts(loc), &cal) else {
        // intermediate civil datetime outside the civil range
        return Res::Err;
    };
    let t1 = match compatible(z, civil_ns(c2)) {
        Ok(t1) => t1,
        Err(why) => return Res::Skip(why),
    };
    let r = t1 + s.time_ns();
    if !in_ts_range(t1) {
        // The intermediate instant is out of range. With a single-signed
        // span the final instant is even further out, except within the
        // DST-shift distance of the limit.
        return if in_ts_range(r) { Res::Skip("intermediate-out-of-range") } else { Res::Err };
    }
    if in_ts_range(r) {
        Res::Instant(r)
    } else {
        Res::Err
    }
}

/// Segments (start instant, offset) covering [lo, hi] in instant seconds.
fn segments(z: &RefZone, lo: i64, hi: i64) -> Vec<(i64, i32)> {
    let mut segs = vec![(i64::MIN, z.lookup(lo).off)];
    for (t, info) in z.transitions_between(lo + 1, hi) {
        segs.push((t, info.off));
    }
    segs
}

/// First and last instant (ns) whose local date is `day` (None if the day
/// does not exist in the zone).
pub fn day_bounds(z: &RefZone, day: i64) -> Option<(i128, i128)> {
    day_bounds_ex(z, day).map(|(a, b, _)| (a, b))
}

/// As `day_bounds`, plus whether the day's instants are contiguous (false
/// when a fold straddling midnight splits the civil day into two ranges).
pub fn day_bounds_ex(z: &RefZone, day: i64) -> Option<(i128, i128, bool)> {
    let d0 = day * 86400;
    let d1 = d0 + 86400;
    let segs = segments(z, d0 - 200_000, d1 + 200_000);
    let mut first: Option<i64> = None;
    let mut last_excl: Option<i64> = None;
    let mut total = 0i64;
    for i in 0..segs.len() {
        let (s, o) = segs[i];
        let e = if i + 1 < segs.len() { segs[i + 1].0 } else { i64::MAX };
        let a = s.max(d0 - o as i64);
        let b = e.min(d1 - o as i64);
        if a < b {
            total += b - a;
            first = Some(first.map_or(a, |f: i64| f.min(a)));
            last_excl = Some(last_excl.map_or(b, |l: i64| l.max(b)));
        }
    }
    let (f, l) = (first?, last_excl?);
    Some((f as i128 * NS_PER_SEC, l as i128 * NS_PER_SEC - 1, total == l - f))
}

#[allow(dead_code)]
fn day_bounds_old(z: &RefZone, day: i64) -> Option<(i128, i128)> {
    let d0 = day * 86400;
    let d1 = d0 + 86400;
    let segs = segments(z, d0 - 200_000, d1 + 200_000);
    let mut first: Option<i64> = None;
    let mut last_excl: Option<i64> = None;
    for i in 0..segs.len() {
        let (s, o) = segs[i];
        let e = if i + 1 < segs.len() { segs[i + 1].0 } else { i64::MAX };
        let a = s.max(d0 - o as i64);
        let b = e.min(d1 - o as i64);
        if a < b {
            first = Some(first.map_or(a, |f: i64| f.min(a)));
            last_excl = Some(last_excl.map_or(b, |l: i64| l.max(b)));
        }
    }
    Some((first? as i128 * NS_PER_SEC, last_excl? as i128 * NS_PER_SEC - 1))
}
