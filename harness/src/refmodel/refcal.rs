//! Reference proleptic Gregorian calendar, built by *walking*.
//!
//! Shares no algorithm with jiff (Neri-Schneider closed forms, bit tricks).
//! A table of the day number of January 1st of every year in
//! [-10002, 10002] is built by adding 365/366 year by year starting from the
//! single anchoring fact "1970-01-01 is day 0 and a Thursday". Everything
//! else is table lookup + month-length table + textbook leap rule.

use std::sync::OnceLock;

pub const YMIN: i64 = -10002;
pub const YMAX: i64 = 10002;

pub fn is_leap(y: i64) -> bool {
    y % 4 == 0 && (y % 100 != 0 || y % 400 == 0)
}

pub fn days_in_year(y: i64) -> i64 {
    if is_leap(y) {
        366
    } else {
        365
    }
}

pub fn days_in_month(y: i64, m: i64) -> i64 {
    match m {
        1 | 3 | 5 | 7 | 8 | 10 | 12 => 31,
        4 | 6 | 9 | 11 => 30,
        2 => {
            if is_leap(y) {
                29
            } else {
                28
            }
        }
        _ => panic!("refcal: bad month {m}"),
    }
}

struct Table {
    /// day number of YYYY-01-01 for YYYY = YMIN + index
    jan1: Vec<i64>,
}

fn table() -> &'static Table {
    static T: OnceLock<Table> = OnceLock::new();
    T.get_or_init(|| {
        let n = (YMAX - YMIN + 2) as usize;
        let mut jan1 = vec![0i64; n];
        // walk forward from 1970
        let idx = |y: i64| (y - YMIN) as usize;
        jan1[idx(1970)] = 0;
        let mut y = 1970;
        while y <= YMAX {
            jan1[idx(y + 1)] = jan1[idx(y)] + days_in_year(y);
            y += 1;
        }
        let mut y = 1970;
        while y > YMIN {
            jan1[idx(y - 1)] = jan1[idx(y)] - days_in_year(y - 1);
            y -= 1;
        }
        Table { jan1 }
    })
}

pub fn jan1(y: i64) -> i64 {
    assert!((YMIN..=YMAX + 1).contains(&y), "refcal: year {y} outside table");
    table().jan1[(y - YMIN) as usize]
}

pub fn valid(y: i64, m: i64, d: i64) -> bool {
    (-9999..=9999).contains(&y)
        && (1..=12).contains(&m)
        && d >= 1
        && d <= days_in_month(y, m)
}

/// Day number (days since 1970-01-01) of a valid y-m-d (y within table).
pub fn to_days(y: i64, m: i64, d: i64) -> i64 {
    let mut n = jan1(y);
    for mm in 1..m {
        n += days_in_month(y, mm);
    }
    n + d - 1
}

/// Inverse of `to_days`: binary search on the year table, then walk months.
pub fn from_days(z: i64) -> (i64, i64, i64) {
    let t = table();
    // largest index with jan1 <= z
    let pos = t.jan1.partition_point(|&j| j <= z);
    assert!(pos > 0 && pos < t.jan1.len(), "refcal: day {z} outside table");
    let y = YMIN + pos as i64 - 1;
    let mut rem = z - t.jan1[pos - 1];
    let mut m = 1;
    loop {
        let l = days_in_month(y, m);
        if rem >= l {
            rem -= l;
            m += 1;
        } else {
            break;
        }
    }
    (y, m, rem + 1)
}

/// 0 = Monday .. 6 = Sunday. 1970-01-01 (day 0) is a Thursday (= 3).
pub fn weekday_mon0(days: i64) -> i64 {
    (days + 3).rem_euclid(7)
}

pub fn day_of_year(y: i64, m: i64, d: i64) -> i64 {
    to_days(y, m, d) - jan1(y) + 1
}

/// ISO 8601 week date by definition: the week's Thursday decides the ISO
/// year; week 1 is the week containing the first Thursday of the year.
pub fn iso_week(days: i64) -> (i64, i64, i64) {
    let wd = weekday_mon0(days);
    let thursday = days - wd + 3;
    let (ty, _, _) = from_days(thursday);
    let week = (thursday - jan1(ty)) / 7 + 1;
    (ty, week, wd)
}

/// Number of ISO weeks in an ISO year: 53 iff Jan 1 is a Thursday, or it is
/// a leap year and Jan 1 is a Wednesday.
pub fn iso_weeks_in_year(y: i64) -> i64 {
    let wd = weekday_mon0(jan1(y));
    if wd == 3 || (is_leap(y) && wd == 2) {
        53
    } else {
        52
    }
}

/// Day number of ISO (year, week, weekday mon0), no validity check beyond
/// table range.
pub fn iso_to_days(y: i64, w: i64, wd: i64) -> i64 {
    // Monday of week 1 = Monday of the week containing Jan 4th.
    let jan4 = jan1(y) + 3;
    let mon_w1 = jan4 - weekday_mon0(jan4);
    mon_w1 + (w - 1) * 7 + wd
}

pub const DAY_MIN: i64 = -4371587; // -9999-01-01, re-derived in selftest
pub const DAY_MAX: i64 = 2932896; // 9999-12-31

pub fn selftest() {
    assert_eq!(to_days(1970, 1, 1), 0);
    assert_eq!(weekday_mon0(0), 3);
    assert_eq!(to_days(-9999, 1, 1), DAY_MIN);
    assert_eq!(to_days(9999, 12, 31), DAY_MAX);
    assert_eq!(from_days(DAY_MIN), (-9999, 1, 1));
    assert_eq!(from_days(DAY_MAX), (9999, 12, 31));
    // independent known facts
    assert_eq!(to_days(2000, 3, 1), 11017);
    assert_eq!(to_days(1600, 1, 1), -135140);
    assert_eq!(weekday_mon0(to_days(2024, 2, 29)), 3); // Thursday
    assert_eq!(iso_week(to_days(2021, 1, 3)), (2020, 53, 6));
    assert_eq!(iso_week(to_days(2018, 12, 31)), (2019, 1, 0));
    assert_eq!(iso_weeks_in_year(2020), 53);
    assert_eq!(iso_weeks_in_year(2021), 52);
    assert_eq!(iso_to_days(2020, 53, 6), to_days(2021, 1, 3));
}
