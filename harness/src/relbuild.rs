//! A second process running the `rel` build of this harness (optimised, no
//! debug assertions, no overflow checks), for clauses that must hold in both
//! build modes but cannot be observed in the `dbg` build: the documented
//! panics of the `const` constructors are partly enforced by debug assertions
//! only (found in this build: `Timestamp::constant`, `Date::constant`).
//!
//! Protocol (`jv const-serve`): one request per line, one answer per line.
//!   D y m d        -> Date::constant       -> "OK y m d" | "PANIC"
//!   T s n          -> Timestamp::constant  -> "OK second subsec_nanosecond" | "PANIC"
//!   C h m s ns     -> Time::constant       -> "OK h m s ns" | "PANIC"
//!   O h            -> Offset::constant     -> "OK seconds" | "PANIC"

use std::cell::RefCell;
use std::io::{BufRead, BufReader, Write};
use std::process::{Child, ChildStdin, ChildStdout, Command, Stdio};

fn answer(line: &str) -> String {
    let t: Vec<&str> = line.split_whitespace().collect();
    let num = |i: usize| -> Option<i64> { t.get(i)?.parse::<i64>().ok() };
    let quiet = |f: &(dyn Fn() -> String + std::panic::RefUnwindSafe)| -> String {
        match std::panic::catch_unwind(|| f()) {
            Ok(s) => format!("OK {s}"),
            Err(_) => "PANIC".to_string(),
        }
    };
    match t.first().copied() {
        Some("D") => {
            let (Some(y), Some(m), Some(d)) = (num(1), num(2), num(3)) else { return "E args".into() };
            let (y, m, d) = (y as i16, m as i8, d as i8);
            quiet(&move || {
                let x = jiff::civil::Date::constant(y, m, d);
                format!("{} {} {}", x.year(), x.month(), x.day())
            })
        }
        Some("T") => {
            let (Some(s), Some(n)) = (num(1), num(2)) else { return "E args".into() };
            let n = n as i32;
            quiet(&move || {
                let x = jiff::Timestamp::constant(s, n);
                format!("{} {}", x.as_second(), x.subsec_nanosecond())
            })
        }
        Some("C") => {
            let (Some(h), Some(m), Some(s), Some(ns)) = (num(1), num(2), num(3), num(4)) else { return "E args".into() };
            let (h, m, s, ns) = (h as i8, m as i8, s as i8, ns as i32);
            quiet(&move || {
                let x = jiff::civil::Time::constant(h, m, s, ns);
                format!("{} {} {} {}", x.hour(), x.minute(), x.second(), x.subsec_nanosecond())
            })
        }
        Some("O") => {
            let Some(h) = num(1) else { return "E args".into() };
            let h = h as i8;
            quiet(&move || format!("{}", jiff::tz::Offset::constant(h).seconds()))
        }
        _ => "E request".into(),
    }
}

/// `jv const-serve`
pub fn serve() -> i32 {
    crate::engine::install_panic_hook();
    // the hook prints nothing for guarded panics only; silence everything here
    std::panic::set_hook(Box::new(|_| {}));
    let stdin = std::io::stdin();
    let stdout = std::io::stdout();
    let mut out = stdout.lock();
    for line in stdin.lock().lines() {
        let Ok(line) = line else { break };
        if writeln!(out, "{}", answer(&line)).is_err() || out.flush().is_err() {
            break;
        }
    }
    0
}

struct Remote {
    child: Child,
    stdin: ChildStdin,
    stdout: BufReader<ChildStdout>,
}

impl Drop for Remote {
    fn drop(&mut self) {
        let _ = self.child.kill();
        let _ = self.child.wait();
    }
}

thread_local! {
    static REMOTE: RefCell<Option<Remote>> = RefCell::new(None);
}

pub fn rel_bin() -> Option<String> {
    std::env::var("JV_REL_BIN").ok().filter(|p| std::path::Path::new(p).exists())
}

/// Ask the release build; at most a few hundred short lines per call (both
/// pipes must be able to hold a whole batch).
pub fn ask(lines: &[String]) -> Result<Vec<String>, String> {
    REMOTE.with(|r| {
        let mut r = r.borrow_mut();
        if r.is_none() {
            let bin = rel_bin().ok_or_else(|| "no-rel-binary".to_string())?;
            let mut child = Command::new(bin).arg("const-serve").stdin(Stdio::piped()).stdout(Stdio::piped()).stderr(Stdio::null()).spawn().map_err(|e| e.to_string())?;
            let stdin = child.stdin.take().ok_or("no stdin")?;
            let stdout = BufReader::new(child.stdout.take().ok_or("no stdout")?);
            *r = Some(Remote { child, stdin, stdout });
        }
        let rem = r.as_mut().unwrap();
        let io = (|| -> std::io::Result<Vec<String>> {
            let mut out = vec![];
            for chunk in lines.chunks(400) {
                let mut buf = String::new();
                for l in chunk {
                    buf.push_str(l);
                    buf.push('\n');
                }
                rem.stdin.write_all(buf.as_bytes())?;
                rem.stdin.flush()?;
                for _ in chunk {
                    let mut ans = String::new();
                    if rem.stdout.read_line(&mut ans)? == 0 {
                        return Err(std::io::Error::new(std::io::ErrorKind::UnexpectedEof, "child closed"));
                    }
                    out.push(ans.trim_end().to_string());
                }
            }
            Ok(out)
        })();
        match io {
            Ok(v) => Ok(v),
            Err(e) => {
                *r = None;
                Err(format!("died: {e}"))
            }
        }
    })
}
