//! Zone sources: installed zoneinfo, bundled jiff-tzdb, committed synthetic
//! TZif files, POSIX strings, fixed offsets. Every zone pairs the jiff
//! `TimeZone` with the independent `RefZone` read from the *same bytes*.

use std::collections::{BTreeMap, HashMap};
use std::path::{Path, PathBuf};
use std::sync::{Arc, Mutex, OnceLock};

use jiff::tz::TimeZone;

use crate::refmodel::reftz::{self, RefZone, TS_MAX, TS_MIN};

pub const ZONEINFO: &str = "/usr/share/zoneinfo";
pub const CORPUS_TZIF: &str = "/verif/corpus/tzif";

pub struct Zone {
    /// `file:<rel>`, `bundled:<name>`, `syn:<file>`, `posix:<string>`,
    /// `fixed:<seconds>`, `utc`
    pub label: String,
    pub tz: TimeZone,
    pub rz: RefZone,
    pub bytes: Option<Arc<Vec<u8>>>,
    /// transition instants worth probing (explicit + rule-generated sample)
    pub probes: Vec<i64>,
    pub has_footer: bool,
    pub explicit: usize,
}

impl Zone {
    pub fn is_tzif(&self) -> bool {
        self.bytes.is_some()
    }
}

fn walk(dir: &Path, out: &mut Vec<PathBuf>) {
    let Ok(rd) = std::fs::read_dir(dir) else { return };
    let mut entries: Vec<_> = rd.filter_map(|e| e.ok()).collect();
    entries.sort_by_key(|e| e.file_name());
    for e in entries {
        let p = e.path();
        let Ok(md) = std::fs::symlink_metadata(&p) else { continue };
        if md.is_dir() {
            walk(&p, out);
        } else if md.is_file() {
            out.push(p);
        }
    }
}

/// Rule years sampled for probe transitions.
fn rule_years(last_explicit_year: i64, dense_to: i64) -> Vec<i64> {
    let mut ys: Vec<i64> = (last_explicit_year.max(1900)..=dense_to).collect();
    ys.extend([2399, 2400, 2401, 5000, 9990, 9991, 9995, 9996, 9997, 9998, 9999]);
    ys.sort();
    ys.dedup();
    ys
}

pub fn make_probes(rz: &RefZone, dense_to: i64) -> Vec<i64> {
    let mut v: Vec<i64> = rz.trans.iter().map(|t| t.0).collect();
    if let Some(p) = &rz.footer {
        if p.rule.is_some() {
            let last = rz.trans.last().map(|t| t.0).unwrap_or(TS_MIN);
            let ly = crate::refmodel::refcal::from_days(last.div_euclid(86400)).0;
            // also a few rule years long before any explicit data for
            // rule-only zones
            let mut years = rule_years(ly, dense_to);
            if rz.trans.is_empty() {
                years.extend([-9998, -5000, -1, 0, 1, 1600, 1850]);
            }
            for y in years {
                for (t, _) in p.year_transitions(y) {
                    if t > last && t >= TS_MIN && t <= TS_MAX {
                        v.push(t);
                    }
                }
            }
        }
    }
    v.sort();
    v.dedup();
    v
}

pub fn from_tzif(label: String, name: Option<&str>, bytes: Vec<u8>) -> Option<Zone> {
    let rz = reftz::parse_tzif(&bytes)?;
    let tz = match name {
        Some(n) => TimeZone::tzif(n, &bytes).ok()?,
        None => TimeZone::tzif("Verif/Anon", &bytes).ok()?,
    };
    let probes = make_probes(&rz, 2045);
    Some(Zone {
        label,
        tz,
        has_footer: rz.footer.is_some(),
        explicit: rz.trans.len(),
        rz,
        bytes: Some(Arc::new(bytes)),
        probes,
    })
}

pub fn from_posix(s: &str) -> Option<Zone> {
    let p = reftz::parse_posix(s)?;
    let tz = TimeZone::posix(s).ok()?;
    let rz = RefZone::posix_only(p);
    let probes = make_probes(&rz, 2045);
    Some(Zone {
        label: format!("posix:{s}"),
        tz,
        has_footer: true,
        explicit: 0,
        rz,
        bytes: None,
        probes,
    })
}

pub fn from_fixed(secs: i32) -> Option<Zone> {
    let off = jiff::tz::Offset::from_seconds(secs).ok()?;
    Some(Zone {
        label: format!("fixed:{secs}"),
        tz: TimeZone::fixed(off),
        rz: RefZone::fixed(secs),
        bytes: None,
        probes: vec![],
        has_footer: false,
        explicit: 0,
    })
}

pub struct ZoneSet {
    pub zones: Vec<Arc<Zone>>,
    pub by_label: HashMap<String, usize>,
    pub skipped: BTreeMap<String, u64>,
}

fn build(list: Vec<(String, Option<String>, Vec<u8>)>) -> ZoneSet {
    let mut zones = vec![];
    let mut by_label = HashMap::new();
    let mut skipped: BTreeMap<String, u64> = BTreeMap::new();
    let mut seen: HashMap<Vec<u8>, ()> = HashMap::new();
    for (label, name, bytes) in list {
        if bytes.len() < 4 || &bytes[..4] != b"TZif" {
            *skipped.entry("not-tzif".into()).or_default() += 1;
            continue;
        }
        if seen.insert(bytes.clone(), ()).is_some() {
            *skipped.entry("duplicate-bytes".into()).or_default() += 1;
            continue;
        }
        match from_tzif(label.clone(), name.as_deref(), bytes) {
            Some(z) => {
                if !z.rz.footer_consistent() {
                    *skipped.entry("footer-inconsistent".into()).or_default() += 1;
                    continue;
                }
                by_label.insert(label, zones.len());
                zones.push(Arc::new(z));
            }
            None => {
                *skipped.entry("unreadable".into()).or_default() += 1;
            }
        }
    }
    ZoneSet { zones, by_label, skipped }
}

/// All regular TZif files under /usr/share/zoneinfo (incl. posix/, right/),
/// deduplicated by content.
pub fn installed() -> &'static ZoneSet {
    static S: OnceLock<ZoneSet> = OnceLock::new();
    S.get_or_init(|| {
        let mut files = vec![];
        walk(Path::new(ZONEINFO), &mut files);
        let mut list = vec![];
        for f in files {
            let rel = f.strip_prefix(ZONEINFO).unwrap().to_string_lossy().to_string();
            let Ok(bytes) = std::fs::read(&f) else { continue };
            let name = rel
                .strip_prefix("posix/")
                .or_else(|| rel.strip_prefix("right/"))
                .unwrap_or(&rel)
                .to_string();
            list.push((format!("file:{rel}"), Some(name), bytes));
        }
        build(list)
    })
}

/// jiff's bundled database (crates/jiff-tzdb), bytes read through the
/// jiff-tzdb crate.
pub fn bundled() -> &'static ZoneSet {
    static S: OnceLock<ZoneSet> = OnceLock::new();
    S.get_or_init(|| {
        let mut list = vec![];
        for name in jiff_tzdb::available() {
            if let Some((canon, bytes)) = jiff_tzdb::get(name) {
                list.push((
                    format!("bundled:{canon}"),
                    Some(canon.to_string()),
                    bytes.to_vec(),
                ));
            }
        }
        build(list)
    })
}

/// Committed synthetic zones (compiled once with zic from
/// /verif/corpus/zic/*.zi; see corpus/README).
pub fn synthetic() -> &'static ZoneSet {
    static S: OnceLock<ZoneSet> = OnceLock::new();
    S.get_or_init(|| {
        let mut files = vec![];
        walk(Path::new(CORPUS_TZIF), &mut files);
        let mut list = vec![];
        for f in files {
            let rel = f.strip_prefix(CORPUS_TZIF).unwrap().to_string_lossy().to_string();
            let Ok(bytes) = std::fs::read(&f) else { continue };
            list.push((format!("syn:{rel}"), None, bytes));
        }
        build(list)
    })
}

/// A fixed list of POSIX TZ strings of the "tame" class (see reftz).
pub const POSIX_STRINGS: &[&str] = &[
    "EST5EDT,M3.2.0,M11.1.0",
    "CET-1CEST,M3.5.0,M10.5.0/3",
    "IST-1GMT0,M10.5.0,M3.5.0/1",
    "AEST-10AEDT,M10.1.0,M4.1.0/3",
    "NZST-12NZDT,M9.5.0,M4.1.0/3",
    "<+1030>-10:30<+11>-11,M10.1.0,M4.1.0",
    "<-03>3<-02>,M3.5.0/-2,M10.5.0/-1",
    "IST-2IDT,M3.4.4/26,M10.5.0",
    "WGT3WGST,M3.5.0/-2,M10.5.0/-1",
    "EET-2EEST,M3.5.5/0,M10.5.5/0",
    "XXX3:12:34YYY1:45:56,J60/1:02:03,J300/4:05:06",
    "AAA-5:45BBB-6:15,70/3,280/1:30",
    "UTC0",
    "<+0545>-5:45",
    "PST8PDT,M3.2.0/2:00:00,M11.1.0/2:00:00",
    "CST6CDT,M4.1.0,M10.5.0",
    "ABC-12ABD,M11.1.3/5,M2.4.6/23:59:59",
    "MSK-3",
    "<-12>12",
    "<+14>-14",
    "FOO25BAR24,M5.2.1,M8.3.5",
    "LMT-0:00:51LST-1:00:51,M4.1.0/1,M9.5.6/3",
    // gap and fold that straddle midnight
    "EST5EDT,M3.2.0/23:30,M11.1.0/0:30",
    "<-01>1<+00>,M3.5.0/23:15,M10.5.0/0:45",
    "AAA-3BBB-5,M4.1.6/22:30,M9.5.0/1",
    // daylight time with the same offset as standard time: only the flag and abbreviation change
    "EST5EDT5,M3.2.0,M11.1.0",
    "<+03>-3<+03d>-3,J80/0,J300/0",
];

/// POSIX rules that are legal but hostile: the daylight period is shorter than the clock shift
/// (so the gap of one transition reaches past the next transition), transitions an hour apart,
/// shifts of many hours. Only used where the oracle is internal consistency (C13), because
/// civil resolution in such zones is not modelled by the reference.
pub const POSIX_ADVERSARIAL: &[&str] = &[
    "AAA0BBB-3,M3.2.0/0,M3.2.0/4",
    "XXX0YYY-5,J60/0,J60/7",
    "STD-1DST-2,M6.1.0/2,M6.1.0/3:30",
    "AAA3BBB-9,M10.1.0/0,M10.1.0/13",
    "PPP8QQQ6,M4.1.0/1,M4.1.0/4",
];

pub fn posix_adversarial_zones() -> &'static Vec<Arc<Zone>> {
    static S: OnceLock<Vec<Arc<Zone>>> = OnceLock::new();
    S.get_or_init(|| POSIX_ADVERSARIAL.iter().filter_map(|s| from_posix(s).map(Arc::new)).collect())
}

pub fn posix_zones() -> &'static Vec<Arc<Zone>> {
    static S: OnceLock<Vec<Arc<Zone>>> = OnceLock::new();
    S.get_or_init(|| {
        POSIX_STRINGS
            .iter()
            .filter_map(|s| from_posix(s).map(Arc::new))
            .collect()
    })
}

pub const FIXED_OFFSETS: &[i32] =
    &[0, 1, -1, 59, -59, 3600, -3600, 19800, 20700, -34200, 93599, -93599, 45296, -2821];

/// The default zone universe for a check.
pub fn universe(with_bundled: bool) -> Vec<Arc<Zone>> {
    let mut v: Vec<Arc<Zone>> = vec![];
    v.extend(installed().zones.iter().cloned());
    v.extend(synthetic().zones.iter().cloned());
    if with_bundled {
        v.extend(bundled().zones.iter().cloned());
    }
    v.extend(posix_zones().iter().cloned());
    v
}

/// A small, diverse set for expensive checks (arithmetic, histories).
pub const FEATURED: &[&str] = &[
    "file:America/New_York",
    "file:Europe/London",
    "file:Europe/Dublin",
    "file:Australia/Lord_Howe",
    "file:Pacific/Apia",
    "file:Pacific/Kwajalein",
    "file:America/Sao_Paulo",
    "file:Africa/Monrovia",
    "file:Africa/Accra",
    "file:Asia/Kathmandu",
    "file:Europe/Amsterdam",
    "file:America/St_Johns",
    "file:Antarctica/Troll",
    "file:Asia/Tehran",
    "file:Africa/Casablanca",
    "file:Pacific/Kiritimati",
    "file:America/Caracas",
    "file:right/Europe/Paris",
    "file:Asia/Gaza",
    "file:America/Godthab",
];

pub fn featured() -> Vec<Arc<Zone>> {
    let mut v = vec![];
    for l in FEATURED {
        if let Some(z) = by_label(l) {
            v.push(z);
        }
    }
    v.extend(synthetic().zones.iter().cloned());
    for s in ["EST5EDT,M3.2.0,M11.1.0", "IST-1GMT0,M10.5.0,M3.5.0/1", "<+1030>-10:30<+11>-11,M10.1.0,M4.1.0"] {
        v.push(by_label(&format!("posix:{s}")).unwrap());
    }
    v.push(by_label("fixed:0").unwrap());
    v.push(by_label("fixed:93599").unwrap());
    v.push(by_label("fixed:-93599").unwrap());
    v.push(by_label("fixed:20700").unwrap());
    v
}

fn dyn_cache() -> &'static Mutex<HashMap<String, Arc<Zone>>> {
    static C: OnceLock<Mutex<HashMap<String, Arc<Zone>>>> = OnceLock::new();
    C.get_or_init(|| Mutex::new(HashMap::new()))
}

/// Resolve a label (used by generators and by replay).
pub fn by_label(label: &str) -> Option<Arc<Zone>> {
    if label.starts_with("file:") {
        let s = installed();
        if let Some(&i) = s.by_label.get(label) {
            return Some(s.zones[i].clone());
        }
        // A duplicate-by-content file: load it directly.
    }
    if label.starts_with("bundled:") {
        let s = bundled();
        if let Some(&i) = s.by_label.get(label) {
            return Some(s.zones[i].clone());
        }
    }
    if label.starts_with("syn:") {
        let s = synthetic();
        if let Some(&i) = s.by_label.get(label) {
            return Some(s.zones[i].clone());
        }
    }
    if let Some(z) = dyn_cache().lock().unwrap().get(label) {
        return Some(z.clone());
    }
    let z = if let Some(rel) = label.strip_prefix("file:") {
        let bytes = std::fs::read(format!("{ZONEINFO}/{rel}")).ok()?;
        let name = rel
            .strip_prefix("posix/")
            .or_else(|| rel.strip_prefix("right/"))
            .unwrap_or(rel);
        from_tzif(label.to_string(), Some(name), bytes)?
    } else if let Some(s) = label.strip_prefix("posix:") {
        from_posix(s)?
    } else if let Some(s) = label.strip_prefix("fixed:") {
        from_fixed(s.parse().ok()?)?
    } else if label == "utc" {
        Zone {
            label: "utc".into(),
            tz: TimeZone::UTC,
            rz: RefZone::fixed(0),
            bytes: None,
            probes: vec![],
            has_footer: false,
            explicit: 0,
        }
    } else {
        return None;
    };
    let z = Arc::new(z);
    dyn_cache().lock().unwrap().insert(label.to_string(), z.clone());
    Some(z)
}

/// Map a 16-bit selector monotonically onto 0..len (shrinks toward 0).
pub fn pick(sel: u16, len: usize) -> usize {
    if len == 0 {
        return 0;
    }
    ((sel as usize) * len) >> 16
}
