//! The PBT engine: deterministic multi-threaded proptest driver, exhaustive
//! loop helper, case accounting, known-finding triage, replay files and the
//! evidence writer.
//!
//! Every random choice comes from a proptest `TestRunner` whose seed is a pure
//! function of (VERIF_SEED, check name, shard index). Nothing in here reads
//! the wall clock except to report `wall_s`.

use std::cell::{Cell, RefCell};
use std::collections::{BTreeMap, HashSet};
use std::fmt::Debug;
use std::hash::{Hash, Hasher};
use std::panic::{catch_unwind, AssertUnwindSafe};
use std::path::PathBuf;
use std::sync::atomic::{AtomicBool, AtomicU64, Ordering};
use std::sync::Mutex;

use proptest::strategy::{BoxedStrategy, Strategy};
use proptest::test_runner::{
    Config, RngAlgorithm, RngSeed, TestCaseError, TestError, TestRng,
    TestRunner,
};
use serde::{de::DeserializeOwned, Serialize};
use serde_json::{json, Value};

pub const VERIF_DIR: &str = "/verif";

#[derive(Clone, Copy, Debug, PartialEq, Eq)]
pub enum Tier {
    Quick,
    Thorough,
}

impl Tier {
    pub fn as_str(self) -> &'static str {
        match self {
            Tier::Quick => "quick",
            Tier::Thorough => "thorough",
        }
    }
    /// Pick a work amount by tier.
    pub fn pick(self, quick: u64, thorough: u64) -> u64 {
        match self {
            Tier::Quick => quick,
            Tier::Thorough => thorough,
        }
    }
}

#[derive(Clone, Debug)]
pub struct Opts {
    pub tier: Tier,
    pub seed: u64,
    pub threads: usize,
}

/// A failed oracle clause. `sig` is a stable, *specific* signature (check
/// name is prefixed by the engine); `msg` is for humans.
#[derive(Clone, Debug)]
pub struct Failure {
    pub sig: String,
    pub msg: String,
}

impl Failure {
    pub fn new(sig: impl Into<String>, msg: impl Into<String>) -> Failure {
        Failure { sig: sig.into(), msg: msg.into() }
    }
}

pub type CaseResult = Result<(), Failure>;

#[macro_export]
macro_rules! fail {
    ($sig:expr, $($arg:tt)*) => {
        return Err($crate::engine::Failure::new($sig, format!($($arg)*)))
    };
}

#[macro_export]
macro_rules! ensure {
    ($cond:expr, $sig:expr, $($arg:tt)*) => {
        if !($cond) {
            return Err($crate::engine::Failure::new($sig, format!($($arg)*)));
        }
    };
}

/// Per-case context handed to a test function: classification only.
#[derive(Default)]
pub struct Cx {
    pub nontrivial: bool,
    pub classes: Vec<&'static str>,
    /// counted tolerances / skips (still a pass)
    pub tolerated: Vec<&'static str>,
    /// failures that must not stop the evaluation of the remaining clauses
    /// of this case (used for clauses with a listed finding, so that the
    /// search continues *behind* the finding); judged by the engine after
    /// the test function returns.
    pub soft: Vec<Failure>,
}

impl Cx {
    pub fn nt(&mut self) {
        self.nontrivial = true;
    }
    pub fn nt_if(&mut self, c: bool) {
        if c {
            self.nontrivial = true;
        }
    }
    pub fn class(&mut self, c: &'static str) {
        if !self.classes.contains(&c) {
            self.classes.push(c);
        }
    }
    pub fn class_if(&mut self, cond: bool, c: &'static str) {
        if cond {
            self.class(c);
        }
    }
    pub fn tolerate(&mut self, c: &'static str) {
        self.tolerated.push(c);
    }
    pub fn soft_fail(&mut self, sig: impl Into<String>, msg: impl Into<String>) {
        self.soft.push(Failure::new(sig, msg));
    }
}

// ---------------------------------------------------------------------------
// Panic capture

thread_local! {
    static LAST_PANIC: RefCell<Option<(String, String)>> = RefCell::new(None);
    static QUIET: Cell<bool> = Cell::new(false);
}

pub fn install_panic_hook() {
    let default = std::panic::take_hook();
    std::panic::set_hook(Box::new(move |info| {
        let loc = info
            .location()
            .map(|l| format!("{}:{}", l.file(), l.line()))
            .unwrap_or_else(|| "?".into());
        let msg = if let Some(s) = info.payload().downcast_ref::<&str>() {
            s.to_string()
        } else if let Some(s) = info.payload().downcast_ref::<String>() {
            s.clone()
        } else {
            "<non-string panic>".to_string()
        };
        let quiet = QUIET.with(|q| q.get());
        LAST_PANIC.with(|p| *p.borrow_mut() = Some((loc, msg)));
        if !quiet {
            default(info);
        }
    }));
}

/// Normalise a panic into a signature: file basename (no line number, lines
/// shift with unrelated edits) + message with digit runs collapsed.
fn panic_sig(loc: &str, msg: &str) -> String {
    let file = loc.rsplit('/').next().unwrap_or(loc);
    let file = file.split(':').next().unwrap_or(file);
    let mut m = String::new();
    let mut last_digit = false;
    for ch in msg.chars().take(90) {
        if ch.is_ascii_digit() {
            if !last_digit {
                m.push('#');
            }
            last_digit = true;
        } else {
            last_digit = false;
            m.push(if ch.is_whitespace() { '_' } else { ch });
        }
    }
    format!("panic:{file}:{m}")
}

/// Run `f`, converting a panic into a `Failure` whose signature names the
/// panicking file and message.
pub fn guard<T>(
    what: &str,
    f: impl FnOnce() -> T,
) -> Result<T, Failure> {
    let prev = QUIET.with(|q| q.replace(true));
    LAST_PANIC.with(|p| *p.borrow_mut() = None);
    let r = catch_unwind(AssertUnwindSafe(f));
    QUIET.with(|q| q.set(prev));
    match r {
        Ok(v) => Ok(v),
        Err(_) => {
            let (loc, msg) = LAST_PANIC
                .with(|p| p.borrow_mut().take())
                .unwrap_or_else(|| ("?".into(), "?".into()));
            if loc.starts_with("src/") || loc.contains("/verif/harness/") {
                // a panic in the harness itself is a harness bug, never a
                // violation of the property
                return Err(Failure {
                    sig: format!("{what}/HARNESS-PANIC"),
                    msg: format!("harness code panicked at {loc}: {msg}"),
                });
            }
            Err(Failure {
                sig: format!("{what}/{}", panic_sig(&loc, &msg)),
                msg: format!("{what} panicked at {loc}: {msg}"),
            })
        }
    }
}

// ---------------------------------------------------------------------------
// Known findings

#[derive(Clone, Debug)]
pub struct Finding {
    pub property: String,
    pub sig: String,
    pub text: String,
}

pub fn load_known_findings() -> Vec<Finding> {
    let path = format!("{VERIF_DIR}/known_findings.txt");
    let Ok(s) = std::fs::read_to_string(&path) else { return vec![] };
    let mut out = vec![];
    for line in s.lines() {
        let line = line.trim();
        if !line.starts_with("finding:") {
            continue;
        }
        let rest = line["finding:".len()..].trim();
        let mut property = String::new();
        let mut sig = String::new();
        let mut text = String::new();
        for (i, tok) in rest.splitn(3, ' ').enumerate() {
            match i {
                0 => property = tok.trim_start_matches("property=").into(),
                1 => sig = tok.trim_start_matches("sig=").into(),
                _ => text = tok.into(),
            }
        }
        out.push(Finding { property, sig, text });
    }
    out
}

// ---------------------------------------------------------------------------
// Recorder

#[derive(Debug, Clone)]
pub struct Violation {
    pub check: String,
    pub sig: String,
    pub msg: String,
    pub replay: String,
}

pub struct Recorder {
    pub property: String,
    pub opts: Opts,
    known: Vec<Finding>,
    evaluations: AtomicU64,
    /// distinct non-trivial cases counted by construction (exhaustive loops)
    nontrivial_by_construction: AtomicU64,
    nontrivial_fp: Vec<Mutex<HashSet<u64>>>,
    classes: Mutex<BTreeMap<String, u64>>,
    samples: Mutex<Vec<Value>>,
    known_hits: Mutex<BTreeMap<String, (u64, String)>>,
    violations: Mutex<Vec<Violation>>,
    health: Mutex<Vec<String>>,
    notes: Mutex<BTreeMap<String, Value>>,
    exhaustive_parts: Mutex<Vec<String>>,
    pub strict: AtomicBool,
    start: std::time::Instant,
}

const SHARDS: usize = 64;
const MAX_SAMPLES: usize = 24;

impl Recorder {
    pub fn new(property: &str, opts: Opts) -> Recorder {
        Recorder {
            property: property.to_string(),
            opts,
            known: load_known_findings(),
            evaluations: AtomicU64::new(0),
            nontrivial_by_construction: AtomicU64::new(0),
            nontrivial_fp: (0..SHARDS)
                .map(|_| Mutex::new(HashSet::new()))
                .collect(),
            classes: Mutex::new(BTreeMap::new()),
            samples: Mutex::new(vec![]),
            known_hits: Mutex::new(BTreeMap::new()),
            violations: Mutex::new(vec![]),
            health: Mutex::new(vec![]),
            notes: Mutex::new(BTreeMap::new()),
            exhaustive_parts: Mutex::new(vec![]),
            strict: AtomicBool::new(false),
            start: std::time::Instant::now(),
        }
    }

    pub fn tier(&self) -> Tier {
        self.opts.tier
    }

    pub fn add_evaluations(&self, n: u64) {
        self.evaluations.fetch_add(n, Ordering::Relaxed);
    }

    pub fn add_distinct_nontrivial(&self, n: u64) {
        self.nontrivial_by_construction.fetch_add(n, Ordering::Relaxed);
    }

    pub fn add_fingerprint(&self, fp: u64) {
        let shard = (fp as usize) % SHARDS;
        self.nontrivial_fp[shard].lock().unwrap().insert(fp);
    }

    pub fn add_class(&self, class: &str, n: u64) {
        if n == 0 {
            return;
        }
        *self.classes.lock().unwrap().entry(class.to_string()).or_default() +=
            n;
    }

    pub fn class_count(&self, class: &str) -> u64 {
        self.classes.lock().unwrap().get(class).copied().unwrap_or(0)
    }

    pub fn add_sample(&self, v: Value) {
        let mut s = self.samples.lock().unwrap();
        if s.len() < MAX_SAMPLES {
            s.push(v);
        }
    }

    pub fn want_sample(&self) -> bool {
        self.samples.lock().unwrap().len() < MAX_SAMPLES
    }

    pub fn note(&self, key: &str, v: Value) {
        self.notes.lock().unwrap().insert(key.to_string(), v);
    }

    pub fn mark_exhaustive(&self, what: &str) {
        self.exhaustive_parts.lock().unwrap().push(what.to_string());
    }

    /// A generator/harness health problem (exit 2, never a violation).
    pub fn health_error(&self, msg: String) {
        self.health.lock().unwrap().push(msg);
    }

    /// Enforce a class floor: `class` must make up at least `min_frac` of
    /// `of` (another class or total evaluations of a check).
    pub fn floor(&self, class: &str, of: &str, min_frac: f64) {
        let n = self.class_count(class);
        let d = self.class_count(of);
        if d == 0 || (n as f64) < min_frac * (d as f64) {
            self.health_error(format!(
                "generator health: class `{class}` = {n} is below {:.2}% of `{of}` = {d}",
                min_frac * 100.0
            ));
        }
    }

    pub fn is_known(&self, full_sig: &str) -> Option<&Finding> {
        if self.strict.load(Ordering::Relaxed) {
            return None;
        }
        self.known
            .iter()
            .find(|k| k.property == self.property && k.sig == full_sig)
    }

    /// Record a failure found outside of proptest (exhaustive loops).
    /// Returns true if it was a listed finding (search may continue).
    pub fn fail<C: Serialize>(
        &self,
        check: &str,
        f: &Failure,
        case: &C,
    ) -> bool {
        let full = format!("{check}/{}", f.sig);
        if f.sig.ends_with("HARNESS-PANIC") {
            self.health_error(format!("{check}: {}", f.msg));
            return true;
        }
        if self.is_known(&full).is_some() {
            let mut k = self.known_hits.lock().unwrap();
            let e = k.entry(full).or_insert((0, f.msg.clone()));
            e.0 += 1;
            return true;
        }
        let mut v = self.violations.lock().unwrap();
        // one replay file per distinct signature is enough
        if v.iter().any(|x| x.check == check && x.sig == f.sig) {
            return false;
        }
        let replay = write_replay(&self.property, check, f, case);
        v.push(Violation {
            check: check.to_string(),
            sig: f.sig.clone(),
            msg: f.msg.clone(),
            replay,
        });
        false
    }

    pub fn known_hit(&self, full_sig: String, msg: &str) {
        let mut k = self.known_hits.lock().unwrap();
        let e = k.entry(full_sig).or_insert((0, msg.to_string()));
        e.0 += 1;
    }

    pub fn violation_count(&self) -> usize {
        self.violations.lock().unwrap().len()
    }

    pub fn distinct_nontrivial(&self) -> u64 {
        let mut n = self.nontrivial_by_construction.load(Ordering::Relaxed);
        for s in &self.nontrivial_fp {
            n += s.lock().unwrap().len() as u64;
        }
        n
    }

    /// Write evidence, print verdict lines, return the process exit code.
    pub fn finish(&self, level: &str, rule: &str, assumptions: &[&str]) -> i32 {
        let wall = self.start.elapsed().as_secs_f64();
        if !["exploration", "fault_enumeration", "model_checking", "proof", "translation_validation", "other"].contains(&level) {
            // EVIDENCE.schema.json: `level` is an enum; anything else makes the file "no evidence"
            self.health_error(format!("evidence level {level:?} is not one of the schema's enum values"));
        }
        let violations = self.violations.lock().unwrap().clone();
        let known = self.known_hits.lock().unwrap().clone();
        let health = self.health.lock().unwrap().clone();
        let classes = self.classes.lock().unwrap().clone();
        let samples = self.samples.lock().unwrap().clone();
        let notes = self.notes.lock().unwrap().clone();
        let exh = self.exhaustive_parts.lock().unwrap().clone();
        let evaluations = self.evaluations.load(Ordering::Relaxed);
        let distinct = self.distinct_nontrivial();
        let mut coverage = json!({
            "evaluations": evaluations,
            "distinct_nontrivial": distinct,
            "rule": rule,
            "samples": samples,
            "classes": classes,
            "excluded_known": known.iter().map(|(k, v)| (k.clone(), json!({"count": v.0, "example": v.1}))).collect::<BTreeMap<_, _>>(),
            "exhaustive_parts": exh,
            "harness_health_errors": health,
        });
        for (k, v) in notes {
            coverage[k] = v;
        }
        let ev = json!({
            "property_id": self.property,
            "tier": self.opts.tier.as_str(),
            "seed": self.opts.seed,
            "level": level,
            "coverage": coverage,
            "assumptions": assumptions,
            "wall_s": wall,
            "violations": violations.len(),
            "violation_list": violations.iter().map(|v| json!({"check": v.check, "sig": v.sig, "msg": v.msg, "replay": v.replay})).collect::<Vec<_>>(),
        });
        // VERIF_EVIDENCE_DIR is only used by tools/try_seed.sh so that runs
        // against a seeded (deliberately broken) tree never overwrite the
        // real evidence files.
        let evdir = std::env::var("VERIF_EVIDENCE_DIR").unwrap_or_else(|_| format!("{VERIF_DIR}/evidence"));
        let path = format!("{evdir}/{}.json", self.property);
        let _ = std::fs::create_dir_all(&evdir);
        let tmp = format!("{path}.tmp.{}", std::process::id());
        std::fs::write(&tmp, serde_json::to_string_pretty(&ev).unwrap() + "\n")
            .expect("write evidence");
        std::fs::rename(&tmp, &path).expect("rename evidence");

        for (sig, (n, ex)) in &known {
            println!(
                "KNOWN-FINDING: property={} sig={} count={} e.g. {}",
                self.property,
                sig,
                n,
                ex.replace('\n', " ")
            );
        }
        for v in &violations {
            println!(
                "VIOLATION property={} replay={}",
                self.property, v.replay
            );
            println!("  check={} sig={} :: {}", v.check, v.sig, v.msg);
        }
        println!(
            "{}: tier={} seed={} evaluations={} distinct_nontrivial={} violations={} known_hits={} wall={:.1}s",
            self.property,
            self.opts.tier.as_str(),
            self.opts.seed,
            evaluations,
            distinct,
            violations.len(),
            known.values().map(|v| v.0).sum::<u64>(),
            wall
        );
        if !violations.is_empty() {
            return 1;
        }
        if !health.is_empty() {
            for h in &health {
                println!("HARNESS-HEALTH: property={} {}", self.property, h);
            }
            return 2;
        }
        0
    }
}

fn write_replay<C: Serialize>(
    property: &str,
    check: &str,
    f: &Failure,
    case: &C,
) -> String {
    let case_v = serde_json::to_value(case).unwrap_or(Value::Null);
    let mut h = std::collections::hash_map::DefaultHasher::new();
    case_v.to_string().hash(&mut h);
    check.hash(&mut h);
    let dir = format!("{VERIF_DIR}/replays");
    let _ = std::fs::create_dir_all(&dir);
    let path = format!(
        "{dir}/{}-{}-{:016x}.json",
        property,
        check.replace(['/', ' '], "_"),
        h.finish()
    );
    let doc = json!({
        "property": property,
        "check": check,
        "sig": f.sig,
        "msg": f.msg,
        "case": case_v,
    });
    let _ = std::fs::write(&path, serde_json::to_string_pretty(&doc).unwrap() + "\n");
    path
}

// ---------------------------------------------------------------------------
// Checks

pub trait DynCheck: Sync + Send {
    fn name(&self) -> &'static str;
    fn run(&self, rec: &Recorder);
    /// Re-execute one saved case, bypassing proptest.
    fn replay(&self, case: Value) -> CaseResult;
}

/// A proptest-driven check over generated cases of type `C`.
pub struct Prop<C: 'static> {
    pub name: &'static str,
    pub quick: u64,
    pub thorough: u64,
    pub strategy: fn() -> BoxedStrategy<C>,
    pub test: fn(&C, &mut Cx) -> CaseResult,
}

pub fn mix(seed: u64, name: &str, shard: u64) -> [u8; 32] {
    let mut out = [0u8; 32];
    let mut h = std::collections::hash_map::DefaultHasher::new();
    // DefaultHasher::new() uses fixed keys: deterministic across runs.
    seed.hash(&mut h);
    name.hash(&mut h);
    shard.hash(&mut h);
    let mut x = h.finish();
    for chunk in out.chunks_mut(8) {
        // splitmix64
        x = x.wrapping_add(0x9E3779B97F4A7C15);
        let mut z = x;
        z = (z ^ (z >> 30)).wrapping_mul(0xBF58476D1CE4E5B9);
        z = (z ^ (z >> 27)).wrapping_mul(0x94D049BB133111EB);
        z ^= z >> 31;
        chunk.copy_from_slice(&z.to_le_bytes());
    }
    out
}

pub fn fingerprint<T: Debug>(v: &T) -> u64 {
    let mut h = std::collections::hash_map::DefaultHasher::new();
    format!("{v:?}").hash(&mut h);
    h.finish()
}

/// Execute a test function on a case with panic capture.
pub fn run_case<C>(
    check: &str,
    test: fn(&C, &mut Cx) -> CaseResult,
    case: &C,
    cx: &mut Cx,
) -> CaseResult {
    match guard(check, || test(case, cx)) {
        Ok(Ok(())) => Ok(()),
        Ok(r) => r,
        Err(mut f) => {
            // strip the "check/" prefix added by guard: the engine adds it
            if let Some(rest) = f.sig.strip_prefix(&format!("{check}/")) {
                f.sig = rest.to_string();
            }
            Err(f)
        }
    }
}

impl<C> DynCheck for Prop<C>
where
    C: Serialize + DeserializeOwned + Debug + Clone + Send + 'static,
{
    fn name(&self) -> &'static str {
        self.name
    }

    fn run(&self, rec: &Recorder) {
        let total = rec.tier().pick(self.quick, self.thorough);
        let threads = rec.opts.threads.max(1) as u64;
        let per = (total + threads - 1) / threads;
        let stop = AtomicBool::new(false);
        std::thread::scope(|scope| {
            for shard in 0..threads {
                let stop = &stop;
                scope.spawn(move || {
                    self.run_shard(rec, shard, per, stop);
                });
            }
        });
        rec.add_class(&format!("{}:cases", self.name), 0);
    }

    fn replay(&self, case: Value) -> CaseResult {
        let c: C = serde_json::from_value(case).map_err(|e| {
            Failure::new("replay-decode", format!("cannot decode case: {e}"))
        })?;
        let mut cx = Cx::default();
        run_case(self.name, self.test, &c, &mut cx)?;
        match cx.soft.into_iter().next() {
            Some(f) => Err(f),
            None => Ok(()),
        }
    }
}

impl<C> Prop<C>
where
    C: Serialize + DeserializeOwned + Debug + Clone + Send + 'static,
{
    fn run_shard(
        &self,
        rec: &Recorder,
        shard: u64,
        cases: u64,
        stop: &AtomicBool,
    ) {
        let seed = mix(rec.opts.seed, self.name, shard);
        let config = Config {
            cases: cases as u32,
            failure_persistence: None,
            max_shrink_iters: 4096,
            max_global_rejects: 65536,
            rng_seed: RngSeed::Fixed(0),
            ..Config::default()
        };
        let rng = TestRng::from_seed(RngAlgorithm::ChaCha, &seed);
        let mut runner = TestRunner::new_with_rng(config, rng);
        let strat = (self.strategy)();
        let failed = Cell::new(false);
        let mut local_classes: BTreeMap<&'static str, u64> = BTreeMap::new();
        let local_classes_cell = RefCell::new(&mut local_classes);
        let evals = Cell::new(0u64);
        let last_fail: RefCell<Option<Failure>> = RefCell::new(None);
        // Crash guard (JV_CRASH_GUARD=1, set by ./check for checks whose
        // failure mode can be a process abort: memory errors, stack
        // overflow): the case about to run is written to a per-shard file in
        // replay format, so that the driver can name it if the process dies.
        let crash_file = if std::env::var("JV_CRASH_GUARD").is_ok() {
            let dir = format!("{VERIF_DIR}/.work/crash");
            let _ = std::fs::create_dir_all(&dir);
            std::fs::OpenOptions::new().create(true).write(true).truncate(true).open(format!("{dir}/{}-{shard}.json", self.name)).ok()
        } else {
            None
        };
        let crash_file = RefCell::new(crash_file);
        let result = runner.run(&strat, |case| {
            if stop.load(Ordering::Relaxed) && !failed.get() {
                // another shard already found a violation: finish quickly
                return Ok(());
            }
            if let Some(f) = crash_file.borrow_mut().as_mut() {
                use std::io::{Seek, Write};
                let doc = json!({"property": rec.property, "check": self.name, "sig": "process-crash", "msg": "the process died while running this case", "case": serde_json::to_value(&case).unwrap_or(Value::Null)}).to_string();
                let _ = f.seek(std::io::SeekFrom::Start(0));
                let _ = f.write_all(doc.as_bytes());
                let _ = f.set_len(doc.len() as u64);
            }
            let mut cx = Cx::default();
            let mut r = run_case(self.name, self.test, &case, &mut cx);
            let counting = !failed.get();
            if r.is_ok() {
                for f in cx.soft.drain(..) {
                    let full = format!("{}/{}", self.name, f.sig);
                    if rec.is_known(&full).is_some() {
                        if counting {
                            rec.known_hit(full, &f.msg);
                        }
                    } else {
                        r = Err(f);
                        break;
                    }
                }
            }
            match r {
                Ok(()) => {
                    if counting {
                        evals.set(evals.get() + 1);
                        let mut lc = local_classes_cell.borrow_mut();
                        for c in &cx.classes {
                            *lc.entry(c).or_default() += 1;
                        }
                        for c in &cx.tolerated {
                            *lc.entry(c).or_default() += 1;
                        }
                        if cx.nontrivial {
                            rec.add_fingerprint(fingerprint(&case));
                            if rec.want_sample() {
                                rec.add_sample(json!({
                                    "check": self.name,
                                    "case": serde_json::to_value(&case).unwrap_or(Value::Null),
                                    "classes": cx.classes,
                                }));
                            }
                        }
                    }
                    Ok(())
                }
                Err(f) => {
                    let full = format!("{}/{}", self.name, f.sig);
                    if rec.is_known(&full).is_some() {
                        if counting {
                            evals.set(evals.get() + 1);
                            rec.known_hit(full, &f.msg);
                        }
                        return Ok(());
                    }
                    failed.set(true);
                    stop.store(true, Ordering::Relaxed);
                    let m = f.msg.clone();
                    *last_fail.borrow_mut() = Some(f);
                    Err(TestCaseError::fail(m))
                }
            }
        });
        rec.add_evaluations(evals.get());
        rec.add_class(&format!("{}:cases", self.name), evals.get());
        drop(local_classes_cell);
        for (c, n) in local_classes {
            rec.add_class(&format!("{}:{}", self.name, c), n);
        }
        match result {
            Ok(()) => {}
            Err(TestError::Fail(_, value)) => {
                // Re-run the shrunk case to get its own signature/message.
                let mut cx = Cx::default();
                let f = match run_case(self.name, self.test, &value, &mut cx) {
                    Err(f) => f,
                    Ok(()) if cx.soft.iter().any(|f| rec.is_known(&format!("{}/{}", self.name, f.sig)).is_none()) => {
                        cx.soft.iter().find(|f| rec.is_known(&format!("{}/{}", self.name, f.sig)).is_none()).cloned().unwrap()
                    }
                    Ok(()) => last_fail.borrow().clone().unwrap_or_else(|| {
                        Failure::new("flaky", "shrunk case passes on re-run")
                    }),
                };
                rec.fail(self.name, &f, &value);
            }
            Err(TestError::Abort(reason)) => {
                rec.health_error(format!(
                    "{}: proptest aborted: {reason}",
                    self.name
                ));
            }
        }
    }
}

/// A hand-rolled (exhaustive or structured-sweep) check.
pub struct Sweep {
    pub name: &'static str,
    pub run: fn(&Recorder, &'static str),
    pub replay: fn(Value) -> CaseResult,
}

impl DynCheck for Sweep {
    fn name(&self) -> &'static str {
        self.name
    }
    fn run(&self, rec: &Recorder) {
        (self.run)(rec, self.name)
    }
    fn replay(&self, case: Value) -> CaseResult {
        match guard(self.name, || (self.replay)(case)) {
            Ok(r) => r,
            Err(f) => Err(f),
        }
    }
}

/// Helper for sweeps: evaluate one case with panic capture; record failure.
/// Returns false when an *unlisted* violation was recorded.
fn crash_guard_on() -> bool {
    static ON: std::sync::OnceLock<bool> = std::sync::OnceLock::new();
    *ON.get_or_init(|| std::env::var("JV_CRASH_GUARD").is_ok())
}

thread_local! {
    static SWEEP_CRASH: RefCell<Option<(&'static str, std::fs::File)>> = RefCell::new(None);
}

pub fn sweep_case<C: Serialize>(
    rec: &Recorder,
    check: &'static str,
    case: &C,
    f: impl FnOnce() -> CaseResult,
) -> bool {
    // crash guard (see Prop::run): name the running case in a per-thread file
    if crash_guard_on() {
        use std::io::{Seek, Write};
        SWEEP_CRASH.with(|c| {
            let mut c = c.borrow_mut();
            if c.as_ref().map_or(true, |(n, _)| *n != check) {
                let dir = format!("{VERIF_DIR}/.work/crash");
                let _ = std::fs::create_dir_all(&dir);
                let tid = format!("{:?}", std::thread::current().id()).replace(|ch: char| !ch.is_ascii_alphanumeric(), "");
                *c = std::fs::OpenOptions::new().create(true).write(true).truncate(true).open(format!("{dir}/{check}-sweep-{tid}.json")).ok().map(|f| (check, f));
            }
            if let Some((_, f)) = c.as_mut() {
                let doc = json!({"property": rec.property, "check": check, "sig": "process-crash", "msg": "the process died while running this case", "case": serde_json::to_value(case).unwrap_or(Value::Null)}).to_string();
                let _ = f.seek(std::io::SeekFrom::Start(0));
                let _ = f.write_all(doc.as_bytes());
                let _ = f.set_len(doc.len() as u64);
            }
        });
    }
    let r = match guard(check, f) {
        Ok(r) => r,
        Err(mut f) => {
            if let Some(rest) = f.sig.strip_prefix(&format!("{check}/")) {
                f.sig = rest.to_string();
            }
            Err(f)
        }
    };
    match r {
        Ok(()) => true,
        Err(f) => rec.fail(check, &f, case),
    }
}

pub struct Property {
    pub id: &'static str,
    pub level: &'static str,
    pub rule: &'static str,
    pub assumptions: &'static [&'static str],
    pub checks: Vec<Box<dyn DynCheck>>,
    /// Post-run generator health floors.
    pub floors: fn(&Recorder),
}

pub fn no_floors(_: &Recorder) {}

pub fn run_property(p: &Property, opts: Opts, only: Option<&str>) -> i32 {
    let rec = Recorder::new(p.id, opts);
    for c in &p.checks {
        if let Some(o) = only {
            if !c.name().contains(o) {
                continue;
            }
        }
        let t = std::time::Instant::now();
        c.run(&rec);
        rec.note(
            &format!("wall_s:{}", c.name()),
            json!(t.elapsed().as_secs_f64()),
        );
    }
    if only.is_none() {
        (p.floors)(&rec);
    }
    rec.finish(p.level, p.rule, p.assumptions)
}

pub fn replay_file(props: &[Property], path: &PathBuf, strict: bool) -> i32 {
    let Ok(s) = std::fs::read_to_string(path) else {
        eprintln!("cannot read replay file {}", path.display());
        return 2;
    };
    let Ok(doc) = serde_json::from_str::<Value>(&s) else {
        eprintln!("replay file is not JSON");
        return 2;
    };
    let prop = doc["property"].as_str().unwrap_or("");
    let check = doc["check"].as_str().unwrap_or("");
    for p in props {
        if p.id != prop {
            continue;
        }
        for c in &p.checks {
            if c.name() == check {
                let known = load_known_findings();
                return match c.replay(doc["case"].clone()) {
                    Ok(()) => {
                        println!("REPLAY-PASS property={prop} check={check}");
                        0
                    }
                    Err(f) => {
                        let full = format!("{check}/{}", f.sig);
                        if !strict
                            && known.iter().any(|k| {
                                k.property == prop && k.sig == full
                            })
                        {
                            println!("KNOWN-FINDING: property={prop} sig={full} {}", f.msg);
                            return 0;
                        }
                        println!(
                            "VIOLATION property={prop} replay={}",
                            path.display()
                        );
                        println!("  check={check} sig={} :: {}", f.sig, f.msg);
                        1
                    }
                };
            }
        }
    }
    eprintln!("no such check: {prop} {check}");
    2
}

/// Run `f(i)` for i in 0..n on the configured number of threads, in
/// contiguous chunks (deterministic partition).
pub fn par_chunks(
    threads: usize,
    n: u64,
    f: impl Fn(std::ops::Range<u64>) + Sync,
) {
    let threads = threads.max(1) as u64;
    let per = (n + threads - 1) / threads;
    std::thread::scope(|s| {
        for t in 0..threads {
            let lo = t * per;
            let hi = ((t + 1) * per).min(n);
            if lo >= hi {
                continue;
            }
            let f = &f;
            s.spawn(move || f(lo..hi));
        }
    });
}

/// Deterministic small PRNG for *sweeps* that need a few pseudo-random
/// picks derived from the seed (not used inside proptest checks).
#[derive(Clone)]
pub struct SplitMix(pub u64);
impl SplitMix {
    pub fn from(seed: u64, name: &str, shard: u64) -> SplitMix {
        let b = mix(seed, name, shard);
        SplitMix(u64::from_le_bytes(b[..8].try_into().unwrap()))
    }
    pub fn next(&mut self) -> u64 {
        self.0 = self.0.wrapping_add(0x9E3779B97F4A7C15);
        let mut z = self.0;
        z = (z ^ (z >> 30)).wrapping_mul(0xBF58476D1CE4E5B9);
        z = (z ^ (z >> 27)).wrapping_mul(0x94D049BB133111EB);
        z ^ (z >> 31)
    }
    pub fn below(&mut self, n: u64) -> u64 {
        ((self.next() as u128 * n as u128) >> 64) as u64
    }
    pub fn range(&mut self, lo: i64, hi: i64) -> i64 {
        let span = (hi as i128 - lo as i128 + 1) as u128;
        (lo as i128 + ((self.next() as u128 * span) >> 64) as i128) as i64
    }
}
