//! Throw-away probes (`jv scratch`), not part of any check.
pub fn run() {
    use jiff::{RoundMode, Span, SpanRound, Timestamp, Unit};
    let z = crate::zones::by_label("syn:fat/Verif/Q45").unwrap();
    let r = Timestamp::from_nanosecond(1286656200000000000).unwrap().to_zoned(z.tz.clone());
    let a = Span::new().months(1).weeks(21).days(1).nanoseconds(6);
    let end = r.checked_add(a).unwrap();
    println!("r={r} end={end}");
    println!("until(month) = {:?}", r.until((Unit::Month, &end)));
    println!("r+5mo={}", r.checked_add(Span::new().months(5)).unwrap());
    println!("r+5mo4w={}", r.checked_add(Span::new().months(5).weeks(4)).unwrap());
    println!("r+5mo5w={}", r.checked_add(Span::new().months(5).weeks(5)).unwrap());
    for m in [RoundMode::Ceil, RoundMode::Trunc, RoundMode::HalfExpand] {
        println!("round week {m:?} = {:?}", a.round(SpanRound::new().smallest(Unit::Week).mode(m).relative(&r)));
        println!("round day {m:?} = {:?}", a.round(SpanRound::new().smallest(Unit::Day).mode(m).relative(&r)));
    }
    println!("{:?}", z.rz.footer_text);
}
