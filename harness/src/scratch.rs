//! Throw-away probes (`jv scratch`), not part of any check.
pub fn run() {
    use jiff::{civil::date, Span, Unit};
    for d in [date(-9999, 1, 30), date(-9999, 1, 1), date(2024, 1, 1), date(9999, 12, 31), date(-9998, 1, 1)] {
        for u in [Unit::Year, Unit::Month, Unit::Week, Unit::Day, Unit::Hour] {
            println!("{d} {u:?} zero => {:?} ; 1day => {:?}; -1day => {:?}", Span::new().total((u, d)), Span::new().days(1).total((u, d)), Span::new().days(-1).total((u, d)));
        }
    }
}
