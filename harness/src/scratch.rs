//! Throw-away probes (`jv scratch`), not part of any check.
pub fn run() {
    for s in ["EST5EDT,M3.2.0,M11.1.0", "IST-1GMT0,M10.5.0,M3.5.0/1", "<+1030>-10:30<+11>-11,M10.1.0,M4.1.0", "XXX3:12:34YYY1:45:56,J60/1:02:03,J300/4:05:06", "AAA-5:45BBB-6:15,70/3,280/1:30", "UTC0", "CET-1CEST,M3.5.0,M10.5.0/3"] {
        let tz = jiff::tz::TimeZone::posix(s).unwrap();
        println!("{s} => debug {:?} | alt {:#?} | iana {:?}", tz, tz, tz.iana_name());
    }
}
