//! Throw-away probes (`jv scratch`), not part of any check.
pub fn run() {
    use jiff::{civil::{date, time}, Span, ToSpan};
    use std::hash::{Hash, Hasher};
    fn h<T: Hash>(v: &T) -> u64 {
        let mut s = std::collections::hash_map::DefaultHasher::new();
        v.hash(&mut s);
        s.finish()
    }
    let a = date(2024, 1, 1).tomorrow().unwrap();
    let b = date(2024, 1, 2);
    println!("date eq {} hash eq {}", a == b, h(&a) == h(&b));
    let a = date(2024, 1, 1).checked_add(1.day()).unwrap();
    println!("date(add) eq {} hash eq {}", a == b, h(&a) == h(&b));
    let a = date(2023, 12, 31).checked_add(2.days()).unwrap();
    println!("date(add2) eq {} hash eq {}", a == b, h(&a) == h(&b));
    let t1 = time(1, 0, 0, 0).checked_add(1.hour()).unwrap();
    let t2 = time(2, 0, 0, 0);
    println!("time eq {} hash eq {}", t1 == t2, h(&t1) == h(&t2));
    let d1 = date(2024, 1, 1).at(1, 0, 0, 0).checked_add(25.hours()).unwrap();
    let d2 = date(2024, 1, 2).at(2, 0, 0, 0);
    println!("datetime eq {} hash eq {}", d1 == d2, h(&d1) == h(&d2));
    let s1 = Span::new().try_years(5).unwrap().fieldwise();
    let s2 = Span::new().years(5).fieldwise();
    println!("span eq {} hash eq {}", s1 == s2, h(&s1) == h(&s2));
    let o1 = jiff::tz::Offset::from_seconds(3600).unwrap();
    let o2 = jiff::tz::offset(1);
    println!("offset eq {} hash eq {}", o1 == o2, h(&o1) == h(&o2));
    let w1: jiff::civil::ISOWeekDate = date(2024, 1, 2).iso_week_date();
    let w2 = jiff::civil::ISOWeekDate::new(2024, 1, jiff::civil::Weekday::Tuesday).unwrap();
    println!("iso eq {} hash eq {}", w1 == w2, h(&w1) == h(&w2));
}
