//! Throw-away probes (`jv scratch`), not part of any check.
pub fn run() {
    use jiff::{Zoned, Timestamp};
    for (f, s) in [("%s %z", "1720084029 -0400"), ("%s %z", "1720084029 +0000"), ("%s%.f %z", "-62167201438 -045602"), ("%s %z", "-62167201438 -0456"), ("%s %z","-1 -0400"), ("%s %z","-100000 -0400"), ("%s %z","100000 -0400"), ("%s %:z", "-62167201438 -04:56:02"), ("%s %Q", "-62167201438 America/New_York")] {
        let z = Zoned::strptime(f, s);
        let t = Timestamp::strptime(f, s);
        println!("{f:?} {s:?} -> zoned {:?} ts {:?}", z.as_ref().map(|z| (z.to_string(), z.timestamp().as_second())), t.as_ref().map(|t| t.as_second()));
    }
}
