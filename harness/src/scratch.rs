//! Throw-away probes (`jv scratch`), not part of any check.
pub fn run() {
    use jiff::{RoundMode, Span, SpanRound, Timestamp, Unit};
    let tz = jiff::tz::TimeZone::get("America/Argentina/San_Juan").unwrap();
    let r = Timestamp::from_nanosecond(-1130965200500000000).unwrap().to_zoned(tz.clone());
    let a = Span::new().weeks(51).days(8).milliseconds(500);
    let end = r.checked_add(a).unwrap();
    println!("r={r} end={end}");
    println!("until(year) = {:?}", r.until((Unit::Year, &end)));
    for inc in [1, 2, 186] {
        for m in [RoundMode::Ceil, RoundMode::Trunc, RoundMode::HalfExpand] {
            println!("round month inc={inc} {m:?} = {:?}", a.round(SpanRound::new().smallest(Unit::Month).largest(Unit::Year).increment(inc).mode(m).relative(&r)));
        }
    }
    println!("total months {:?}", a.total((Unit::Month, &r)));
}
