//! Throw-away probes (`jv scratch`), not part of any check.
pub fn run() {
    use jiff::{civil::date, RoundMode, Span, SpanRound, Unit};
    let z = date(2024, 6, 1).in_tz("UTC").unwrap();
    let d = date(2024, 6, 1);
    for s in [Span::new().hours(-36), Span::new().hours(36), Span::new().months(-1).days(-15), Span::new().months(1).days(15)] {
        for m in [RoundMode::HalfCeil, RoundMode::HalfFloor, RoundMode::HalfTrunc, RoundMode::HalfExpand, RoundMode::HalfEven] {
            let u = if s.get_months() != 0 { Unit::Month } else { Unit::Day };
            println!("{s:?} {m:?} {u:?}: zoned {:?}  civil {:?}", s.round(SpanRound::new().smallest(u).mode(m).relative(&z)), s.round(SpanRound::new().smallest(u).mode(m).relative(d)));
        }
    }
}
