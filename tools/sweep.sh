#!/bin/bash
# usage: tools/sweep.sh <seed> [tier]   -- runs every registered check once, one summary line each
seed="${1:-0}"; tier="${2:-quick}"
cd /verif
for id in ${IDS:-C01 C02 C03 C04 C05 C06 C07 C08 C09 C10 C11 C12 C13 C14 C15 C16 C17 C18 C19 C20}; do
  out=$(VERIF_SEED=$seed VERIF_EVIDENCE_DIR=/verif/.work/sweep-evidence timeout 7200 ./check $id --tier $tier 2>&1)
  code=$?
  echo "seed=$seed $id exit=$code $(echo "$out" | grep -E "^$id: tier" | tail -1)"
  if [ $code -ne 0 ]; then echo "$out" | grep -E "VIOLATION|HARNESS|check=" | head -6 | cut -c1-600; fi
done
