#!/usr/bin/env python3
"""Regenerates /verif/MANIFEST.json from the table below (kept in one place so
the manifest is always valid and current)."""
import json, sys

CHECKS = {
 "C01": dict(
   technique="exhaustive enumeration of the finite input space against a walked reference calendar (differential oracle) + proptest-generated nth_weekday cases",
   category="exploration",
   text="Every one of the 7,304,484 valid dates, every constructor triple in a superset box, every ISO week triple and every (month, nth, weekday) combination is enumerated and compared with an independent month-table calendar; for these finite domains the exploration is complete (exhaustive: true in evidence), nth_weekday with 32-bit nth is sampled by a limit-biased generator. ISOWeekDate navigation (tomorrow, yesterday, first/last of week and year, weeks_in_year) and the era/ordinal builders are compared for every date; so are the four weekday numbering schemes and the Weekday algebra (wrapping_add/sub, since/until, cycles, next/previous). Date::constant must be the same date or the documented panic for every triple, in the debug-assertion build and - through a child process running the release build of the harness - without debug assertions.",
   note="Trusted: harness refcal.rs (walked year table + textbook leap rule, self-tested at start-up). crates/jiff-static's copy of itime.rs is exercised by C18, not here.",
   design="DESIGN.md section 3 C01"),
 "C02": dict(
   technique="boundary-exhaustive sweep + proptest generation against an i128 floor-div / walked-calendar oracle; round-trip and constructor/view agreement",
   category="exploration",
   text="All 7.3M local day boundaries (+-1ns) for a set of offsets, every second of several days for 40 offsets, all 187,199 offsets on fixed instants are enumerated; millions of limit-biased (instant, offset), (civil, offset) and constructor inputs are generated. Each is compared with the Gregorian decomposition of floor((t+o)/day) computed independently; equality of round-tripped instants is checked through ==, Ord, Hash and every unit view. Timestamp::constant is called for every generated (second, nanosecond), valid or not, in both build modes (release build via a child process): same instant or the documented panic.",
   note="Trusted: refcal.rs and i128 arithmetic. Random parts are sampled, not exhaustive.",
   design="DESIGN.md section 3 C02"),
 "C03": dict(
   technique="differential testing against an independent RFC 8536 + POSIX TZ reader on the same bytes; structured sweep of every transition +-{1s,0.5s,1ns} plus proptest-generated probes and generated POSIX TZ strings",
   category="exploration",
   text="Every recorded transition of every installed and bundled zone and of synthetic zic zones, and rule-generated transitions of sampled years, are probed on both sides to the nanosecond and compared with an independent reader of the same data; generated POSIX strings extend the rule space. At every probe the same three facts are also read through strftime (%z, %:z, %Z). Generated TZif files without any transition (four local-time-type layouts x every tame rule) must load and follow their footer at every instant.",
   note="Trusted: reftz.rs (validated against zdump in the thorough tier). Excluded and counted: files whose footer contradicts their last transition; generated POSIX rules that spill over a year boundary (jiff documents year clamping). Zero-length daylight periods are generated and judged (standard time throughout).",
   design="DESIGN.md section 3 C03"),
 "C04": dict(
   technique="differential/metamorphic: civil classification derived from the reference reader's instant direction (set of instants displaying the civil time) and from jiff's own instant mapping; structured sweep of every gap/fold window edge + proptest",
   category="exploration",
   text="Both wall-clock edges of every transition of every zone are probed to the nanosecond, plus the extreme civil datetimes; classification, all four strategies and every civil->zoned entry point are compared with the instant-direction oracle; out-of-range results must be errors, not panics.",
   note="Trusted: reftz.rs instant direction (C03). Civil times displayed by >= 3 instants are skipped and counted. ./check runs the whole check twice: in the default build and in a build of the harness without jiff's tz-fat feature (where the hand-over from the recorded table to the footer rule is live for every real zone); the evidence file describes the first pass, the second writes to a scratch directory but its violations and replay files are real.",
   design="DESIGN.md section 3 C04"),
 "C05": dict(
   technique="differential proptest over an API table: ~180 public fallible operations called with limit-biased generated arguments in two builds of the same harness (debug assertions + overflow checks on, and release) connected by a pipe; oracle = no panic in either build, range predicates and print/parse canaries on every Ok value (evaluated inside the panic guard), and identical answers in both builds; proptest shrinking works across both builds",
   category="exploration",
   text="Rows cover constructors, checked/saturating arithmetic with Span/SignedDuration/Duration, until/since with every option, round, with-builders, series, civil->instant conversion with every disambiguation and offset-conflict strategy, Span checked_add/sub/mul/round/total/compare/to_duration with every kind of relative datetime, duration and offset conversions. Arguments: dates/times/timestamps at and next to their limits, instants at zone transitions of 30 zones (incl. +-25:59:59, right/, POSIX, synthetic), spans with units at their limits, increments {divisors, 0, -1, i64::MIN/MAX, non-divisors}, integers at the limits of i8/i16/i32/i64/i128, special floats.",
   note="'With debug assertions' is the dbg profile (optimised, debug-assertions and overflow-checks on); 'without' is the rel profile. Which of Ok/Err is right is left to C06..C12. Option-returning and documented-panicking APIs are not rows. FromStr of durations, spans, timestamps and dates (text built from generated unit values up to the limits of i64) are rows, and so is TimeZone::tzif on a real file with one local-time-type index pushed to the end of its table (accepted zones are then queried).",
   design="DESIGN.md section 3 C05"),
 "C06": dict(
   technique="proptest generation of (zone, instant near transitions, span/duration) against a reference interpreter (civil add on day numbers, compatible resolution via the independent zone reader, exact nanosecond add); targeted construction of starts whose civil intermediate lands inside a gap/fold",
   category="exploration",
   text="Zoned +/- span and absolute durations in checked, saturating and operator forms, plus start_of_day/end_of_day/tomorrow/yesterday, are compared with the reference interpreter over every installed, synthetic and POSIX zone; 19% of span cases have their civil intermediate inside a gap or fold by construction; unsigned std Durations include values above 2^63 seconds (checked forms must fail, saturating forms clamp and keep the zone). Every result must show the civil time and offset of its own instant, and one more day added to a value obtained by tomorrow/yesterday/start_of_day must again match the reference.",
   note="Trusted: reftz.rs, refarith.rs. Two listed findings (start/end of day when midnight lies strictly inside a gap; odd synthetic zones and right/Asia/Tehran only).",
   design="DESIGN.md section 3 C06"),
 "C07": dict(
   technique="proptest generation of ordered pairs per type x every permitted largest unit; metamorphic/structural oracle (a + until(a,b) == b, sign, largest bound, balance by 'one more overshoots', since == -until, exact duration)",
   category="exploration",
   text="Pairs of dates, datetimes, times, timestamps and zoned datetimes (built around every zone's transitions, both sides of folds, same wall clock k days apart) are differenced with every permitted largest unit; reversibility, sign consistency, balance and negation laws are checked on each result, and no input may panic; differences whose other end is taken from a larger type (Date::until(&Zoned), Time::until(DateTime), DateTime::until(Date), Timestamp::until(Zoned), with and without a unit) must equal the same-type difference.",
   note="Trusted: jiff's own addition as metamorphic carrier (decided independently by C06/C08). Calendar balance for year/month units follows Temporal's unconstrained-date comparison; intermediates falling in a gap are not judged for balance. One listed finding (Temporal-conformant 24h+ remainder when the end is the later instant of a fold).",
   design="DESIGN.md section 3 C07"),
 "C08": dict(
   technique="proptest generation of (civil value, span/duration) pairs up to the unit limits against a reference interpreter on day numbers and i128 nanoseconds (differential oracle)",
   category="exploration",
   text="Limit-biased spans (every unit up to its documented limit, both signs, all unit mixes) and absolute durations (up to i64 seconds) are added to / subtracted from dates, datetimes and clock times through checked, saturating, wrapping and operator forms and series; each result (or error) is compared with exact arithmetic on day counts and nanoseconds-of-day; for Date, DateTime and Time series nth/skip/step_by/next-then-nth must see the same sequence as plain iteration.",
   note="Trusted: refarith.rs + refcal.rs. Sampled, not exhaustive.",
   design="DESIGN.md section 3 C08"),
 "C09": dict(
   technique="round-trip property (parse(print(v)) == v) over proptest-generated values and printer options, plus an independent RFC 3339 reader written from the ABNF as a differential oracle",
   category="exploration",
   text="Timestamps with every sub-second precision, civil dates/times/datetimes, and zoned datetimes in every database zone around every transition (35% placed inside a fold, on either pass; all sub-minute-offset periods) are printed and parsed back; instant, civil fields, offset and zone must be identical, reduced precision must equal truncation, an independent reader must decode the same instant, and the text parses back identically under DateTimeParser with offset_conflict prefer-offset/reject and every disambiguation, from bytes, with an explicit database and through Pieces (parse, accessors, to_time_zone, re-print, From impls). The Write-based printers into String, Vec<u8>, StdFmtWrite and StdIoWrite over a sink that takes a few bytes per call must produce the same text; Display precisions from 0 to 65535 must equal the printer's (above nine: nine digits, lossless); serde serialisation is the printed form and deserialises (from text and bytes) to an equal value.",
   note="Folds whose two offsets round to the same minute cannot be distinguished by RFC 3339 text (inherent to the format): not judged, counted. Zones are those reachable by name through the global database.",
   design="DESIGN.md section 3 C09"),
 "C10": dict(
   technique="proptest generation of (value on/near the rounding grid, unit, mode, increment incl. illegal ones) against exact integer rounding written from the mode definitions; Zoned oracle via the reference zone reader",
   category="exploration",
   text="Values are constructed relative to the grid (multiples, midpoints, +-1ns, cell ends) at the type limits, around zero and uniformly, for Timestamp, Time, DateTime (years <= 0 over-weighted), SignedDuration, Offset and Zoned (around every zone's transitions, real day lengths); all nine modes; legal divisors and illegal increments; the builder's setters are applied in a case-dependent order; the From<Unit> and From<(Unit, i64)> shorthands and builders started from Default::default() must equal the builder started from new(). Results, errors and increment legality are compared with an exact i128 oracle.",
   note="Trusted: wide.rs round_to (nine modes from their definitions), refcal/reftz. Hour increments other than 1 for SignedDuration/Offset are not settled by the docs: either outcome accepted. Non-contiguous civil days (fold straddling midnight) are not judged for day rounding.",
   design="DESIGN.md section 3 C10"),
 "C11": dict(
   technique="proptest against independent reference arithmetic (walked calendar, RFC 8536/POSIX zone reader, i128/rational): law-level oracle for Span::round over the full option product and every reference kind, exact i128 oracle for uniform units, exact rational oracle for Span::total (unit window found by search with addition), end-point ordering for Span::compare, exact (r+span)-r for to_duration, exact sums for uniform checked_add/sub, refusal rules",
   category="exploration",
   text="Spans of any unit mix and both signs x reference {none, Date, DateTime, Zoned at/near transitions of every zone, days-are-24-hours marker} x smallest x largest x increment x 9 modes. Checked: units outside [largest, smallest] zero; smallest field a multiple of the increment; r+result is the neighbour the mode prescribes among r+(result with its smallest field +-increment), boundaries and ties strictly; uniform cases field-for-field; balancing (ns, 1) leaves r+span unchanged; totals to 2^-44 relative; compare = order of r+a, r+b; r+(a+b) == (r+a)+b for checked_add/sub with a relative datetime; with increment 1, expand lands on the trunc result or exactly one unit further; invalid options and calendar units without reference must be Err; nothing-near-a-limit must be Ok; the tuple shorthands ((Unit, Date), (Span, &Zoned), (&Span, DateTime), ...) must answer like the SpanRelativeTo forms; c11.compare_fold aims both end points of a comparison into one repeated hour (one span by days, one by hours).",
   note="Stated tolerances (each counted in the evidence): f64 band for calendar smallest units strictly inside a decision point, half-even ties either way, Temporal-conformant quirks where jiff follows its documented model but the literal statement does not hold (bubbling onto a clamped day of month; re-rounding the remainder across a day whose length is not a multiple of the increment; wall-clock reading of whole units inside a fold for totals), no verdict next to transitions that skip a whole day. Listed finding: smallest=day, largest=week, increment>1 leaves a day field that is not a multiple of the increment.",
   design="DESIGN.md section 3 C11"),
 "C12": dict(
   technique="model-based proptest: Span operation histories against a (magnitudes, sign) model with the documented sign rule; SignedDuration ops against one i128 nanosecond count; float constructors against the exact decomposition of the IEEE value",
   category="exploration",
   text="Histories of try-setters (values in, at and just over each limit), negate, abs and checked_mul are interpreted step by step against the model; SignedDuration add/sub/mul/div/neg/abs/saturating/views/constructors and conversions to and from Span and std Duration are compared with exact i128 arithmetic, overflow reported exactly when unrepresentable; operator forms, Sum impls, the panicking setters and ToSpan constructors, 'largest factor that still fits' multipliers and fieldwise (in)equality of Spans included; float views (as_secs_f32, as_millis_f64/f32, div_duration_f32) and float scaling (mul_f64/f32, div_f64/f32 by dyadic factors) within stated tolerances; from_secs_f64/f32 equal the try_ forms or panic; float constructors on raw bit patterns and boundary values.",
   note="Stated tolerances: +-1ns for f64 constructors (round-to-nearest implied by the rustdoc example), +-64ns for f32 (documented precision loss), 4e-16 relative for float views. SignedDuration::new inputs that are documented to panic are not called.",
   design="DESIGN.md section 3 C12"),
 "C13": dict(
   technique="stateful (model-based) proptest: generated histories of 35 public operation kinds interpreted step by step; invariant evaluated after every successful step through jiff's own lookups and through the independent zone reader; histories shrink as one value",
   category="exploration",
   text="Start values in any database zone around transitions, then 1..12 operations (arithmetic, rounding, every with-builder incl. offset/conflict/disambiguation strategies, zone changes, day/month/year navigation, print->parse, strftime->strptime, civil->zoned strategies, until-then-add-back, epoch neighbourhood jumps). After each step: stored offset == zone's offset at the instant, stored civil == instant shifted by it (both vs jiff and vs the reference), instant coherent, and every field accessor of the Zoned (year..nanosecond, weekday, day_of_year, days_in_month/year, leap year, era, ISO week date) reads the reference civil time; Zoned::default() is held to the same invariant; finally Eq/Ord/Hash depend on the instant only, in every spelling (values, references, reference vs value; ==, !=, <, <=, partial_cmp).",
   note="Operations returning Err leave the state unchanged (counted). Trusted: reftz.rs. Zones are those reachable by name through the global database, fixed offsets and UTC.",
   design="DESIGN.md section 3 C13"),
 "C14": dict(
   technique="model-based differential testing of the following/preceding iterators against the reference transition list (explicit + rule-generated), bounded pulls and to-exhaustion runs under a step cap; structured starts around every hand-over + proptest",
   category="exploration",
   text="Iterators are started on, just before and just after transitions of every zone, at range limits and random instants, in both directions; monotonicity, strictness, per-item info (vs data and vs direct lookup), completeness and absence of spurious items are checked over the covered range; featured/synthetic zones (all zones in thorough) are iterated to exhaustion with a termination cap; POSIX rules whose transitions fall on the first and last representable seconds are part of the universe. Rules whose transitions jiff clamps to the end of their year (outside the reference model) are checked for the clauses that need no reference: order, strictness, each item equal to direct lookup at the yielded instant to the nanosecond, both directions visiting the same instants (c14.clamped_rules). A finished iterator must stay finished.",
   note="Trusted: reftz.rs transition list. Recorded transitions that change nothing may be yielded (allowed by the statement).",
   design="DESIGN.md section 3 C14"),
 "C15": dict(
   technique="round-trip / metamorphic proptest over (Span or SignedDuration) x jointly drawn friendly printer configuration and ISO option; lossless configurations must re-parse unit for unit, every configuration within one unit of the last printed digit; humantime crate as independent reader of HumanTime output",
   category="exploration",
   text="Limit-biased spans and durations are printed under randomly drawn printer configurations (designator, spacing, direction, fractional unit, comma, HH:MM:SS, padding, precision, zero unit) and re-parsed; ISO 8601 output likewise. Every printer is also driven through the Write-based entry points into String, Vec<u8>, StdFmtWrite and StdIoWrite over a sink that takes 1..5 bytes per call: the same text must arrive. serde serialisation equals Display and deserialises to an equal value; durations with zero seconds and negative nanoseconds are generated deliberately.",
   note="Calendar units compared fieldwise; uniform units folded into an i128 total (days=24h) only for comparison. Listed finding: durations with i64::MIN seconds do not re-parse from the friendly form.",
   design="DESIGN.md section 3 C15"),
 "C16": dict(
   technique="differential proptest: every strftime specifier x flag x width against the walked reference calendar rendered with jiff's documented padding rules and against glibc strftime (libc) numerically; round trips through generated multi-specifier formats; contradiction injection; RFC 2822 field-by-field independent read",
   category="exploration",
   text="Zoned values in 33 zones (sub-minute and extreme fixed offsets, names containing +, - and digits), dates over-weighted to year boundaries, all specifiers with all flags and widths; strptime(strftime(v)) == v for 21 formats; perturbed weekdays must be rejected; RFC 2822 print/parse incl. obsolete zone names and the relaxed-weekday parser; the RFC 9110 form field by field against the UTC reference. All formatting routes (strtime::format, Zoned/DateTime::strftime Display, BrokenDownTime::to_string/format into several writers) must agree; the fields of a parsed BrokenDownTime are compared one by one with the value printed, as are to_zoned/to_zoned_with/to_datetime/to_date/to_time and parse_prefix; a BrokenDownTime filled through its setters (four ways of naming the date) must convert to the same values, and a wrong weekday must be refused whichever way the date is named (month/day or day of year).",
   note="Text layout follows jiff's own documented table (POSIX fidelity is a documented non-goal); only calendar facts are compared with glibc. Listed findings: padding widths > 19 are capped; %A cannot parse 'Tuesday' (typo pinned by a snapshot test).",
   design="DESIGN.md section 3 C16"),
 "C17": dict(
   technique="grammar- and structure-aware mutation fuzzing with the oracle inside the target: deterministic proptest mutation engine (quick) and coverage-guided libFuzzer/ASan campaigns on the same targets (thorough)",
   category="exploration",
   text="Valid printed values and real/synthetic TZif files are mutated (truncation, digit overflow, sign/separator swaps, long runs, invalid UTF-8; header counts, extreme/unsorted transitions, offsets, designation indexes, hostile footers) and fed to every parser; no panic, Ok values in range and re-printable, accepted zones answer a battery of lookups, accepted RFC 2822 text prints back (both timestamp printers, RFC 2822 and RFC 9110) to text that parses to the identical value, accepted POSIX time zones print (time_zone_to_string) to text that TimeZone::posix and parse_time_zone read back as an equal zone with equal answers, BrokenDownTime::parse_prefix is driven with the same (format, input) pairs (consumed length within the input, agreement with parse), peak heap while parsing TZif bounded by a multiple of the input (counting allocator), coarse time-scaling test.",
   note="A process abort (stack overflow, memory error) is reported through a crash guard that names the running case. 'Work proportional to input' is decided by heap accounting plus a coarse timing test, not a complexity proof. The concatenated-tzdata reader has its own structure-aware mutation check (c17.concat: generated tzdata files with mutated header words, index entries, names, truncations, through from_concatenated_path/available/get).",
   design="DESIGN.md section 3 C17"),
 "C18": dict(
   technique="differential proptest and exhaustive per-zone sweeps: one TZif byte string loaded through every back-end (zoneinfo directory, bundled table, generated Android-style concatenated file, raw bytes, static get!/include! macros) must give byte-identical answer digests; the same digests are computed by a second harness binary built without tz-fat and compared across builds; slim vs fat zic output compared from the first common transition; generated case variants of names; POSIX print/parse round trip on generated rules",
   category="exploration",
   text="Every bundled and installed zone plus the synthetic corpus, at the C03/C04/C14 probe instants (each transition +-1s/+-0.5ns, civil gap/fold edges, far past/future): offset info, civil resolution, previous/next transitions, printing. Name lookup with random case changes returns the canonical spelling; the same name with one letter replaced by a non-ASCII character that Unicode case mapping folds onto it (KELVIN SIGN, LONG S, dotted/dotless I, fullwidth letters) must be refused by every back-end. A private zoneinfo tree of ~90 bundled zones in which every directory also holds dangling symlinks, a symlink loop, empty/short/non-TZif files and empty directories must serve every zone (three spellings) and list exactly the zones (c18.dir_obstacles). Generated POSIX rules (J/n/M dates, negative and >24h times, quoted abbreviations) print to a string that parses to a zone with identical answers, both through the Debug form + TimeZone::posix and through the documented pair time_zone_to_string/print_time_zone -> parse_time_zone/parse_time_zone_with. Generated slim TZif files whose footer rule needs local time types absent from the table (longer/shorter designations, look-alike types) are loaded, and the fattened answers compared with the reference reading of table + footer.",
   note="The tz-fat-off configuration is a second build of the same harness (target-nofat) whose digest is compared line by line. tz::include! is exercised on the synthetic corpus at harness build time (build.rs); the jiff-static copy of shared code is therefore compared with the original on the same bytes.",
   design="DESIGN.md section 3 C18"),
 "C19": dict(
   technique="stateful (model-based) proptest over histories of lookups, resets, on-disk file changes and TTL changes against a private zoneinfo tree whose file versions identify themselves; plus multi-threaded stress with a version-window oracle and a no-progress watchdog",
   category="exploration",
   text="Histories of 1..30 operations are checked step by step against a model of disk, names index and per-entry cache; allowed results follow the statement (exactly the current version once the TTL has passed or after reset, cached-or-current inside the TTL, never another zone's data, canonical spelling, available() == index view). A second model covers the concatenated (Android tzdata) back-end: lookups in four spellings, reset, file replacement, removal and re-addition of zones and TTL changes against a generated tzdata file (a removed zone is only served from an unexpired cache entry; available() after reset or expiry is exactly the file's list). Stress rounds run 2/4/16 threads against one database while files are replaced atomically; reset storms (long TTL, unchanged disk, worker lookups racing 1500 resets) require every lookup of an existing zone to succeed; c19.concat_race replaces a padded concatenated file and resets 40 times per round while 2..16 threads look zones up: a lookup started after reset() returned must see the new version.",
   note="Uses the cfg(jiff_verif) hook TimeZoneDatabase::__verif_set_ttl. Thread interleavings are sampled, not enumerated (std RwLock cannot be intercepted without non-additive changes). An entirely empty tree (documented: names are kept when the walk fails) is not generated.",
   design="DESIGN.md section 3 C19"),
 "C20": dict(
   technique="model-based testing of generated handle programs (reference model = payload per handle + allocation model via a counting global allocator), exhaustive enumeration of all fixed offsets, and the same interpreter as a libFuzzer target under AddressSanitizer/LeakSanitizer (thorough)",
   category="exploration",
   text="Programs of up to ~150 operations over a pool of TimeZone handles of every kind (UTC, unknown, fixed, POSIX, TZif bytes, static get!) with clone/clone_from (directly and through Option/Vec)/drop/move-through-Zoned/eq/query/swap and send-to-thread; every live handle must answer like a freshly built zone, equality laws hold, clones and non-last drops do not change live heap blocks, last drops free, nothing leaks; all 187,199 fixed offsets reproduce exactly; every other program runs with its heap blocks placed at 8 mod 16 (alignment assumptions of the tagged pointer); the system zone as an unnamed TZif handle (TZ=:/path) obeys the same equality laws and answers like the same bytes loaded directly.",
   note="Use-after-free/double free proper are caught by ASan in the thorough tier; in the quick tier through the allocation model, wrong answers, or a process abort (crash guard + glibc malloc checking to name the case). Thread interleavings are sampled. Sweep cases are covered by the crash guard as well (a process that dies inside a sweep is reported as a violation with a replayable case, not as a tool failure).",
   design="DESIGN.md section 3 C20"),
}

NOT_YET = {
}

ALL = ["C%02d" % i for i in range(1, 21)]

def main():
    checks = []
    for pid in ALL:
        if pid not in CHECKS:
            continue
        c = CHECKS[pid]
        checks.append({
            "property_id": pid,
            "quick_cmd": f"./check {pid} --tier quick",
            "thorough_cmd": f"./check {pid} --tier thorough",
            "evidence_file": f"/verif/evidence/{pid}.json",
            "replay_cmd_template": "./check --replay {path}",
            "engine": "jv",
            "level_claimed": {"category": c["category"], "text": c["text"], "design_ref": c["design"]},
            "level_note": c["note"],
            "technique": c["technique"],
        })
    na = []
    for pid in ALL:
        if pid not in CHECKS:
            na.append({"property_id": pid, "reason": NOT_YET.get(pid, "check not built yet in this session (planned: see DESIGN.md section 3); not claimed until its check exists and is silent on the unchanged tree")})
    m = {
        "version": 1,
        "setup_cmd": "./setup.sh",
        "hooks": {
            "guard": "--cfg jiff_verif",
            "enable": "RUSTFLAGS='--cfg jiff_verif' via /verif/harness/.cargo/config.toml ([build] rustflags); the harness depends on jiff by path (/repo) so every check rebuilds /repo's working tree with the hook on",
            "baseline_off_cmd": "cd /repo && cargo test --workspace --no-fail-fast --offline",
            "source_commits": json.load(open('/verif/tools/hook_commits.json')) if __import__('os').path.exists('/verif/tools/hook_commits.json') else [],
            "add_only": True,
        },
        "engines": [
            {"name": "jv-fuzz", "path": "/verif/fuzz", "serves_properties": ["C17", "C20"],
             "kind_free_text": "cargo-fuzz (libFuzzer, nightly, AddressSanitizer, debug assertions on) targets that #[path]-include the harness's target/oracle code; driven by tools/fuzz_campaign.sh in the thorough tier"},
            {"name": "jv", "path": "/verif/harness", "serves_properties": [c["property_id"] for c in checks],
             "kind_free_text": "Rust binary driving proptest TestRunner (fixed ChaCha seed from VERIF_SEED, 16 shards, shrinking, JSON replay files), exhaustive sharded sweeps for finite domains, independent reference models (refcal, reftz, wide)"},
        ],
        "checks": checks,
        "not_applicable": na,
        "notes": "Exit codes: 0 held / 1 VIOLATION / 2 harness or tool failure (never a violation). known_findings.txt lists recorded findings by exact signature and `fixed:` entries. See DESIGN.md.",
    }
    json.dump(m, open('/verif/MANIFEST.json', 'w'), indent=1)
    print("wrote MANIFEST.json with", len(checks), "checks;", len(na), "not_applicable")

main()
