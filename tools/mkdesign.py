#!/usr/bin/env python3
"""Regenerates section 10 of DESIGN.md from tools/design_s10.md + seeded/*/meta.json + seeded/MATRIX.txt."""
import json, glob, re, os
V = '/verif'
matrix = {}
mp = V + '/seeded/MATRIX.txt'
if os.path.exists(mp):
    for l in open(mp):
        m = re.match(r'RESULT seed=(\S+) check=(\S+) exit=(\d+) (?:wall=\S+)?\s*(.*)', l.strip())
        if m:
            sigs = sorted(set(re.findall(r'check=(\S+) sig=', m.group(4))))
            matrix.setdefault(m.group(1), []).append((m.group(2), int(m.group(3)), sigs))
rows = ['| seed | property | change (one line) | quick-tier result (own property) | history |', '|---|---|---|---|---|']
for d in sorted(glob.glob(V + '/seeded/*/meta.json')):
    m = json.load(open(d))
    name = m['name']
    res = []
    for (chk, code, sigs) in matrix.get(name, []):
        res.append(f"{chk}: " + ('detected by ' + ', '.join(sigs) if code == 1 else ('NOT detected' if code == 0 else f'exit {code}')))
    det = m.get('detection', '')
    hist = 'missed at first, check strengthened' if 'MISSED' in det else ''
    change = m['change'].replace('|', '\\|')
    if len(change) > 140:
        change = change[:137] + '...'
    rows.append(f"| {name} | {m['breaks_property']} | {change} | {'; '.join(res) or 'n/a'} | {hist} |")
s10 = open(V + '/tools/design_s10.md').read().replace('SEED_TABLE_PLACEHOLDER', '\n'.join(rows))
nfix = len([l for l in open(V + '/known_findings.txt') if l.startswith('fixed:')])
s10 = re.sub(r'Defects repaired in jiff \(\d+ `fix:` commits', f'Defects repaired in jiff ({nfix} `fix:` commits', s10)
d = open(V + '/DESIGN.md').read()
marker = '\n--------------------------------------------------------------------------\n\n## 10. Build-phase record'
i = d.find(marker)
if i >= 0:
    d = d[:i]
d = d.rstrip('\n') + '\n' + s10
open(V + '/DESIGN.md', 'w').write(d)
print('DESIGN.md section 10 regenerated;', len(rows) - 2, 'seeds')
