#!/bin/bash
# usage: tools/try_seed.sh <patch.diff> <ID> [<ID>...]
# Applies a seeded change to /repo, runs the quick checks, reverts. Prints one line per check.
set -u
patch="$1"; shift
cd /repo || exit 2
if [ -n "$(git status --porcelain --untracked-files=no)" ]; then echo "REPO-DIRTY: refusing"; exit 2; fi
if ! git apply --check "$patch" 2>/dev/null; then echo "PATCH-DOES-NOT-APPLY $patch"; exit 2; fi
git apply "$patch"
trap 'git -C /repo checkout -- . ' EXIT
cd /verif
for id in "$@"; do
  out=$(VERIF_EVIDENCE_DIR=/verif/.work/seed-evidence ./check "$id" --tier quick 2>&1)
  code=$?
  sigs=$(echo "$out" | grep -A1 '^VIOLATION' | grep 'check=' | sed 's/ :: .*//' | sort | uniq | head -5 | tr '\n' ';')
  wall=$(echo "$out" | grep -o 'wall=[0-9.]*s' | tail -1)
  echo "RESULT patch=$(basename $(dirname $(dirname $patch)))/$(basename $patch) check=$id exit=$code $wall $sigs"
  if [ $code -eq 2 ]; then echo "$out" | tail -5; fi
done
