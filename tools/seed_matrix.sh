#!/bin/bash
# Runs every seeded change against the quick checks of the given properties (default: its own property).
# Output: /verif/seeded/MATRIX.txt lines "seed check exit sigs"
cd /verif
out=/verif/seeded/MATRIX.txt
: > $out.tmp
for d in /verif/seeded/*/; do
  name=$(basename $d)
  prop=$(python3 -c "import json;print(json.load(open('$d/meta.json'))['breaks_property'])")
  checks="$prop ${EXTRA_CHECKS:-}"
  ./tools/try_seed.sh $d/patch.diff $checks | grep '^RESULT' | sed "s|patch=[^ ]*|seed=$name|" >> $out.tmp
done
mv $out.tmp $out
cat $out
