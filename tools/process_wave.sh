#!/bin/bash
# usage: tools/process_wave.sh <suffix> [ids...]   e.g. process_wave.sh E  or  process_wave.sh E C05 C11
# Stores /tmp/seedout/<ID>-<suffix>/{patch.diff,demo.rs,AUTHOR_NOTES.md} under /verif/seeded, checks that the
# patch applies to /repo HEAD, tries it against the quick tier of its own property and records the result in
# seeded/MATRIX.txt. meta.json gets a stub unless it exists. Must not run while other checks use /repo.
sfx="$1"; shift
ids="$*"; [ -z "$ids" ] && ids="C01 C02 C03 C04 C05 C06 C07 C08 C09 C10 C11 C12 C13 C14 C15 C16 C17 C18 C19 C20"
cd /verif
for p in $ids; do
  id="$p-$sfx"; src=/tmp/seedout/$id
  [ -f $src/patch.diff ] || { echo "SKIP $id (no patch.diff)"; continue; }
  mkdir -p seeded/$id; cp $src/patch.diff $src/demo.rs seeded/$id/ 2>/dev/null; cp $src/AUTHOR_NOTES.md seeded/$id/ 2>/dev/null
  [ -f seeded/$id/meta.json ] || echo '{"name":"'$id'","breaks_property":"'$p'","change":"(see AUTHOR_NOTES.md)"}' > seeded/$id/meta.json
  files=$(grep '^+++ ' seeded/$id/patch.diff | sed 's|+++ b/||' | tr '\n' ' ')
  if ! git -C /repo apply --check /verif/seeded/$id/patch.diff 2>/dev/null; then echo "NOAPPLY $id files: $files"; continue; fi
  line=$(tools/try_seed.sh /verif/seeded/$id/patch.diff $p | grep '^RESULT' | sed "s|patch=[^ ]*|seed=$id|")
  echo "$line  [files: $files]" | cut -c1-420
  grep -v "seed=$id " seeded/MATRIX.txt > seeded/MATRIX.txt.new; echo "$line" >> seeded/MATRIX.txt.new; sort -o seeded/MATRIX.txt seeded/MATRIX.txt.new; rm -f seeded/MATRIX.txt.new
done
