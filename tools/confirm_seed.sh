#!/bin/bash
# usage: confirm_seed.sh <worker-dir> <seed-name> [<seed-name> ...]
# Independently confirms seeded changes (/verif/seeded/<name>/{patch.diff,demo.rs}) in a scratch
# worktree of /repo: the patch applies and builds, the full existing suite passes with it, and
# the demonstration fails with it and passes without it. Writes /verif/seeded/<name>/confirm.json.
set -u
W="$1"; shift
if [ ! -d "$W" ]; then git -C /repo worktree add -q "$W" HEAD || exit 2; fi
cd "$W" || exit 2
run_demo() {
  cargo build --offline -q 2>/dev/null || return 99
  rustc --edition 2021 -L dependency=target/debug/deps --extern jiff=target/debug/libjiff.rlib "$1" -o target/seed_demo 2>"$W/rustc.log" || return 98
  timeout 600 ./target/seed_demo >/dev/null 2>&1
  return $?
}
for name in "$@"; do
  src=/verif/seeded/$name
  git checkout -q -- . ; rm -rf out; mkdir -p out; cp $src/demo.rs out/demo.rs
  if ! git apply "$src/patch.diff"; then echo "{\"name\":\"$name\",\"error\":\"patch does not apply\"}" > $src/confirm.json; continue; fi
  cargo build --offline -q 2>/dev/null; build=$?
  timeout 3000 cargo test --workspace --no-fail-fast --offline > "$W/test.log" 2>&1; suite=$?
  passed=$(grep "test result" "$W/test.log" | awk '{p+=$4} END {print p+0}')
  failed=$(grep "test result" "$W/test.log" | awk '{f+=$6} END {print f+0}')
  run_demo out/demo.rs; demo_with=$?
  git checkout -q -- .
  run_demo out/demo.rs; demo_without=$?
  base=$(git rev-parse --short HEAD)
  echo "{\"name\":\"$name\",\"base_commit\":\"$base\",\"commands\":[\"git apply patch.diff\",\"cargo build --offline\",\"cargo test --workspace --no-fail-fast --offline\",\"rustc --edition 2021 -L dependency=target/debug/deps --extern jiff=target/debug/libjiff.rlib out/demo.rs && ./seed_demo\"],\"build_exit\":$build,\"suite_exit\":$suite,\"tests_passed\":$passed,\"tests_failed\":$failed,\"demo_exit_with_change\":$demo_with,\"demo_exit_without_change\":$demo_without}" > $src/confirm.json
  cat $src/confirm.json
done
git checkout -q -- . ; rm -rf out
