#!/bin/bash
# usage: tools/fuzz_campaign.sh <property C17|C20> <seconds-per-target> [seed]
# Builds the libFuzzer targets (ASan, debug assertions on) against /repo's working tree and runs
# each with the committed seed corpus plus a persistent corpus under /verif/.work/fuzz-corpus.
# Exit 0: no crash; 1: crash (prints VIOLATION line with the saved input as replay); 2: tool failure.
set -u
prop="$1"; secs="${2:-120}"; seed="${3:-${VERIF_SEED:-1}}"
[ "$seed" = "0" ] && seed=1
case "$prop" in
  C17) targets="temporal_datetime durations rfc2822 strtime posix_tz tzif" ;;
  C20) targets="tz_handles" ;;
  *) echo "unknown property $prop"; exit 2 ;;
esac
cd /verif/fuzz || exit 2
export CARGO_NET_OFFLINE=true
if ! cargo +nightly fuzz build --fuzz-dir /verif/fuzz >/verif/.work/fuzz-build.log 2>&1; then echo "FUZZ-BUILD-FAILED"; tail -20 /verif/.work/fuzz-build.log; exit 2; fi
rc=0
pids=""
for t in $targets; do
  mkdir -p /verif/.work/fuzz-corpus/$t /verif/fuzz/artifacts/$t /verif/corpus/fuzz/$t
  ( cargo +nightly fuzz run --fuzz-dir /verif/fuzz $t /verif/.work/fuzz-corpus/$t /verif/corpus/fuzz/$t -- \
      -max_total_time=$secs -seed=$seed -len_control=0 -max_len=4096 -timeout=20 -rss_limit_mb=4096 -print_final_stats=1 \
      > /verif/.work/fuzz-$t.log 2>&1; echo $? > /verif/.work/fuzz-$t.rc ) &
  pids="$pids $!"
done
wait $pids
for t in $targets; do
  code=$(cat /verif/.work/fuzz-$t.rc 2>/dev/null || echo 2)
  execs=$(grep -o 'stat::number_of_executed_units: [0-9]*' /verif/.work/fuzz-$t.log | awk '{print $2}')
  cov=$(grep -o 'cov: [0-9]*' /verif/.work/fuzz-$t.log | tail -1)
  echo "FUZZ target=$t exit=$code execs=${execs:-?} $cov"
  if [ "$code" != "0" ]; then
    art=$(grep -o 'artifacts/[^ ]*' /verif/.work/fuzz-$t.log | tail -1)
    if grep -q "ERROR: libFuzzer: timeout\|out-of-memory" /verif/.work/fuzz-$t.log; then
      echo "FUZZ-INCONCLUSIVE target=$t (timeout/oom): /verif/fuzz/$art"; [ $rc -eq 0 ] && rc=2
    elif [ -n "$art" ]; then
      echo "VIOLATION property=$prop replay=/verif/fuzz/$art"; grep -m3 "panicked\|ORACLE-FAILURE\|ERROR: AddressSanitizer\|LeakSanitizer" /verif/.work/fuzz-$t.log; rc=1
    else
      echo "FUZZ-TOOL-FAILURE target=$t"; tail -5 /verif/.work/fuzz-$t.log; [ $rc -eq 0 ] && rc=2
    fi
  fi
done
exit $rc
