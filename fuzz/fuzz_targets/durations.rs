#![no_main]
// libFuzzer target; the oracle lives in harness/src/targets.rs (shared with the proptest mutation engine).
#[path = "../../harness/src/targets.rs"]
#[allow(dead_code)]
mod targets;
libfuzzer_sys::fuzz_target!(|data: &[u8]| {
    if let Err(e) = targets::durations(data) {
        panic!("ORACLE-FAILURE {e}");
    }
});
