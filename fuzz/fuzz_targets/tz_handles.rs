#![no_main]
// libFuzzer/ASan/LSan target for C20: handle programs decoded from bytes, same interpreter and
// reference model as the proptest check (harness/src/handles.rs).
#[path = "../../harness/src/handles.rs"]
#[allow(dead_code)]
mod handles;
libfuzzer_sys::fuzz_target!(|data: &[u8]| {
    if let Err(e) = handles::run(&handles::decode(data), None) {
        panic!("ORACLE-FAILURE {e}");
    }
});
