#![no_main]
#[path = "../../harness/src/targets.rs"]
#[allow(dead_code)]
mod targets;
libfuzzer_sys::fuzz_target!(|data: &[u8]| {
    if let Err(e) = targets::rfc2822_target(data) {
        panic!("ORACLE-FAILURE {e}");
    }
});
