#!/bin/bash
# Offline setup: build the harness (both profiles) from files on disk.
set -e
cd /verif/harness
export CARGO_NET_OFFLINE=true
cargo build --quiet --profile dbg
cargo build --quiet --profile rel
echo "setup ok"
